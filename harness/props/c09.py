"""C09 — accumulators yield the documented aggregate; reset() equals a fresh element.

Real code: lena.flow.Count / StoreFilled / GroupBy, lena.math.Sum / DSum / Mean / VarianceMeanCount / Vectorize,
lena.structures.Histogram (+ histogram), lena.structures.Graph.
Model: lean/LenaModel/Model/C09.lean, theorems lean/LenaModel/Props/C09.lean, driver lean/drivers/C09.lean.

A case is one element configuration and one history of method calls
    {"el": SPEC, "ops": [["f", VALUE] | ["c"] | ["r"], ...], "sh": k}
VALUE = {"d": DATA, "c": context | None, "co": n (optional: the insertion order of the context's keys, see _ordered)};
numbers are ints or {"fl": float.hex()}; every number of a case that takes part in arithmetic is a multiple of 2**-k
("sh"), small enough for every partial sum to be exact in binary64 (or an int of any size while the running total is an
int), so the model (exact integers after scaling by 2**k) and the implementation can be compared with ==; a Sum history
in which a float addition rounds is judged by the oracle alone.  After every compute() the harness changes the yielded
contexts / groups in place, as the elements after an accumulator do (_scribble).
"""
import bisect
import copy
import decimal
import functools
import itertools
from fractions import Fraction

from harness.common import exc_name, jdump

PID = "C09"
TITLE = "Accumulators yield the documented aggregate and reset() equals a fresh element"
LEAN_MODULES = ["LenaModel.Props.C09"]
LEAN_SOURCES = ["LenaModel/Model/C09.lean", "LenaModel/Model/C09Spec.lean", "LenaModel/Props/C09.lean"]
DRIVER = "drivers/C09.lean"
THEOREMS = [
    # histories: reset-equals-fresh (generic, relational), sentence 1 after ANY history of fills and computes
    "Lena.C09.reset_bisimilar", "Lena.C09.compute_after_history", "Lena.C09.compute_after_history_pure",
    "Lena.C09.compute_after_reset_history",
    # Count / Sum / StoreFilled / GroupBy
    "Lena.C09.count_compute_spec", "Lena.C09.count_compute_after_history", "Lena.C09.count_own_key_only",
    "Lena.C09.count_run_then_compute", "Lena.C09.count_fillInto_spec",
    "Lena.C09.sum_compute_spec", "Lena.C09.sum_compute_after_history",
    "Lena.C09.store_compute_spec", "Lena.C09.store_compute_after_history",
    "Lena.C09.groupby_compute_spec", "Lena.C09.groupby_one_key", "Lena.C09.groupByOpt_compute_spec",
    "Lena.C09.groupby_c15_compute_spec",
    # DSum: Decimal(float) and Dec.add exact, the loop terminates with a sufficient and minimal precision, the raised
    # precision never shows after reset
    "Lena.C09.Dec.add_toRat", "Lena.C09.Dec.ofDy_toRat", "Lena.C09.DSum.addLoop_prec",
    "Lena.C09.DSum.addLoop_prec_minimal", "Lena.C09.dsum_exact", "Lena.C09.dsum_compute_after_history",
    "Lena.C09.dsum_reset_fresh",
    # Mean / VarianceMeanCount
    "Lena.C09.mean_compute_spec", "Lena.C09.mean_compute_after_history", "Lena.C09.mean_reset_fresh",
    "Lena.C09.meand_compute_spec", "Lena.C09.meand_reset_fresh",
    "Lena.C09.meanOver_compute_spec", "Lena.C09.mean_sum_start_spec", "Lena.C09.mean_count_spec",
    "Lena.C09.mean_multi_spec", "Lena.C09.mean_tagged_spec", "Lena.C09.meanOver_reset_fresh",
    "Lena.C09.mean_sum_start_reset_fresh",
    "Lena.C09.vmc_compute_spec", "Lena.C09.vmc_compute_after_history", "Lena.C09.vmc_is_sample_variance",
    "Lena.C09.vmc_is_population_variance", "Lena.C09.vmc_yields_sample_variance", "Lena.C09.vmc_yields_population_variance",
    # Vectorize
    "Lena.C09.vec_compute_spec", "Lena.C09.vec_sum_compute_spec", "Lena.C09.vec_seq_sum_compute_spec",
    "Lena.C09.vec_reset_fresh", "Lena.C09.vec_reset_fresh_sim", "Lena.C09.vecL_reset_fresh", "Lena.C09.vecL_or_reset_fresh",
    "Lena.C09.vec_sum_reset_fresh", "Lena.C09.vec_mean_reset_fresh", "Lena.C09.vec_seq_sum_reset_fresh",
    "Lena.C09.vec_meand_reset_fresh", "Lena.C09.vec_dsum_reset_fresh", "Lena.C09.vecC_reset_fresh",
    # Histogram
    "Lena.C09.binIndex_spec", "Lena.C09.binIndex_eq_bin1d", "Lena.C09.hist_compute_spec", "Lena.C09.hist_conservation",
    "Lena.C09.hist_compute_after_history", "Lena.C09.hist_reset_is_init",
    "Lena.C09.histnd_reset_is_init", "Lena.C09.histnd_compute_spec", "Lena.C09.histnd_compute_spec_any",
    "Lena.C09.histnd_cells_partial", "Lena.C09.histnd_fill_out",
    # Graph
    "Lena.C09.graph_points", "Lena.C09.graph_own_keys_only", "Lena.C09.graph_scale_adopted",
    "Lena.C09.graph_from_reset_fresh", "Lena.C09.graph_from_reset_not_same_args",
    # adversary round: Sum with Python's number types (reset assigns the int 0), values next to a bin edge,
    # VarianceMeanCount around explicit sum elements (both must be reset)
    "Lena.C09.tsum_compute_spec", "Lena.C09.tsum_type_after_reset",
    "Lena.C09.binIndex_on_edge", "Lena.C09.binIndex_just_below_edge", "Lena.C09.hist_fill_just_below_edge",
    "Lena.C09.vmc_sums_compute_spec", "Lena.C09.vmcOver_reset_fresh", "Lena.C09.vmc_sums_reset_fresh",
    "Lena.C09.vmc_is_vmcOver",
    # seed round I: the counter's name is ONE key for every string (dots, blanks, empty, a key of the context), on contexts
    # with nested dictionaries; the string form of update_recursively (a path) is not that update for any dotted name
    "Lena.C09.count_compute_name_one_key", "Lena.C09.nctx_set_own_key_only", "Lena.C09.nctx_setPath_dotted",
    "Lena.C09.nctx_setPath_not_update",
    # seed C09-G: Vectorize yields as many tuples as its longest component yields values, every value at its place
    "Lena.C09.zipLongest_length_ge", "Lena.C09.zipLongest_keeps_all",
]
# audited, but not counted as proof obligations of the property: restatements of the model (transcription checks:
# the model's reset of these elements is a constant, so reset-equals-fresh is one `rfl` - the assurance for them is the
# fresh-element replay of the harness), model-internal glue and encoding lemmas
AUX_THEOREMS = [
    "Lena.C09.count_reset_fresh", "Lena.C09.sum_reset_fresh", "Lena.C09.store_reset_fresh", "Lena.C09.groupby_reset_fresh",
    "Lena.C09.groupByOpt_reset_fresh", "Lena.C09.vmc_reset_fresh", "Lena.C09.hist_reset_fresh", "Lena.C09.histnd_reset_fresh",
    "Lena.C09.graph_reset_is_init", "Lena.C09.graph_reset_fresh", "Lena.C09.graph_pinned_reset_not_fresh",
    "Lena.C09.graph_compute_spec", "Lena.C09.Graph.compute_eq", "Lena.C09.graph_compute_cases",
    "Lena.C09.Ctx.get_set", "Lena.C09.Ctx.lookup_set", "Lena.C09.Ctx.set_set",
    "Lena.C09.DSum.addLoop_total", "Lena.C09.dsum_innerSim", "Lena.C09.meand_innerSim",
    "Lena.C09.Machine.mapOut_run", "Lena.C09.mapOut_reset_fresh", "Lena.C09.vecC_compute", "Lena.C09.Vec.build_arity",
    "Lena.C09.zipLongest_row", "Lena.C09.mapData_fillAll", "Lena.C09.meanOver_compute_empty",
    "Lena.C09.groupByOpt_fillAll", "Lena.C09.groupByOpt_fillAll_mixed", "Lena.C09.groupByOpt_fill_none",
    "Lena.C09.c15_groupsAdd_eq", "Lena.C09.count_run_spec", "Lena.C09.count_run_empty",
    "Lena.C09.bisect_ok", "Lena.C09.histnd_fillAll_C06", "Lena.C09.histnd_fill_cell",
    "Lena.C09.tsum_fillAll", "Lena.C09.tsum_erase", "Lena.C09.tsum_reset_fresh", "Lena.C09.tsum_keep_type_reset_not_fresh",
    "Lena.C09.vmcOver_fillAll", "Lena.C09.dataSum_bareSq", "Lena.C09.ctxAfter_bareSq", "Lena.C09.vmc_half_reset_not_fresh",
    "Lena.C09.NCtx.lookup_set", "Lena.C09.Ctx.toN_set", "Lena.C09.nctx_setPath_single", "Lena.C09.foldl_max_length_ge",
]
TRUSTED = [
    "Lean 4.33.0 kernel; axioms limited to propext, Classical.choice, Quot.sound (audited by #print axioms on every run)",
    "hand transcription of Count (fill, compute, reset, run, fill_into), Sum, DSum, Mean (sum_seq None / Sum() / DSum() / any "
    "FillCompute sum sequence with numeric results), VarianceMeanCount (Sum() sums; any two sum elements - vmcOverM), Sum over "
    "numbers that carry their Python type (tsumM), Vectorize (copies of one component or a "
    "list of Sum/Count/StoreFilled(False) components, bare or FillComputeSeq components, construct), StoreFilled, GroupBy, Histogram (own "
    "one-dimensional model, and any dimension on the shared model LenaModel/Model/C06.lean) and Graph (__init__, fill, "
    "compute, reset, _update) into LenaModel/Model/C09.lean, validated by this correspondence check on the yielded "
    "values, exceptions and documented public state only (no private attribute is read)",
    "LenaModel/Model/C06.lean (histogram.__init__/fill, owned by property C06) and LenaModel/Model/C15.lean (GroupBy with the "
    "real key function, owned by C15), whose own checks validate them; C09 re-validates the histogram part on its cases",
    "decimal.Context.add under traps=[Inexact] as transcribed (ctxAdd): exact sum if it has at most prec significant digits, "
    "else Inexact.  This is the crux of DSum's exactness and it is an assumption about the decimal module, not a theorem "
    "(dsum_exact is exact by construction of ctxAdd; what the theorems add is termination of the precision loop, "
    "Decimal(float) exact, Dec.add exact); ctxAdd is compared with decimal.Context(prec, traps=[Inexact]).add itself on "
    "every DSum case ('ctxadd' spec requests, independent of lena)",
    "JSON line protocol encoders (harness/props/c09.py, drivers/C09.lean), including the exact scaling of floats to integers",
]
ASSUMPTIONS = [
    "A fill() that raises filled nothing (seed round K/L): histories contain fills of non-numbers (a string, None, a list, a dictionary, a class; bare and as (data, context) pairs) for Sum, DSum, Mean (no sum element, Sum, DSum, Sum(t), FillCompute(Sum)) and VarianceMeanCount; the exception is caught and the element is used further.  The oracle demands the observations of the same history without these fills on a new element (aggregate and last context of the values that WERE filled) and reset-equals-fresh over continuations that contain such fills; the Lean model is run on the history without them (a raising fill is the identity of the model state - not yet a model-level outcome).  Partially bad data vectors of Vectorize (component i raises after components < i were filled) stay outside like too-short vectors: no claim until the next reset.",
    "exact arithmetic: ints (of any size - also beyond 2**53, where only int arithmetic is exact: the typed model tsumM says "
    "when the total is an int), and finite floats chosen so that every partial sum and square is exactly representable; a "
    "Sum history in which a float addition rounds is judged by the oracle alone, within the forward error bound "
    "n * 2**-52 * sum|v| of a float summation (Python 3.12's own sum() is compensated: neither summation order nor "
    "compensation is promised by 'Python's sum' - adversary candidate C09/5, a Neumaier Sum, is judged outside the statement); the "
    "quotients of Mean and VarianceMeanCount are exact rationals in the model and the implementation's floats are compared "
    "with them within the forward error bound of a float evaluation (4 ulp for a mean, 16 u n/(n-1) (E[x^2]+mean^2) for the "
    "two-sums variance) - any re-association or a more accurate algorithm passes; rounding itself is not modelled",
    "finite floats only: inf / nan (DSum.fill(inf); fill(-inf) gives NaN silently: InvalidOperation is not trapped) have no "
    "exact sum and are outside the statement; Emax/Emin of the decimal context are not reached",
    "value semantics: the model has no object identity; that yielded contexts and StoreFilled groups are copies is checked by "
    "the harness: after every compute() it changes the yielded contexts (every leaf, a new key in every nested dictionary) "
    "and the yielded group in place, as the elements after an accumulator do, and a later compute() must still yield the "
    "context of the last filled value; every yielded context / group is also re-encoded at the end of the history; liveness "
    "of yielded histograms, graphs and GroupBy groups, writes into the filled value's own context (Count.compute) and a "
    "filled value that its producer changes after fill() are property C04's subject",
    "contexts are equal as dictionaries: the insertion order of the keys (varied by the generator at every nesting level) "
    "is not part of a context - two values whose contexts differ only in it belong to one GroupBy group",
    "contexts are flat dictionaries whose leaves are opaque to the accumulators (nested dictionaries are opaque leaves; "
    "update_recursively on nested contexts of a sum sequence is checked by the oracle only); the nested model NCtx (set, "
    "setPath = the string form of update_recursively) is executed on the contexts of every Count case and compared with "
    "dict.update / lena.context.update_recursively",
    "an element's name option (Count.name) is any string and the documented key {self.name: self.count} is that string "
    "itself: a dot does not make it a path, it may be empty, contain blanks or braces, and may equal a key of the filled "
    "context (which it then replaces, a nested dictionary as a whole) or begin with one (which it leaves alone); names "
    "that are not strings are outside the generated domain",
    "reset() equals a NEW element means: constructed with the same configuration and the documented start that the reset "
    "docstrings name - Count/Sum/DSum: zero, not the initial count/total; Graph: no points, empty context, the scale "
    "argument - not the points/context given to Graph(points=, context=) (graph_from_reset_not_same_args is the proved "
    "counterexample to the other reading)",
    "make_bins is a pure function returning a new object of the same value on every call (the model holds its value)",
    "GroupBy's key function (IncludeExcludeTree.get + to_string) is property C15's subject; in the C09 correspondence a value "
    "comes with the key computed by an independent reference for top-level group_by/merge keys (None when the key cannot "
    "be rendered); theorem groupby_c15_compute_spec links the abstract model to C15's transcription with the real key function",
    "the interpolation guess of Histogram's bin search is a parameter of the shared model whose value does not influence the "
    "result (C06: bin1d_guess_independent); the C09 driver uses bisection",
    "Vec.computeGo runs every component's compute() to completion in turn while zip_longest interleaves next() calls: "
    "equivalent because no modelled component raises after its first value or observes another component",
    "adapters (FillRequest, FillRequestSeq, FillCompute) around an accumulator are transparent while the block size is not "
    "reached: fill/reset through them are the element's own (validated on the cases with 'via')",
    "VarianceMeanCount(sum_sq, sum_): the sums are Sum(), Sum(start) or a FillCompute adapter around Sum() (no reset) in "
    "either position; the element is inside the quantifier iff it HAS a reset method (documented: iff both sums have "
    "one); then reset() must not raise and must equal VarianceMeanCount(Sum(), Sum()).  With a start the yielded triple is "
    "the element's formula on start + sum (vmc_sums_compute_spec), the variance of the filled values for the zero start",
    "outside the modelled and generated configurations (recorded exclusions): VarianceMeanCount with DSum sums (corrected: "
    "Decimal * float is a TypeError) or sums yielding several values / pairs (modelled: VmcOver.one, not exercised); "
    "Vectorize around an element without reset "
    "(del self.reset raises AttributeError at construction - DESIGN 6), around Histogram/Graph/GroupBy, FillComputeSeq "
    "components with elements after the accumulator, TypeError raised inside construct; Histogram bins with ragged inner "
    "dimensions; the error branch of Mean.fill around a sum sequence whose fill raises (modelled, not exercised); elements "
    "whose reset belongs to a fill/request protocol: FillRequest, FillRequestSeq, Zip (fill/request form), NumpyHistogram "
    "(numpy absent), the private _GroupBy - the property's histories are fill/compute/reset",
]
RULE = ("per element configuration (104 of them: Count[names that are any string: with dots, blanks, braces, empty, equal to / a prefix of keys of the filled contexts], Sum[int and float starts, numbers of both Python types and integers "
        "beyond 2**53 around a reset], DSum, Mean[None|Sum()|DSum()|Sum(start)|Count()|StoreFilled(False)|"
        "FillCompute(Sum()) without reset], VarianceMeanCount[default or explicit sums: Sum(), Sum(start), a sum without reset, "
        "in either position], Vectorize[Sum|Count|Mean|Mean(DSum())|DSum|"
        "VarianceMeanCount|StoreFilled, bare or wrapped in FillComputeSeq(lambda x: k*x, .), dim 1..3, list form, lists of "
        "different components (Sum, Count, StoreFilled(False)) that yield different numbers of values, short and long "
        "data vectors, construct None|variadic|namedtuple of right and wrong size], StoreFilled, GroupBy[default|group_by|merge, "
        "several keys, nested keys, one context written in different insertion orders, keys that cannot be rendered], "
        "Histogram[1-d, 2-d, 3-d, nested single axis, initial bins, make_bins, initial_value, floats one ulp beside an edge, "
        "coordinates of the wrong dimension], Graph[scale, sort, tuple coordinates of equal and different dimensions], elements "
        "filled and reset through FillRequest / FillRequestSeq / FillCompute adapters): EVERY history of up to 4 calls (quick: 3 for the "
        "Vectorize/Mean/VarianceMeanCount families; thorough: up to 5 for the single-accumulator families) over {fill(v1), "
        "fill(v2), compute, reset}; Count with every history of up to 3 (thorough 4) calls over {run(2 values), run(()), "
        "run(1 value), fill, fill_into(2 values), compute, reset}, for the names count, n, events.selected and the empty "
        "string (contexts holding the name and its first component); construction argument checks of "
        "Histogram, Vectorize, GroupBy; a regression corpus; plus seeded random histories fill* (compute|reset|fill)* of up to 12 "
        "calls (quick 12 000, thorough 170 000) with ints, exactly summable floats of mixed magnitude "
        "(multiples of 2**-k, k up to 20), stretches of integers up to 1e30 while the running total is an int (Sum, Mean, "
        "VarianceMeanCount: after construction and after every reset), Sum also with floats whose additions round (oracle only, "
        "forward error bound), Histogram coordinates on an edge, one unit, a few ulps and a relative 1e-9..1e-13 beside it (all "
        "dimensions), (data, context) pairs with flat and nested contexts in varying key orders and with keys that are "
        "not identifiers (dotted, blank, empty, braces), Count / Vectorize(Count) / Mean(Count) with names from the same "
        "vocabulary; DSum, Mean(DSum()) and their "
        "Vectorize with arbitrary floats (denormals to 1e308, cancelling pairs, huge ints).  After every compute() the yielded "
        "contexts and groups are changed in place (what downstream elements do).  Every case also sends the "
        "specification vocabulary of the theorems (Model/C09Spec.lean) to the driver and compares it with Python references.  "
        "After every reset the rest of the history is replayed on a new element.  "
        "Non-trivial: a construction error, or at least two fills and a compute that yields something.")
CASE_TIMEOUT = 10


# ----------------------------------------------------------------------------------------
# numbers and values

def _num(x):
    """decode a NUM of a case"""
    if isinstance(x, dict):
        return float.fromhex(x["fl"])
    return x


def _mknum(v):
    return {"fl": v.hex()} if isinstance(v, float) else v


def _frac(x):
    return Fraction(_num(x))


def _mknum_frac(f):
    """a Fraction with a power-of-two denominator as a case number"""
    return f.numerator if f.denominator == 1 else _mknum(f.numerator / f.denominator)


def _data(spec, d):
    k = spec["k"]
    if k == "vec":
        return [[_num(y) for y in x] if isinstance(x, list) else _num(x) for x in d]
    if k == "graph":
        c0 = tuple(_num(x) for x in d[0]) if isinstance(d[0], list) else _num(d[0])
        return (c0, _num(d[1]))
    if k == "hist" and isinstance(d, list):
        return [_num(x) for x in d]
    return _num(d)


def _dec_leaf(x):
    """a context leaf of a case: {"__set__": [...]} stands for a Python set (not JSON-serialisable: GroupBy cannot
    render it), everything else for itself"""
    if isinstance(x, dict) and "__set__" in x:
        return set(x["__set__"])
    return copy.deepcopy(x)


def _ordered(c, co):
    """a context of a case as a Python dict with a definite insertion order (a replay file is written with sorted
    keys, so the order is part of the VALUE: "co"): the sorted keys, rotated by co and reversed when co // n is odd,
    in every nested dictionary as well.  Equal contexts written in different orders are one context."""
    if not isinstance(c, dict) or "__set__" in c:
        return _dec_leaf(c)
    keys = sorted(c)
    n = len(keys)
    if co and n > 1:
        keys = keys[co % n:] + keys[:co % n]
        if (co // n) % 2:
            keys.reverse()
    return {k: _ordered(c[k], co) for k in keys}


def _value(spec, v):
    d = _data(spec, v["d"])
    if v.get("c") is None:
        return d
    return (d, _ordered(v["c"], v.get("co", 0)))


_BAD_DATA = {"str": "x", "none": None, "list": [], "dict": {"v": 1}, "obj": object}


def _bad_value(v):
    """the value of an op ["fb", {"b": kind, "c": context | None}]: a value whose data part is no number (a string,
    None, an empty list, a dictionary, a class) - no sum can add it, so fill() raises and nothing was filled"""
    d = _BAD_DATA[v["b"]]
    if v.get("c") is None:
        return d
    return (d, _ordered(v["c"], v.get("co", 0)))


def _fb_kind(spec):
    """element kinds whose fill adds the data to a sum at once (a value that is no number makes fill() raise)"""
    k = spec["k"]
    return k in ("sum", "dsum", "vmc") or (k == "mean" and spec["seq"] in (None, "sum", "dsum", "sumt", "fcsum"))


def _nofb(case, res=None):
    """the history without the fills of non-numbers (and the observations without theirs)"""
    keep = [i for i, op in enumerate(case["ops"]) if op[0] != "fb"]
    c2 = dict(case, ops=[case["ops"][i] for i in keep])
    if res is None or "obs" not in res:
        return c2, res
    return c2, dict(res, obs=[res["obs"][i] for i in keep])


def _ctx_of(v):
    return v["c"] if v.get("c") is not None else {}


# ----------------------------------------------------------------------------------------
# the real elements

def _build(spec, zero=False):
    """construct the real element; zero=True: the documented zero start (what reset() restores)"""
    import lena.flow
    import lena.math
    import lena.structures
    k = spec["k"]
    if k == "notfc":
        return abs          # not a FillCompute element
    if k == "count":
        return lena.flow.Count(spec["name"], 0 if zero else spec["count0"])
    if k == "sum":
        return lena.math.Sum(0 if zero else _num(spec["total0"]))
    if k == "dsum":
        return lena.math.DSum(0 if zero else _num(spec["total0"]))
    if k == "countrun":
        return lena.flow.Count(spec["name"], 0 if zero else spec["count0"])
    if k == "mean":
        import lena.core
        sq = spec["seq"]
        if sq == "sumt":          # a sum sequence with a non-zero start (its reset goes to the documented zero)
            seq = lena.math.Sum(0 if zero else _num(spec["t0"]))
        elif sq == "count":       # its first value carries a context
            seq = lena.flow.Count(spec.get("cname", "count"))
        elif sq == "store":       # a sum sequence that yields several values
            seq = lena.flow.StoreFilled(False)
        elif sq == "fcsum":       # a sum sequence without reset
            seq = lena.core.FillCompute(lena.math.Sum())
        elif sq == "storetag":    # several values, each with its own context (no reset either)
            seq = lena.core.FillComputeSeq(lena.flow.StoreFilled(False), lambda x: (x, {"v%d" % x: 1}))
        elif sq == "storenest":   # ... with nested contexts (update_recursively, not dict.update)
            seq = lena.core.FillComputeSeq(lena.flow.StoreFilled(False), lambda x: (x, {"n": {"k%d" % x: 1}, "w": x}))
        else:
            cls = {None: None, "sum": lena.math.Sum, "dsum": lena.math.DSum}[sq]
            seq = cls() if cls else None
        return lena.math.Mean(seq, pass_on_empty=spec["poe"])
    if k == "vmc":
        if spec.get("sums") is not None:
            # [sum_sq, sum_], each "sum" = Sum(), {"t0": t} = Sum(t), "fc" = FillCompute(Sum()) (a sum without reset),
            # "none" = the default;
            # the old spelling "fc" is ["fc", "sum"].  The element has a reset method iff both sums have one.
            import lena.core
            def mk(x):
                if isinstance(x, dict):      # {"t0": start}: Sum(start); reset() goes to the documented zero
                    return lena.math.Sum(0 if zero else _num(x["t0"]))
                return {"sum": lena.math.Sum, "none": lambda: None, "fc": lambda: lena.core.FillCompute(lena.math.Sum())}[x]()
            a, b = _vmc_sums(spec)
            return lena.math.VarianceMeanCount(mk(a), mk(b), corrected=spec["corrected"], pass_on_empty=spec["poe"])
        if spec.get("explicit"):
            return lena.math.VarianceMeanCount(lena.math.Sum(), lena.math.Sum(), corrected=spec["corrected"],
                                               pass_on_empty=spec["poe"])
        return lena.math.VarianceMeanCount(corrected=spec["corrected"], pass_on_empty=spec["poe"])
    if k == "store":
        return lena.flow.StoreFilled(spec["group"])
    if k == "groupby":
        return lena.flow.GroupBy(*[tuple(a) if isinstance(a, list) else a for a in spec["args"]])
    if k == "vec":
        import lena.core
        mul = spec.get("wrap")           # None: the bare element; k: FillComputeSeq(lambda x: k*x, element) (1: no lambda)

        def comp(i=0):
            el = _build(_inner_of(spec, i))
            if mul is None:
                return el
            if mul == 1:
                return lena.core.FillComputeSeq(el)
            return lena.core.FillComputeSeq(lambda x: mul * x, el)
        kw = {}
        con = spec.get("construct")     # None | "variadic" | k (a namedtuple with k fields)
        if con == "variadic":
            kw["construct"] = lambda *a: ["made"] + list(a)
        elif con is not None:
            import collections
            kw["construct"] = collections.namedtuple("made", ["f%d" % i for i in range(con)])
        if spec["list"]:
            seqs = [comp(i) for i in range(_vec_dim(spec))]
            return lena.math.Vectorize(seqs, **kw) if spec["dim"] is None else lena.math.Vectorize(seqs, spec["dim"], **kw)
        inner = comp()
        return lena.math.Vectorize(inner, **kw) if spec["dim"] is None else lena.math.Vectorize(inner, spec["dim"], **kw)
    if k == "hist":
        edges = [[_num(x) for x in ax] for ax in spec["edges"]] if spec.get("md") else [_num(x) for x in spec["edges"]]
        kw = {}
        if spec.get("bins") is not None:
            kw["bins"] = copy.deepcopy(spec["bins"])
        if spec.get("make_bins") is not None:
            mb = spec["make_bins"]
            kw["make_bins"] = lambda: copy.deepcopy(mb)
        if spec.get("iv") is not None:
            kw["initial_value"] = spec["iv"]
        return lena.structures.Histogram(edges, **kw)
    if k == "graph":
        if not zero and (spec.get("points0") is not None or spec.get("context0") is not None):
            pts = None if spec.get("points0") is None else [(_num(p[0]), _num(p[1])) for p in spec["points0"]]
            return lena.structures.Graph(points=pts, context=copy.deepcopy(spec.get("context0")),
                                         scale=spec["scale0"], sort=spec["sort"])
        return lena.structures.Graph(scale=spec["scale0"], sort=spec["sort"])
    if k == "vec2":
        return lena.math.Vectorize(lena.math.Sum(), spec["dim"])
    raise ValueError(k)


def _vmc_sums(spec):
    """(sum_sq, sum_) of a VarianceMeanCount configuration with explicit sums"""
    sm = spec["sums"]
    return ("fc", "sum") if sm == "fc" else (sm[0], sm[1])


def _vmc_resettable(spec):
    """"If they both can be reset, this object has also a reset() method" """
    return spec.get("sums") is None or "fc" not in _vmc_sums(spec)


def _vmc_starts(spec, zero):
    """the starts (Fractions) of sum_sq and sum_: what Sum(t) was given, 0 after a reset"""
    if zero or spec.get("sums") is None:
        return Fraction(0), Fraction(0)
    return tuple(_frac(x["t0"]) if isinstance(x, dict) else Fraction(0) for x in _vmc_sums(spec))


def _inner_of(spec, i):
    """the configuration of component i of a Vectorize"""
    if spec.get("het"):
        return {"sum": {"k": "sum", "total0": 0}, "count": {"k": "count", "name": "count", "count0": 0},
                "store": {"k": "store", "group": False}}[spec["het"][i]]      # yields one value per fill
    return spec["inner"]


def _enc(o):
    """exact canonical encoding of a yielded value (types kept apart)"""
    import lena.structures
    if isinstance(o, bool):
        return {"b": o}
    if isinstance(o, int):
        return o
    if isinstance(o, float):
        return {"fl": o.hex()}
    if isinstance(o, decimal.Decimal):
        if not o.is_finite():
            return {"dec": str(o)}
        f = Fraction(o)
        return {"dec": [f.numerator, f.denominator]}
    if o is None:
        return None
    if isinstance(o, str):
        return {"s": o}
    if isinstance(o, dict):
        return {"dict": {str(k): _enc(v) for k, v in o.items()}}
    if isinstance(o, tuple) and hasattr(o, "_fields"):
        return {"nt": type(o).__name__, "f": {f: _enc(getattr(o, f)) for f in o._fields}}
    if isinstance(o, tuple):
        return {"t": [_enc(x) for x in o]}
    if isinstance(o, list):
        return {"l": [_enc(x) for x in o]}
    if isinstance(o, (set, frozenset)):
        return {"set": sorted(_enc(x) for x in o)}
    if isinstance(o, lena.structures.histogram):
        return {"hist": {"edges": _enc(o.edges), "bins": _enc(o.bins), "n_out": _enc(o.n_out_of_range)}}
    if isinstance(o, lena.structures.Graph):
        return {"graph": {"pts": _enc(list(o.points))}}       # the public `points`; the scale shows in the yielded context
    return {"obj": type(o).__name__}


def _adapter(el, via):
    """the object through which the history fills and resets the element (`compute` is always the element's own,
    or the FillCompute adapter's)"""
    import lena.core
    if via == "fr":          # FillRequest.reset() = el.reset(); the block size is never reached
        return lena.core.FillRequest(el, bufsize=10 ** 6, reset=False, buffer_input=True)
    if via == "frseq":       # FillRequestSeq.reset() -> FillRequest.reset() -> el.reset()
        return lena.core.FillRequestSeq(lena.core.FillRequest(el, bufsize=10 ** 6, reset=False, buffer_input=True),
                                        bufsize=10 ** 6, reset=False, buffer_input=True)
    if via == "fc":          # the FillCompute adapter (fill and compute through it; it has no reset)
        return lena.core.FillCompute(el)
    return el


def _scribble(c):
    """What the elements after an accumulator do with the context they receive (lena elements update contexts in
    place): every leaf is overwritten, every dictionary - nested ones too - gets a new key."""
    for k in list(c):
        if isinstance(c[k], dict):
            _scribble(c[k])
        else:
            c[k] = "changed downstream"
    c["zz_downstream"] = {"filename": "x"}


class _Receiver:
    """what Count.fill_into hands its value to"""
    def __init__(self):
        self.got = []

    def fill(self, value):
        self.got.append(value)


def _run_ops(el, spec, ops, live=None):
    obs = []
    drv = _adapter(el, spec.get("via"))
    cmp_el = drv if spec.get("via") == "fc" else el
    rst_el = el if spec.get("via") == "fc" else drv
    alias = spec.get("alias")            # GroupBy: the deprecated names update (= fill) and clear (= reset)
    kept = []                            # (op index, yield index, what, object, its encoding when it was yielded)
    scribble = []                        # yielded objects that are documented to be copies: changed in place after the op
    for i, op in enumerate(ops):
        if op[0] == "run":
            try:
                obs.append({"run": [_enc(y) for y in el.run(iter([_value(spec, v) for v in op[1]]))]})
            except Exception as e:
                obs.append({"rune": exc_name(e)})
        elif op[0] == "fi":
            rc = _Receiver()
            try:
                el.fill_into(rc, _value(spec, op[1]))
                obs.append({"fi": [_enc(y) for y in rc.got]})
            except Exception as e:
                obs.append({"fie": exc_name(e)})
        elif op[0] in ("f", "fb"):
            try:
                (drv.update if alias else drv.fill)(_value(spec, op[1]) if op[0] == "f" else _bad_value(op[1]))
                obs.append({"f": None})
            except Exception as e:
                obs.append({"f": exc_name(e)})
        elif op[0] == "c":
            scribble = []
            try:
                out = []
                for j, y in enumerate(cmp_el.compute()):
                    out.append(_enc(y))       # encoded at yield time: histograms, graphs and groups are live objects
                    # the yielded context is the element's own product (a deep copy of the last filled context,
                    # extended): whatever happens to it downstream must not show in a later compute()
                    if spec["k"] not in ("store", "groupby") and isinstance(y, tuple) and len(y) == 2 and isinstance(y[1], dict):
                        scribble.append((j, "context", y[1]))
                    if spec["k"] == "store" and spec.get("group") and isinstance(y, list):
                        scribble.append((j, "group", y))                          # documented: a copy of the group
                obs.append({"c": out})
            except Exception as e:
                obs.append({"ce": exc_name(e)})
            # downstream: the values yielded by this compute() are changed in place once the generator is exhausted
            # (StoreFilled(False) and GroupBy yield the filled values themselves: those are left alone)
            if not spec.get("no_downstream"):
                for (j, what, obj) in scribble:
                    if what == "context":
                        _scribble(obj)
                    else:
                        obj.append("appended downstream")
            if live is not None:
                for (j, what, obj) in scribble:
                    kept.append((i, j, what, obj, _enc(obj)))
        else:
            try:
                (rst_el.clear if alias else rst_el.reset)()
                obs.append("r")
            except Exception as e:
                obs.append({"re": exc_name(e)})
    if live is not None:
        for (i, j, what, obj, enc0) in kept:
            enc1 = _enc(obj)
            if enc1 != enc0:
                live.append(f"the {what} yielded by op {i} (value {j}) was {enc0} after op {i} (downstream change included) "
                            f"and is {enc1} after the rest of the history: it is not a copy")
                break
    return obs


def run_impl(case):
    import warnings
    warnings.simplefilter("ignore")
    spec, ops = case["el"], case["ops"]
    try:
        el = _build(spec)
    except Exception as e:
        return {"init_err": exc_name(e)}
    live = []
    res = {"obs": _run_ops(el, spec, ops, live), "fresh": {}, "live": live,
           "has_reset": callable(getattr(el, "reset", None))}
    # reset-equals-fresh: after every reset, the rest of the history on a newly constructed element
    for i, op in enumerate(ops):
        if op[0] == "r" and i + 1 < len(ops) and res["obs"][i] == "r":
            res["fresh"][str(i)] = _run_ops(_build(spec, zero=True), spec, ops[i + 1:])
    if any(op[0] == "fb" for op in ops):
        # the same history without the fills that raised, on a newly constructed element
        if all(isinstance(o, dict) and o.get("f") is not None for op, o in zip(ops, res["obs"]) if op[0] == "fb"):
            res["skipref"] = _run_ops(_build(spec), spec, [op for op in ops if op[0] != "fb"])
    return res


# ----------------------------------------------------------------------------------------
# model side

@functools.lru_cache(maxsize=None)
def _graph_reset_restores_scale():
    """Which Graph.reset is in the tree under test: the pinned one keeps a scale adopted from the flow, the repaired
    one (notes/C09_defect_1.patch) restores the initial scale.  The model has both; the correspondence runs the one
    that is there, the oracle judges the behaviour."""
    import warnings
    warnings.simplefilter("ignore")
    import lena.structures
    g = lena.structures.Graph()
    g.fill(((0, 0), {"scale": 5}))
    list(g.compute())
    g.reset()
    return list(g.compute())[0][1].get("scale") is None


def _leaf_table(case):
    """opaque codes for the context leaves that are not ints"""
    tab = {}
    for v in (case["el"].get("context0") or {}).values():
        if not (isinstance(v, int) and not isinstance(v, bool)) and v is not None:
            tab.setdefault(jdump(_enc(_dec_leaf(v))), 10 ** 9 + len(tab))
    for op in case["ops"]:
        vals = [op[1]] if op[0] in ("f", "fi") else (op[1] if op[0] == "run" else [])
        for val in vals:
            for v in (val.get("c") or {}).values():
                if not (isinstance(v, int) and not isinstance(v, bool)) and v is not None:
                    tab.setdefault(jdump(_enc(_dec_leaf(v))), 10 ** 9 + len(tab))
    return tab


def _m_ctx(c, tab):
    if c is None:
        return None
    out = {}
    for k, v in c.items():
        if v is None or (isinstance(v, int) and not isinstance(v, bool)):
            out[k] = v
        else:
            out[k] = tab[jdump(_enc(_dec_leaf(v)))]
    return out


def _scaled(x, sh):
    f = _frac(x) * (1 << sh)
    if f.denominator != 1:
        raise ValueError(f"case number {x} is not a multiple of 2**-{sh}")
    return f.numerator


def _dyadic(x):
    """an int or float as m * 2**e exactly"""
    x = _num(x)
    if isinstance(x, int):
        return [x, 0]
    num, den = x.as_integer_ratio()
    return [num, -(den.bit_length() - 1)]


def _ref_key(spec, ctx):
    """reference group key for the supported GroupBy arguments (top-level keys only)"""
    args = spec["args"]
    gb = args[0] if len(args) > 0 else ""
    mg = args[1] if len(args) > 1 else ""
    gbs = [gb] if isinstance(gb, str) else list(gb)
    mgs = [mg] if isinstance(mg, str) else list(mg)
    if gb == "" and mg == "":
        sel = {}
    elif "" in gbs:      # the whole context except the merged keys
        sel = {k: v for k, v in ctx.items() if k not in mgs}
    else:
        sel = {k: v for k, v in ctx.items() if k in gbs}
    if any(isinstance(v, dict) and "__set__" in v for v in sel.values()):
        return None        # to_string (json) cannot render the key: GroupBy.fill raises LenaValueError
    return jdump({k: _enc(v) for k, v in sel.items()})


def _m_spec(spec):
    k = spec["k"]
    if k == "count":
        return {"k": "count", "name": spec["name"], "count0": spec["count0"]}
    if k == "mean":
        return {"k": "mean", "seq": spec["seq"] == "sum", "poe": spec["poe"]}
    if k == "store":
        return {"k": "store", "group": spec["group"]}
    if k == "vmc":
        return {"k": "vmc", "corrected": spec["corrected"], "poe": spec["poe"]}
    if k in ("vmc", "store"):
        return dict(spec)
    return None


def _main_requests(case):
    spec, sh = case["el"], case.get("sh", 0)
    k = spec["k"]
    tab = _leaf_table(case)
    if k == "groupby" and any(not isinstance(a, (str, list)) for a in spec["args"]):
        return []                      # construction argument check: judged by the oracle
    if k == "graph" and any(op[0] == "f" and isinstance(op[1]["d"][0], list) for op in case["ops"]):
        return []                      # tuple coordinates: judged by the oracle
    if k == "count":
        el = _m_spec(spec)
    elif k == "countrun":
        el = {"k": "countrun", "name": spec["name"], "count0": spec["count0"]}
    elif k == "mean" and spec["seq"] == "storenest":
        return []                      # nested contexts of the sum sequence: judged by the oracle
    elif k == "mean" and spec["seq"] in ("sumt", "count", "store", "fcsum", "storetag"):
        if spec["seq"] in ("fcsum", "storetag") and any(op[0] == "r" for op in case["ops"]):
            return []                  # reset() raises LenaAttributeError: judged by the oracle
        inner = {"sumt": {"k": "sum", "total0": _scaled(spec.get("t0", 0), sh)},
                 "fcsum": {"k": "sum", "total0": 0},
                 "count": {"k": "count", "name": spec.get("cname", "count"), "count0": 0},
                 "store": {"k": "storeitems"}, "storetag": {"k": "storetag"}}[spec["seq"]]
        el = {"k": "meanover", "inner": inner, "poe": spec["poe"]}
    elif k == "sum":
        nums = [spec["total0"]] + [op[1]["d"] for op in case["ops"] if op[0] == "f"]
        if not _sum_case_exact(spec, case["ops"]) or _need_sh(nums) > sh:
            return []                  # a float addition rounds: outside the exact model, judged by the oracle
        el = {"k": "sum", "total0": _scaled(spec["total0"], sh)}
    elif k == "dsum":
        el = {"k": "dsum", "total0": _dyadic(spec["total0"])}      # Decimal(total) is modelled (Dec.ofDy)
    elif k == "mean" and spec["seq"] == "dsum":
        el = {"k": "meand", "poe": spec["poe"]}
    elif k in ("mean", "vmc", "store"):
        if k == "vmc" and not _vmc_resettable(spec) and any(op[0] == "r" for op in case["ops"]):
            return []                  # the element has no reset method: judged by the oracle
        el = _m_spec(spec)
        if k == "vmc" and spec.get("sums") is not None:
            # explicit sums: the model of VarianceMeanCount around two sum elements (`vmcOverM`)
            a, b = _vmc_starts(spec, False)
            el = {"k": "vmcover", "corrected": spec["corrected"], "poe": spec["poe"],
                  "sq0": _scaled(_mknum_frac(a), 2 * sh), "sm0": _scaled(_mknum_frac(b), sh)}
    elif k == "groupby":
        el = {"k": "groupby"}
    elif k == "vec" and spec.get("het"):
        el = {"k": "vechet", "comps": [{"k": x} for x in spec["het"]], "construct": spec.get("construct")}
    elif k == "vec" and spec["inner"]["k"] == "vec2":
        el = {"k": "vec", "inner": {"k": "vecsum", "dim": spec["inner"]["dim"]}, "list": spec["list"],
              "nseq": spec.get("nseq", 1), "dim": spec["dim"], "construct": spec.get("construct")}
    elif k == "vec":
        inner = spec["inner"]
        if inner["k"] == "mean" and inner["seq"] == "dsum":
            mi = {"k": "meand", "poe": inner["poe"]}
        elif inner["k"] == "dsum":
            mi = {"k": "dsum"}
        else:
            mi = {"k": "sum", "total0": _scaled(inner["total0"], sh)} if inner["k"] == "sum" else _m_spec(inner)
        if mi is None or (mi["k"] in ("meand", "dsum") and spec.get("wrap")):
            return []
        el = {"k": "vec", "inner": mi, "list": spec["list"], "nseq": spec.get("nseq", 1), "dim": spec["dim"],
              "mul": spec.get("wrap"), "construct": spec.get("construct")}
        if spec["dim"] is not None and spec["dim"] < 0:
            el["dim"] = 0              # range(dim - 1) is empty for every dim <= 1: one component
    elif k == "hist":
        if spec.get("md"):
            el = None
        else:
            el = {"k": "hist", "edges": [_scaled(x, sh) for x in spec["edges"]], "bins": spec.get("bins"),
                  "make_bins": spec.get("make_bins"), "iv": 0 if spec.get("iv") is None else spec["iv"]}
        # the same element on the shared n-dimensional histogram model (LenaModel/Model/C06.lean)
        el_nd = {"k": "histnd",
                 "edges": ([[_scaled(x, sh) for x in ax] for ax in spec["edges"]] if spec.get("md")
                           else [_scaled(x, sh) for x in spec["edges"]]),
                 "bins": spec.get("bins"), "make_bins": spec.get("make_bins"),
                 "iv": 0 if spec.get("iv") is None else spec["iv"]}
    elif k == "graph":
        el = {"k": "graph", "scale0": spec["scale0"], "sort": spec["sort"], "reset_scale": _graph_reset_restores_scale(),
              "points0": None if spec.get("points0") is None else [[_scaled(p[0], sh), _scaled(p[1], sh)] for p in spec["points0"]],
              "context0": _m_ctx(spec.get("context0"), tab)}
    else:
        raise ValueError(k)
    keys = {}
    ops = []
    for op in case["ops"]:
        if op[0] == "run":
            ops.append({"o": "run", "vs": [{"c": _m_ctx(v.get("c"), tab), "d": _scaled(v["d"], sh)} for v in op[1]]})
        elif op[0] == "fi":
            ops.append({"o": "fi", "v": {"c": _m_ctx(op[1].get("c"), tab), "d": _scaled(op[1]["d"], sh)}})
        elif op[0] == "f":
            v = op[1]
            mv = {"c": _m_ctx(v.get("c"), tab)}
            if k == "dsum" or (k == "mean" and spec["seq"] == "dsum"):
                mv["d"] = _dyadic(v["d"])
            elif k == "vec" and not spec.get("het") and el["inner"]["k"] in ("meand", "dsum"):
                mv["d"] = [_dyadic(x) for x in v["d"]]
            elif k == "vec" and not spec.get("het") and el["inner"]["k"] == "vecsum":
                mv["d"] = [[_scaled(y, sh) for y in x] for x in v["d"]]
            elif k == "vec":
                mv["d"] = [_scaled(x, sh) for x in v["d"]]
            elif k == "graph":
                mv["d"] = [_scaled(v["d"][0], sh), _scaled(v["d"][1], sh)]
            elif k == "hist" and isinstance(v["d"], list):
                mv["d"] = [_scaled(x, sh) for x in v["d"]]
            else:
                mv["d"] = _scaled(v["d"], sh)
            if k == "groupby":
                rk = _ref_key(spec, _ctx_of(v))
                mv["k"] = None if rk is None else keys.setdefault(rk, len(keys))
            ops.append({"o": "f", "v": mv})
        else:
            ops.append({"o": op[0]})
    if k == "hist":
        return ([{"el": el, "ops": ops}] if el is not None else []) + [{"el": el_nd, "ops": ops}]
    if k == "sum":
        # the same history on the typed model (Model/C09.lean `tsumM`): every number with its Python type, int or float
        isf = lambda x: isinstance(_num(x), float)
        tops = [dict(o, v=dict(o["v"], d=[o["v"]["d"], isf(op[1]["d"])])) if op[0] == "f" else o
                for o, op in zip(ops, case["ops"])]
        return [{"el": el, "ops": ops},
                {"el": {"k": "tsum", "total0": [el["total0"], isf(spec["total0"])]}, "ops": tops}]
    return [{"el": el, "ops": ops}]


def _nctx_enc(c, codes):
    """a case context as nested dictionaries with int / None leaves (any other leaf: an opaque int)"""
    out = {}
    for k, v in (c or {}).items():
        if isinstance(v, dict) and "__set__" not in v:
            out[k] = _nctx_enc(v, codes)
        elif v is None or (isinstance(v, int) and not isinstance(v, bool)):
            out[k] = v
        else:
            out[k] = codes.setdefault(jdump(v), 2 * 10 ** 9 + len(codes))
    return out


def _nset_requests(case, tab):
    """Model/C09.lean NCtx: `c.update({name: v})`, `update_recursively(c, name, v)` and the flat `Ctx.set` of the Count
    model on the contexts of the case, for the counter's name and one more name"""
    vals = []
    for op in case["ops"]:
        vals.extend([op[1]] if op[0] in ("f", "fi") else (op[1] if op[0] == "run" else []))
    codes, reqs, seen = {}, [], set()
    for v in vals:
        c = _nctx_enc(v.get("c"), codes)
        if jdump(c) in seen or len(seen) >= 3:
            continue
        seen.add(jdump(c))
        for name in (case["el"]["name"], _NAMES[(len(jdump(c)) + len(seen)) % len(_NAMES)]):
            reqs.append({"spec": "nset", "c": c, "name": name, "v": len(reqs) + 1, "flat": _m_ctx(v.get("c") or {}, tab)})
    return reqs


def _spec_requests(case):
    """requests that execute the specification vocabulary of the theorems (Model/C09Spec.lean) on the values of the case;
    _spec_check compares every answer with an independent Python computation"""
    spec, sh = case["el"], case.get("sh", 0)
    k = spec["k"]
    fills = [op[1] for op in case["ops"] if op[0] == "f"][:6]
    tab = _leaf_table(case)
    if k == "countrun":
        return _nset_requests(case, tab)
    if not fills:
        return []
    try:
        if k in ("sum", "vmc", "store", "count") or (k == "mean" and spec["seq"] != "dsum"):
            reqs = [{"spec": "stats", "vs": [{"d": _scaled(v["d"], sh), "c": _m_ctx(v.get("c"), tab)} for v in fills]}]
            if k == "count":     # the counter's name as ONE key, on contexts with nested dictionaries
                reqs.extend(_nset_requests(case, tab))
            if k == "sum":       # the vocabulary of the typed Sum theorems
                reqs.append({"spec": "tstats", "vs": [{"d": [_scaled(v["d"], sh), isinstance(_num(v["d"]), float)],
                                                       "c": _m_ctx(v.get("c"), tab)} for v in fills]})
            return reqs
        if k == "groupby" and all(isinstance(a, (str, list)) for a in spec["args"]):
            keys = {}
            ks = []
            for v in fills:
                rk = _ref_key(spec, _ctx_of(v))
                if rk is not None:
                    ks.append(keys.setdefault(rk, len(keys)))
            return [{"spec": "keys", "ks": ks, "probe": ks[len(ks) // 2]}] if ks else []
        if k == "vec" and spec["inner"]["k"] not in ("dsum", "vec2") and not (spec["inner"]["k"] == "mean" and spec["inner"]["seq"] == "dsum"):
            return [{"spec": "vec", "rows": [[_scaled(x, sh) for x in v["d"]] for v in fills], "i": len(fills) % 3}]
        if k == "hist" and not spec.get("md"):
            es = [_frac(x) for x in spec["edges"]]
            if len(es) < 2 or any(a >= b for a, b in zip(es, es[1:])):
                return []                # the bin index is specified for strictly increasing edges
            n = len(spec["edges"]) - 1
            return [{"spec": "bins", "edges": [_scaled(x, sh) for x in spec["edges"]],
                     "xs": [_scaled(v["d"], sh) for v in fills], "n": n, "j": len(fills) % max(n, 1),
                     "bins": spec.get("bins"), "make_bins": spec.get("make_bins"),
                     "iv": 0 if spec.get("iv") is None else spec["iv"]}]
        if k == "hist" and spec.get("make_bins") is None:
            return [{"spec": "histel", "edges": [[_scaled(x, sh) for x in ax] for ax in spec["edges"]],
                     "bins": spec.get("bins"), "iv": 0 if spec.get("iv") is None else spec["iv"],
                     "vs": [{"d": [_scaled(x, sh) for x in v["d"]], "c": _m_ctx(v.get("c"), tab)} for v in fills]}]
        if k == "dsum" or (k == "mean" and spec["seq"] == "dsum"):
            reqs = [{"spec": "dsum", "vs": [_dyadic(v["d"]) for v in fills]}]
            # decimal.Context.add under traps=[Inexact], against the decimal module itself (independent of lena)
            big = decimal.Context(prec=5000)
            ds = [decimal.Decimal(_num(v["d"])) for v in fills]
            a = ds[0]
            for d in ds[1:-1]:
                a = big.add(a, d)
            b = ds[-1] if len(ds) > 1 else decimal.Decimal(_num(spec.get("total0", 0)) if k == "dsum" else 0)
            exact = big.add(a, b)
            nd = len(exact.normalize(big).as_tuple().digits)
            tup = lambda x: [int("".join(map(str, x.as_tuple().digits))) * (-1 if x.as_tuple().sign else 1), x.as_tuple().exponent]
            for p in sorted({max(1, nd - 1), nd, nd + 3, 28}):
                reqs.append({"spec": "ctxadd", "a": tup(a), "b": tup(b), "prec": p})
            return reqs
    except ValueError:
        return []
    return []


def _spec_check(case, req, rep):
    """independent Python reference for every function of the specification vocabulary"""
    if "err" in rep:
        return f"spec request {req['spec']}: {rep['err']}"
    kind = req["spec"]
    if kind == "stats":
        vs = req["vs"]
        xs = [v["d"] for v in vs]
        n = len(xs)
        mu = Fraction(sum(xs), n)
        dev = sum(((x - mu) ** 2 for x in xs), Fraction(0))
        want = {"ctxAfter": vs[-1]["c"] or {}, "dataSum": sum(xs), "dataSumSq": sum(x * x for x in xs), "isum": sum(xs),
                "isumSq": sum(x * x for x in xs), "sqDev": [dev.numerator, dev.denominator], "bareCtx": {},
                "bareSum": sum(xs), "bareSqSum": sum(x * x for x in xs), "bareSqCtx": {}}
    elif kind == "tstats":
        vs = req["vs"]
        want = {"numSum": sum(v["d"][0] for v in vs), "anyFloat": any(v["d"][1] for v in vs),
                "erased": [dict({"d": v["d"][0]}, **({"c": v["c"]} if v["c"] is not None else {})) for v in vs]}
    elif kind == "nset":
        # dict.update itself; lena.context.update_recursively (the function NCtx.setPath transcribes; Count does not use it)
        import lena.context
        c, name, v = req["c"], req["name"], req["v"]
        w_set = copy.deepcopy(c)
        w_set.update({name: v})
        w_path = copy.deepcopy(c)
        try:
            lena.context.update_recursively(w_path, name, v)
        except Exception as e:
            w_path = {"e": exc_name(e)}
        want = {"set": w_set, "path": w_path, "parts": name.split("."), "flat": dict(req["flat"], **{name: v})}
    elif kind == "keys":
        ks = req["ks"]
        want = {"firstKeys": list(dict.fromkeys(ks)), "lookup": [i for i, k in enumerate(ks) if k == req["probe"]]}
    elif kind == "vec":
        rows, i = req["rows"], req["i"]
        want = {"column": [r[i] if i < len(r) else 0 for r in rows],
                "zip": [list(t) for t in itertools.zip_longest(*rows)],
                "firstErr": "LenaZeroDivisionError" if any(not r for r in rows) else rows}
    elif kind == "bins":
        es, xs, n, j = req["edges"], req["xs"], req["n"], req["j"]
        idx = [bisect.bisect_right(es, x) - 1 for x in xs]
        init = req["make_bins"] if req["make_bins"] is not None else (
            req["bins"] if req["bins"] is not None else [req["iv"]] * (len(es) - 1))
        want = {"idx": idx, "in": [i == j for i in idx], "out": [i < 0 or i >= n for i in idx], "initBins": init}
    elif kind == "dsum":
        fr = [Fraction(m) * Fraction(2) ** e for m, e in req["vs"]]
        tot = sum(fr, Fraction(0))
        pr = lambda f: [f.numerator, f.denominator]
        want = {"dySum": pr(tot), "bareSum": pr(tot), "dec": [pr(f) for f in fr], "dy": [pr(f) for f in fr]}
    elif kind == "ctxadd":
        mk = lambda t: decimal.Decimal(t[0]).scaleb(t[1], decimal.Context(prec=5000))
        try:
            r = decimal.Context(prec=req["prec"], traps=[decimal.Inexact]).add(mk(req["a"]), mk(req["b"]))
            f = Fraction(r)
            want = {"r": [f.numerator, f.denominator]}
        except decimal.Inexact:
            want = {"inexact": True}
    elif kind == "histel":
        spec = case["el"]
        fills = [op[1] for op in case["ops"] if op[0] == "f"][:6]
        nd = len(spec["edges"])
        if any(len(v["d"]) != nd for v in fills):
            want = {"e": "LenaValueError"}
        else:
            try:
                bins, n_out = _ref_hist(spec, fills)
                want = {"bins": bins, "n_out": n_out, "c": req["vs"][-1]["c"] or {}}
            except Exception:
                return None
        if "e" in rep and "e" not in want:      # construction errors are compared by the main request
            return None
    else:
        return f"unknown spec request {kind}"
    if rep != want:
        return f"spec {kind} on {jdump(req)[:300]}: Lean {rep} vs Python reference {want}"
    return None


def model_requests(case):
    case = _nofb(case)[0]
    return _main_requests(case) + _spec_requests(case)


_ULP = Fraction(1, 2 ** 52)


class _Mismatch(Exception):
    pass


def _split_pair(e):
    """(data encoding, context encoding | None) of an encoded yielded value, as lena.flow.get_data_context would"""
    if isinstance(e, dict) and "t" in e and len(e["t"]) == 2 and isinstance(e["t"][1], dict) and "dict" in e["t"][1]:
        return e["t"][0], e["t"][1]["dict"]
    return e, None


def _impl_ctx(cd, tab):
    out = {}
    for k, v in cd.items():
        if v is None or (isinstance(v, int) and not isinstance(v, bool)):
            out[k] = v
        else:
            code = tab.get(jdump(v))
            if code is None:
                raise _Mismatch(f"context leaf {v} of the implementation is not a leaf of the case")
            out[k] = code
    return out


def _unnum(e):
    """encoded number -> Fraction"""
    if isinstance(e, bool) or e is None:
        raise _Mismatch(f"not a number: {e}")
    if isinstance(e, int):
        return Fraction(e)
    if isinstance(e, dict) and "fl" in e:
        return Fraction(float.fromhex(e["fl"]))
    if isinstance(e, dict) and "dec" in e and isinstance(e["dec"], list):
        return Fraction(e["dec"][0], e["dec"][1])
    raise _Mismatch(f"not a number: {e}")


def _int_scaled(e, sh):
    f = _unnum(e) * (1 << sh)
    if f.denominator != 1:
        raise _Mismatch(f"{e} is not a multiple of 2**-{sh}")
    return f.numerator


def _rdiv(num, den):
    """correctly rounded num/den (Python's int true division)"""
    if den < 0:
        num, den = -num, -den
    return num / den


def _near(got, exact, bound, what):
    """the implementation's float against the model's exact rational: rounding is outside the model (DESIGN 8), so
    the comparison allows the forward error bound of a float evaluation, not more"""
    if not (isinstance(got, dict) and "fl" in got):
        raise _Mismatch(f"{what} {got} is not a float")
    if abs(Fraction(float.fromhex(got["fl"])) - exact) > bound:
        raise _Mismatch(f"{what} {float.fromhex(got['fl'])!r} differs from the model's exact {exact} by more than {float(bound)!r}")


def _inner_spec_full(spec, i):
    """component i of a Vectorize as an element configuration of its own"""
    inner = _inner_of(spec, i)
    if inner["k"] == "vec2":
        return {"k": "vec", "inner": {"k": "sum", "total0": 0}, "list": False, "dim": inner["dim"]}
    return inner


def _vec_row(d):
    """(components, constructed?) of the data part of a value yielded by Vectorize"""
    if isinstance(d, dict) and "t" in d:
        return d["t"], False
    if isinstance(d, dict) and d.get("nt") == "made":
        return [d["f"]["f%d" % i] for i in range(len(d["f"]))], True
    if isinstance(d, dict) and "l" in d and d["l"] and d["l"][0] == {"s": "made"}:
        return d["l"][1:], True
    raise _Mismatch(f"Vectorize yielded {d}, neither a tuple nor a constructed object")


def _conv_out(kind, spec, e, sh, tab, m):
    """translate one encoded output of the implementation into the model's encoding; `m` is the model's output (used
    where the implementation's float is the rounded evaluation of the model's exact rational)"""
    if kind == "count":
        d, c = _split_pair(e)
        if c is None:
            raise _Mismatch(f"Count yielded {e}, not a (count, context) pair")
        return {"d": _int_scaled(d, 0), "c": _impl_ctx(c, tab)}
    if kind == "sum":
        d, c = _split_pair(e)
        r = {"d": _int_scaled(d, sh)}
        if c is not None:
            r["c"] = _impl_ctx(c, tab)
        return r
    if kind == "tsum":         # the total with its Python type: [value, is it a float?]
        d, c = _split_pair(e)
        if not (isinstance(d, int) and not isinstance(d, bool)) and not (isinstance(d, dict) and "fl" in d):
            raise _Mismatch(f"Sum yielded {d}, neither an int nor a float")
        r = {"d": [_int_scaled(d, sh), isinstance(d, dict)]}
        if c is not None:
            r["c"] = _impl_ctx(c, tab)
        return r
    if kind == "dsum":
        d, c = _split_pair(e)
        r = {"d": _unnum(d)}
        if c is not None:
            r["c"] = _impl_ctx(c, tab)
        return r
    if kind == "mean":
        d, c = _split_pair(e)
        md = m.get("d") if isinstance(m, dict) else None
        if not (isinstance(md, list) and len(md) == 2):
            raise _Mismatch(f"model output {m} is not a mean")
        if m.get("__idx", 0) > 0:        # a further value of the sum sequence: passed on as it is
            if _unnum(d) * (1 << sh) != Fraction(md[0], md[1]):
                raise _Mismatch(f"value {d} passed on by Mean vs model {md}")
            r = {"d": md}
            if c is not None:
                r["c"] = _impl_ctx(c, tab)
            return r
        exact = Fraction(md[0], md[1]) if spec.get("seq") in ("dsum", "count") else Fraction(md[0], md[1] << sh)
        _near(d, exact, 4 * _ULP * abs(exact), "mean")
        r = {"d": md}
        if c is not None:
            r["c"] = _impl_ctx(c, tab)
        return r
    if kind == "vmc":
        d, c = _split_pair(e)
        md = m.get("d") if isinstance(m, dict) else None
        if not (isinstance(md, dict) and "var" in md):
            raise _Mismatch(f"model output {m} is not a variance_mean_count")
        if not (isinstance(d, dict) and d.get("nt") == "variance_mean_count"):
            raise _Mismatch(f"VarianceMeanCount yielded {d}")
        f = d["f"]
        if f["count"] != md["count"]:
            raise _Mismatch(f"count {f['count']} vs model {md['count']}")
        n = md["count"]
        mean = Fraction(md["mean"][0], md["mean"][1] << sh)
        var = Fraction(md["var"][0], md["var"][1] << (2 * sh))
        rr = Fraction(n, n - 1) if spec["corrected"] else Fraction(1)
        m2 = var / rr + mean * mean                    # the mean of the squares
        _near(f["mean"], mean, 4 * _ULP * abs(mean), "mean")
        _near(f["variance"], var, 16 * Fraction(1, 2 ** 53) * rr * (m2 + mean * mean), "variance")
        r = {"d": md}
        if c is not None:
            r["c"] = _impl_ctx(c, tab)
        return r
    if kind == "item":         # a stored flow value: bare number or (number, context)
        d, c = _split_pair(e)
        r = {"d": _int_scaled(d, sh)}
        if c is not None:
            r["c"] = _impl_ctx(c, tab)
        return r
    if kind == "store":
        if spec["group"]:
            if not (isinstance(e, dict) and "l" in e):
                raise _Mismatch(f"StoreFilled yielded {e}, not a list")
            return {"g": [_conv_out("item", spec, x, sh, tab, None) for x in e["l"]]}
        return _conv_out("item", spec, e, sh, tab, None)
    if kind == "groupby":
        if not (isinstance(e, dict) and "l" in e):
            raise _Mismatch(f"GroupBy yielded {e}, not a list")
        return {"g": [_conv_out("item", spec, x, sh, tab, None) for x in e["l"]]}
    if kind == "vec":
        d, c = _split_pair(e)
        row, made = _vec_row(d)
        md = m.get("d") if isinstance(m, dict) else None
        if isinstance(md, dict) and "made" in md:
            md = md["made"]
        ns = m.get("__ns") if isinstance(m, dict) else None
        comps = []
        for i, x in enumerate(row):
            mi = md[i] if isinstance(md, list) and i < len(md) else None
            if isinstance(mi, dict) and ns is not None and i < len(ns):
                mi = dict(mi, __n=ns[i])
            inner = _inner_spec_full(spec, i)
            comps.append(None if x is None else _conv_out(inner["k"], inner, x, sh, tab, mi))
        r = {"d": {"made": comps} if made else comps}
        if c is not None:
            r["c"] = _impl_ctx(c, tab)
        return r
    if kind == "hist":
        d, c = _split_pair(e)
        if c is None or not (isinstance(d, dict) and "hist" in d):
            raise _Mismatch(f"Histogram yielded {e}, not a (histogram, context) pair")
        h = d["hist"]

        def nested(x, f):
            return [nested(y, f) for y in x["l"]] if isinstance(x, dict) and "l" in x else f(x)
        edges = nested(h["edges"], lambda x: _int_scaled(x, sh))
        want = ([[_scaled(x, sh) for x in ax] for ax in spec["edges"]] if spec.get("md")
                else [_scaled(x, sh) for x in spec["edges"]])
        if edges != want:
            raise _Mismatch(f"edges of the yielded histogram {h['edges']} differ from the configuration")
        return {"d": {"bins": nested(h["bins"], lambda x: _int_scaled(x, 0)), "n_out": _int_scaled(h["n_out"], 0)},
                "c": _impl_ctx(c, tab)}
    if kind == "graph":
        d, c = _split_pair(e)
        if c is None or not (isinstance(d, dict) and "graph" in d):
            raise _Mismatch(f"Graph yielded {e}, not a (graph, context) pair")
        g = d["graph"]
        pts = [[_int_scaled(p["t"][0], sh), _int_scaled(p["t"][1], sh)] for p in g["pts"]["l"]]
        return {"pts": pts, "scale": c.get("scale"), "c": _impl_ctx(c, tab)}
    raise ValueError(kind)


def _norm_model(kind, spec, m):
    """model output -> comparable form (decimals by value)"""
    if kind == "vec" and spec["inner"]["k"] == "dsum" and isinstance(m, dict):
        d = m["d"]
        row = d["made"] if isinstance(d, dict) else d
        row = [None if x is None else _norm_model("dsum", spec["inner"], x) for x in row]
        return dict(m, d={"made": row} if isinstance(d, dict) else row)
    if kind == "dsum":
        d = m["d"]
        r = dict(m, d=Fraction(d[0]) * Fraction(10) ** d[1])
        return r
    return m


def compare(case, res, replies):
    if any(op[0] == "fb" for op in case["ops"]):
        if "skipref" not in res and "init_err" not in res:
            return None                    # a non-number was accepted: judged by the oracle
        case, res = _nofb(case, res)       # the model sees the filled values: a fill that raised filled nothing
    sreqs = _spec_requests(case)
    nmain = len(replies) - len(sreqs)
    for m in replies[:nmain]:
        msg = _compare_one(case, res, m)
        if msg:
            return msg
    for req, rep in zip(sreqs, replies[nmain:]):
        msg = _spec_check(case, req, rep)
        if msg:
            return msg
    return None


def _compare_one(case, res, m):
    if "err" in m:
        return f"model driver error: {m['err']}"
    spec, sh = case["el"], case.get("sh", 0)
    kind = "count" if spec["k"] == "countrun" else spec["k"]
    if m.get("typed"):
        kind = "tsum"
    if "init_err" in res or "init_err" in m:
        if res.get("init_err") != m.get("init_err"):
            return f"construction: impl {res.get('init_err', 'ok')} vs model {m.get('init_err', 'ok')}"
        return None
    tab = _leaf_table(case)
    iobs, mobs = res["obs"], m["obs"]
    if len(iobs) != len(mobs):
        return f"{len(iobs)} observations vs {len(mobs)} of the model"
    for i, (a, b) in enumerate(zip(iobs, mobs)):
        op = case["ops"][i]
        if a == "r" or b == "r":
            if a != b:
                return f"op {i} {op}: impl {a} vs model {b}"
            continue
        if "run" in a or "run" in b or "rune" in a:
            if "run" not in a or "run" not in b or len(a["run"]) != len(b["run"]):
                return f"op {i} run: impl {a} vs model {b}"
            for y, z in zip(a["run"], b["run"]):
                try:
                    cy = _conv_out("item", spec, y, sh, tab, None)
                except _Mismatch as e:
                    return f"op {i} run: {e}"
                if cy != z:
                    return f"op {i} run: impl {cy} vs model {z}"
            continue
        if "fi" in a or "fi" in b or "fie" in a:
            if "fi" not in a or "fi" not in b or len(a["fi"]) != 1:
                return f"op {i} fill_into: impl {a} vs model {b}"
            try:
                cy = _conv_out("item", spec, a["fi"][0], sh, tab, None)
            except _Mismatch as e:
                return f"op {i} fill_into: {e}"
            if cy != b["fi"]:
                return f"op {i} fill_into: impl {cy} vs model {b['fi']}"
            continue
        if "f" in a or "f" in b:
            if a.get("f") != b.get("f") or set(a) != set(b):
                return f"op {i} {op}: impl {a} vs model {b}"
            continue
        if "ce" in a or "ce" in b:
            if a.get("ce") != b.get("ce"):
                return f"op {i} compute: impl {a} vs model {b}"
            continue
        if "re" in a:
            return f"op {i} reset raised {a}"
        ys, zs = a["c"], b["c"]
        if len(ys) != len(zs):
            return f"op {i} compute: impl yields {len(ys)} values {ys} vs model {zs}"
        nfill = 0
        for op2 in case["ops"][:i]:
            nfill = nfill + 1 if op2[0] == "f" else (0 if op2[0] == "r" else nfill)
        ns = None
        if kind == "vec":           # fills seen by every component since the last reset (a short vector fills a prefix)
            ns = [0] * 8
            for op2 in case["ops"][:i]:
                if op2[0] == "r":
                    ns = [0] * 8
                elif op2[0] == "f":
                    for j in range(min(len(op2[1]["d"]), 8)):
                        ns[j] += 1
        for yi, (y, z) in enumerate(zip(ys, zs)):
            if kind == "mean" and isinstance(z, dict):
                z = dict(z, __n=nfill, __idx=yi)
            if kind == "vec" and isinstance(z, dict):
                z = dict(z, __ns=ns)
            try:
                cy = _conv_out(kind, spec, y, sh, tab, z)
            except _Mismatch as e:
                return f"op {i} compute: {e} (impl {y}, model {z})"
            cz = _norm_model(kind, spec, z)
            if isinstance(cz, dict):
                cz = {kk: vv for kk, vv in cz.items() if kk not in ("__n", "__ns", "__idx")}
            if cy != cz:
                return f"op {i} compute: impl {cy} vs model {cz}"
    return None


# ----------------------------------------------------------------------------------------
# the direct oracle: the property's statement on the real code's observations



def _plain(e):
    """decimals by value, everything else as encoded: the form in which reset-vs-fresh observations are compared"""
    return e


def _by_value(e):
    """an encoded observation with every number replaced by its value (1, 1.0 and Decimal(1) are one observation)"""
    if isinstance(e, bool) or e is None or isinstance(e, str):
        return e
    if isinstance(e, int):
        return ["#", e, 1]
    if isinstance(e, dict):
        if "fl" in e and len(e) == 1:
            x = float.fromhex(e["fl"])
            if x != x or x in (float("inf"), float("-inf")):
                return ["#", repr(x)]
            f = Fraction(x)
            return ["#", f.numerator, f.denominator]
        if "dec" in e and len(e) == 1 and isinstance(e["dec"], list):
            f = Fraction(e["dec"][0], e["dec"][1])
            return ["#", f.numerator, f.denominator]
        return {k: _by_value(v) for k, v in e.items()}
    if isinstance(e, list):
        return [_by_value(x) for x in e]
    return e


def _expect_ctx(last_ctx):
    return {k: _enc(_dec_leaf(v)) for k, v in last_ctx.items()}


def _close(got, exact, rel):
    """|got - exact| <= rel (an absolute bound given as Fraction)"""
    return abs(Fraction(got) - exact) <= rel


def _agg_fail(spec, e, fills, start, zero):
    """Check one yielded list `e` (encoded outputs of one compute) of element `spec` against the aggregate documented
    for the filled values `fills` (list of case VALUEs).  `start`: Fraction initial total / int initial count.
    Returns a message or None.  Returns the special value "skip" when the statement makes no claim."""
    k = spec["k"]
    last = _ctx_of(fills[-1]) if fills else {}
    want_ctx = _expect_ctx(last)

    def rec_update(d, other):          # lena.context.update_recursively on encoded contexts
        for kk, vv in other.items():
            if isinstance(vv, dict) and "dict" in vv and isinstance(d.get(kk), dict) and "dict" in d[kk]:
                sub = {"dict": dict(d[kk]["dict"])}
                rec_update(sub["dict"], vv["dict"])
                d[kk] = sub
            else:
                d[kk] = vv

    def ctx_ok(c, extra=None):
        w = copy.deepcopy(want_ctx)
        if extra:
            rec_update(w, extra)
        return (c or {}) == w

    if k == "count":
        if len(e) != 1:
            return f"Count.compute yielded {len(e)} values"
        d, c = _split_pair(e[0])
        n = start + len(fills)
        if d != n:
            return f"Count yields {d} after {len(fills)} fills (initial count {start})"
        if not ctx_ok(c, {spec["name"]: n}):
            return f"Count yields context {c}; last filled context {want_ctx} + {{{spec['name']!r}: {n}}} expected"
        return None
    if k in ("sum", "dsum"):
        if len(e) != 1:
            return f"{k} compute yielded {len(e)} values"
        d, c = _split_pair(e[0])
        exact = start + sum((_frac(v["d"]) for v in fills), Fraction(0))
        try:
            got = _unnum(d)
        except (_Mismatch, OverflowError, ValueError) as ex:
            return f"{k} yields {d}: {ex}"
        slack = Fraction(0)
        if k == "sum":
            # "Python's sum": start + v1 + v2 + ...  It is the exact sum whenever no addition rounds (always for
            # ints, whatever their size); where a float addition rounds, rounding is outside the statement and any
            # summation within the forward error bound n * 2u * sum|v| of a float summation passes
            exact_l2r, mag = _sum_l2r(0 if zero else _num(spec["total0"]), [_num(v["d"]) for v in fills])
            if not exact_l2r:
                slack = len(fills) * Fraction(1, 2 ** 52) * mag
        if abs(got - exact) > slack:
            return (f"{'DSum' if k == 'dsum' else 'Sum'} yields {d} = {got}, the exact sum of the filled values is {exact}"
                    + (f" (allowed rounding error {float(slack)!r})" if slack else ""))
        if not ctx_ok(c):
            return f"{k} yields context {c}; the last filled context is {want_ctx}"
        return None
    if k == "mean" and spec["seq"] in ("count", "store", "storetag", "storenest"):
        # "If the sum_seq yields several values, they are all yielded, but only the first is divided by number of
        # events"; the context of each is the last filled context updated with its own
        n = len(fills)
        if n == 0:
            return "skip"
        if spec["seq"] == "count":
            sums = [(Fraction(n), {spec.get("cname", "count"): n})]
        elif spec["seq"] == "storetag":
            sums = [(_frac(v["d"]), {"v%d" % _num(v["d"]): 1}) for v in fills]
        elif spec["seq"] == "storenest":
            sums = [(_frac(v["d"]), {"n": {"dict": {"k%d" % _num(v["d"]): 1}}, "w": _num(v["d"])}) for v in fills]
        else:
            sums = [(_frac(v["d"]), {}) for v in fills]
        if len(e) != len(sums):
            return f"Mean.compute yielded {len(e)} values, its sum sequence yields {len(sums)}"
        for j, (y, (sv, sc)) in enumerate(zip(e, sums)):
            d, c = _split_pair(y)
            try:
                got = _unnum(d)
            except _Mismatch as ex:
                return str(ex)
            exact = sv / n if j == 0 else sv
            if not _close(got, exact, 4 * _ULP * abs(exact) if j == 0 else 0):
                return f"Mean yields {float(got)!r} as value {j}; {exact} expected (sum sequence value {sv}, count {n})"
            if not ctx_ok(c, sc):
                return f"Mean yields context {c} with value {j}; last filled context {want_ctx} + {sc} expected"
        return None
    if k == "mean":
        n = len(fills)
        if n == 0:
            return "skip"
        if len(e) != 1:
            return f"Mean.compute yielded {len(e)} values"
        d, c = _split_pair(e[0])
        exact = ((start or Fraction(0)) + sum((_frac(v["d"]) for v in fills), Fraction(0))) / n
        try:
            got = _unnum(d)
        except _Mismatch as ex:
            return str(ex)
        if not _close(got, exact, 4 * _ULP * abs(exact)):
            return f"Mean yields {float(got)!r}, sum/count of the filled values is {exact} = {float(exact)!r}"
        if not ctx_ok(c):
            return f"Mean yields context {c}; the last filled context is {want_ctx}"
        return None
    if k == "vmc":
        n = len(fills)
        if n == 0 or (spec["corrected"] and n == 1):
            return "skip"
        if len(e) != 1:
            return f"VarianceMeanCount.compute yielded {len(e)} values"
        d, c = _split_pair(e[0])
        if not (isinstance(d, dict) and "nt" in d and set(d["f"]) == {"variance", "mean", "count"}):
            return f"VarianceMeanCount yields {d}, not a variance_mean_count"
        xs = [_frac(v["d"]) for v in fills]
        mu = sum(xs, Fraction(0)) / n
        ssq = sum(((x - mu) ** 2 for x in xs), Fraction(0))
        var = ssq / (n - 1) if spec["corrected"] else ssq / n
        m2 = sum((x * x for x in xs), Fraction(0)) / n
        r = Fraction(n, n - 1) if spec["corrected"] else Fraction(1)
        a0, b0 = _vmc_starts(spec, zero)
        if a0 or b0:
            # "sum_sq and sum_ are FillCompute elements calculating the sums of squares and of values": sums that
            # were given a start yield start + sum, and the element computes its formula from what they yield
            mu = (b0 + sum(xs, Fraction(0))) / n
            m2 = (a0 + sum((x * x for x in xs), Fraction(0))) / n
            var = (m2 - mu * mu) * r
        bound = 16 * Fraction(1, 2 ** 53) * r * (abs(m2) + mu * mu)     # forward error bound of the two-sums formula
        f = d["f"]
        try:
            gv, gm = _unnum(f["variance"]), _unnum(f["mean"])
        except _Mismatch as ex:
            return str(ex)
        if f["count"] != n:
            return f"VarianceMeanCount yields count {f['count']} after {n} fills"
        if not _close(gm, mu, 4 * _ULP * abs(mu)):
            return f"VarianceMeanCount yields mean {float(gm)!r}, the mean of the filled values is {mu}"
        if not _close(gv, var, bound):
            return (f"VarianceMeanCount yields variance {float(gv)!r}, the {'sample' if spec['corrected'] else 'population'} "
                    f"variance of the filled values is {var} = {float(var)!r}")
        if not ctx_ok(c):
            return f"VarianceMeanCount yields context {c}; the last filled context is {want_ctx}"
        return None
    if k == "store":
        vals = [_enc(_value(spec, v)) for v in fills]
        if spec["group"]:
            if e != [{"l": vals}]:
                return f"StoreFilled yields {e}, the filled values are {vals}"
        elif e != vals:
            return f"StoreFilled yields {e}, the filled values are {vals}"
        return None
    if k == "groupby":
        groups = {}
        for v in fills:
            groups.setdefault(_ref_key(spec, _ctx_of(v)), []).append(_enc(_value(spec, v)))
        want = [{"l": g} for g in groups.values()]
        if e != want:
            return f"GroupBy{tuple(spec['args'])} yields {e}; the filled values grouped by key are {want}"
        return None
    if k == "hist":
        if len(e) != 1:
            return f"Histogram.compute yielded {len(e)} values"
        d, c = _split_pair(e[0])
        if not (isinstance(d, dict) and "hist" in d):
            return f"Histogram yields {d}, not a histogram"
        bins, n_out = _ref_hist(spec, fills)
        h = d["hist"]
        if _by_value(h["bins"]) != _by_value(_enc(bins)) or _by_value(h["n_out"]) != _by_value(n_out):
            return (f"Histogram yields bins {h['bins']} n_out_of_range {h['n_out']}; filling {[v['d'] for v in fills]} into "
                    f"edges {spec['edges']} gives bins {bins}, {n_out} out of range")
        if not ctx_ok(c):
            return f"Histogram yields context {c}; the last filled context is {want_ctx}"
        return None
    if k == "graph":
        if len(e) != 1:
            return f"Graph.compute yielded {len(e)} values"
        d, c = _split_pair(e[0])
        if not (isinstance(d, dict) and "graph" in d) or c is None:
            return f"Graph yields {e[0]}, not a (graph, context) pair"
        pts = [_data(spec, v["d"]) for v in fills]
        if not zero and spec.get("points0"):
            pts = [(_num(q[0]), _num(q[1])) for q in spec["points0"]] + pts
        if not zero and not fills and spec.get("context0"):
            want_ctx = _expect_ctx(spec["context0"])
        if spec["sort"]:
            pts = sorted(pts)
        if d["graph"]["pts"] != _enc(pts):
            return f"Graph holds points {d['graph']['pts']}, the filled points are {pts}"
        rest = {kk: vv for kk, vv in c.items() if kk not in ("scale", "dim")}
        want = {kk: vv for kk, vv in want_ctx.items() if kk not in ("scale", "dim")}
        if rest != want:
            return f"Graph yields context {c}; the last filled context is {want_ctx}"
        return None
    if k == "vec":
        dim = _vec_dim(spec)
        rows = []
        comps = []
        mul = spec.get("wrap") or 1
        for i in range(dim):       # what component i is filled with: the (preprocessed) bare coordinate
            comps.append([{"d": v["d"][i] if isinstance(v["d"][i], list) else _mknum(_num(v["d"][i]) * mul), "c": None}
                          for v in fills])
        # every component's own results, judged by the inner element's rule
        outs = []
        con = spec.get("construct")
        want_made = con == "variadic" or (con is not None and con == dim)
        for y in e:
            d, c = _split_pair(y)
            try:
                row, made = _vec_row(d)
            except _Mismatch as ex:
                return str(ex)
            if len(row) != dim:
                return f"Vectorize yields {d}, not {dim} components"
            if made != want_made:
                return (f"Vectorize(construct={con}) yields {d}: "
                        f"{'the constructed object' if want_made else 'a plain tuple'} expected for {dim} components")
            if not ctx_ok(c):
                return f"Vectorize yields context {c}; the last filled context is {want_ctx}"
            outs.append(row)
        for i in range(dim):
            col = [row[i] for row in outs]
            while col and col[-1] is None:
                col.pop()
            inner = _inner_spec_full(spec, i)
            istart = _start_of(inner, zero)
            msg = _agg_fail(inner, col, comps[i], istart, zero)
            if msg == "skip":
                continue
            if msg:
                return f"component {i}: {msg}"
        return None
    raise ValueError(k)


def _sum_l2r(start, xs):
    """(does start + x1 + x2 + ... evaluate without any rounding in Python arithmetic?, |start| + sum|x|)"""
    t, ok, mag = start, True, abs(Fraction(start))
    for x in xs:
        try:
            t2 = t + x
            if Fraction(t2) != Fraction(t) + Fraction(x):
                ok = False
        except (OverflowError, ValueError):
            ok, t2 = False, float(t) + float(x)
        t = t2
        mag += abs(Fraction(x))
    return ok, mag


def _sum_case_exact(spec, ops):
    """no addition of the history rounds (the model is exact: it predicts the implementation only then)"""
    t0, seg = _num(spec["total0"]), []
    for op in ops:
        if op[0] == "r":
            if not _sum_l2r(t0, seg)[0]:
                return False
            t0, seg = 0, []
        elif op[0] == "f":
            seg.append(_num(op[1]["d"]))
    return _sum_l2r(t0, seg)[0]


def _vec_dim(spec):
    if spec.get("het"):
        return len(spec["het"])
    if spec["list"]:
        return spec["nseq"]
    return max(spec["dim"], 1)


def _ref_hist(spec, fills):
    """independent reference: bins and number of out-of-range fills"""
    if spec.get("md"):
        edges = [[_frac(x) for x in ax] for ax in spec["edges"]]
        shape = [len(ax) - 1 for ax in edges]
        init = spec.get("make_bins") if spec.get("make_bins") is not None else spec.get("bins")

        def full(dims):
            iv = 0 if spec.get("iv") is None else spec["iv"]
            return [full(dims[1:]) for _ in range(dims[0])] if len(dims) > 1 else [iv] * dims[0]
        bins = full(shape) if init is None else copy.deepcopy(init)
        n_out = 0
        for v in fills:
            idx = [bisect.bisect_right(ax, _frac(x)) - 1 for x, ax in zip(v["d"], edges)]
            if all(0 <= i < n for i, n in zip(idx, shape)):
                cell = bins
                for i in idx[:-1]:
                    cell = cell[i]
                cell[idx[-1]] += 1
            else:
                n_out += 1
        return bins, n_out
    edges = [_frac(x) for x in spec["edges"]]
    init = spec.get("make_bins") if spec.get("make_bins") is not None else spec.get("bins")
    if init is None:
        bins = [0 if spec.get("iv") is None else spec["iv"]] * (len(edges) - 1)
    else:
        bins = list(init)
    n_out = 0
    for v in fills:
        i = bisect.bisect_right(edges, _frac(v["d"])) - 1
        if 0 <= i < len(bins):
            bins[i] += 1
        else:
            n_out += 1
    return bins, n_out


def _start_of(spec, zero):
    k = spec["k"]
    if k == "count":
        return 0 if zero else spec["count0"]
    if k in ("sum", "dsum"):
        return Fraction(0) if zero else _frac(spec["total0"])
    if k == "mean" and spec["seq"] == "sumt":
        return Fraction(0) if zero else _frac(spec["t0"])
    return None


def _norm_obs(o):
    """observations compared between the reset element and a fresh one: Decimals by value (already so in _enc)"""
    return o


def oracle(case, res):
    spec, ops = case["el"], case["ops"]
    bad = _init_oracle(spec, res)
    if bad or "init_err" in res:
        return bad
    obs = res["obs"]
    if spec["k"] == "countrun":
        bad = _oracle_countrun(spec, ops, obs)
        if bad:
            return bad
    if res.get("live"):
        return f"{res['live'][0]} (history {_show(ops)})"
    # 0. a fill that raised (its data is no number) filled nothing: the element shows what it shows for the history
    #    without these fills ("the aggregate of the filled values ... the context of the last filled value")
    if "skipref" in res:
        got = [o for op, o in zip(ops, obs) if op[0] != "fb"]
        ref = res["skipref"]
        if _by_value(got) != _by_value(ref):
            kept = [i for i, op in enumerate(ops) if op[0] != "fb"]
            j = next(jj for jj in range(len(ref)) if _by_value(got[jj]) != _by_value(ref[jj]))
            return (f"op {kept[j]} {_show([ops[kept[j]]])} gives {got[j]}; without the fills that raised (they filled "
                    f"nothing) a new element gives {ref[j]} (history {_show(ops)})")
    # 1. the documented aggregate, for every compute whose preceding fills (since construction / the last reset) all succeeded
    fills, zero, clean = [], False, True
    gscale = spec.get("scale0")            # Graph: the scale a newly constructed graph has
    if (spec.get("context0") or {}).get("scale") is not None:
        gscale = spec["context0"]["scale"]     # adopted by __init__ (a contradiction is a construction error)
    for i, (op, o) in enumerate(zip(ops, obs)):
        if op[0] == "fb":
            if o.get("f") is None:
                clean = False              # the element accepted the value: it is a filled value, no reference for it
            continue                       # it raised: nothing was filled
        if op[0] == "f":
            if o.get("f") is not None:
                if spec["k"] == "vec" and o["f"] == "Other:IndexError" and (
                        len(op[1]["d"]) < _vec_dim(spec) or any(
                            isinstance(x, list) and len(x) < max(spec["inner"].get("dim", 0), 1) for x in op[1]["d"])):
                    clean = False          # a data vector that is too short: no claim until the next reset
                    continue
                if spec["k"] == "groupby" and o["f"] == "LenaValueError" and _ref_key(spec, _ctx_of(op[1])) is None:
                    continue               # documented: the key could not be formatted; the value is not stored
                if spec["k"] == "hist" and spec.get("md") and o["f"] == "LenaValueError" and (
                        not isinstance(op[1]["d"], list) or len(op[1]["d"]) != len(spec["edges"])):
                    clean = False          # get_bin_on_value: "arg and edges must have the same length"
                    continue
                return f"op {i}: fill({op[1]}) raised {o['f']} (history {_show(ops[:i + 1])})"
            fills.append(op[1])
        elif op[0] in ("run", "fi"):
            continue
        elif op[0] == "r":
            if spec["k"] == "vmc" and not res.get("has_reset"):
                # "If they both can be reset, this object has also a reset() method".  An element without a reset
                # method is outside the quantifier (the call raised AttributeError, nothing happened); an element
                # that HAS one is inside it, whatever its sums are: reset() must then work and equal a new element
                if _vmc_resettable(spec):
                    return (f"op {i}: VarianceMeanCount has no reset method although both of its sums can be reset "
                            f"(history {_show(ops[:i + 1])})")
                continue
            if spec["k"] == "mean" and spec["seq"] in ("fcsum", "storetag", "storenest"):
                if o != {"re": "LenaAttributeError"}:      # "the sum element has no reset method"
                    return f"op {i}: reset() of Mean around a sum element without reset gives {o}, LenaAttributeError is documented"
                continue                                    # nothing was reset
            if o != "r":
                return f"op {i}: reset() raised {o} (history {_show(ops[:i + 1])})"
            fills, zero, clean = [], True, True
            gscale = spec.get("scale0")
        else:
            if not clean or spec["k"] == "countrun":
                continue
            exp_err = _expected_compute_error(spec, fills)
            if spec["k"] == "graph":
                cs = (_ctx_of(fills[-1]) if fills else ({} if zero else (spec.get("context0") or {}))).get("scale")
                if cs is not None and gscale is not None and gscale != cs:
                    exp_err = ["LenaRuntimeError"]     # documented: initialisation and context scale differ
                else:
                    if cs is not None:
                        gscale = cs
                    if len({len(f["d"][0]) if isinstance(f["d"][0], list) else 1 for f in fills}) > 1:
                        exp_err = ["LenaValueError"]   # "coordinates tuples must have same dimension"
            if "ce" in o:
                if exp_err is None or o["ce"] not in exp_err:
                    return (f"op {i}: compute() raised {o['ce']} after fills {[f['d'] for f in fills]} "
                            f"(history {_show(ops[:i + 1])})")
                continue
            if exp_err is not None and "" not in exp_err:
                return (f"op {i}: compute() yielded {o['c']} where {' or '.join(exp_err)} is documented "
                        f"(history {_show(ops[:i + 1])})")
            if exp_err is not None:
                continue
            msg = _agg_fail(spec, o["c"], fills, _start_of(spec, zero), zero)
            if not msg and spec["k"] == "graph":
                c = _split_pair(o["c"][0])[1]
                gdim = None if not fills else (len(fills[0]["d"][0]) if isinstance(fills[0]["d"][0], list) else 1)
                if not zero and spec.get("points0"):
                    gdim = 1
                if c.get("scale") != gscale or c.get("dim") != gdim:
                    msg = (f"Graph yields context {c}; scale {gscale} (initial or from the last filled context) and "
                           f"dim {gdim} expected")
            if msg and msg != "skip":
                return f"op {i}: {msg} (history {_show(ops[:i + 1])})"
    # 2. reset() equals a fresh element: the observations after each reset equal those of a new element
    for si, fobs in res.get("fresh", {}).items():
        i = int(si)
        got = obs[i + 1:]
        if _by_value(got) != _by_value(fobs):
            j = next(jj for jj in range(len(fobs)) if jj >= len(got) or _by_value(got[jj]) != _by_value(fobs[jj]))
            return (f"after reset() (op {i}) the element differs from a newly constructed one: op {i + 1 + j} "
                    f"{_show([ops[i + 1 + j]])} gives {got[j] if j < len(got) else None}, a fresh element gives {fobs[j]} "
                    f"(history {_show(ops)})")
    return None


def _oracle_countrun(spec, ops, obs):
    """Count driven by run(flow), fill, compute, reset: the counter counts every value that ran or was filled;
    run passes the values on unchanged, the last one with its context + {name: counter}"""
    count, last = spec["count0"], {}
    name = spec["name"]
    for i, (op, o) in enumerate(zip(ops, obs)):
        if op[0] == "run":
            vals = [_enc(_value(spec, v)) for v in op[1]]
            if "run" not in o or len(o["run"]) != len(vals):
                return f"op {i}: Count.run({[v['d'] for v in op[1]]}) gives {o}"
            if not vals:
                continue
            count += len(vals)
            if o["run"][:-1] != vals[:-1]:
                return f"op {i}: Count.run changed a value before the last one: {o['run']} for {vals}"
            d, c = _split_pair(o["run"][-1])
            want = dict(_expect_ctx(_ctx_of(op[1][-1])), **{name: count})
            if d != _enc(_data(spec, op[1][-1]["d"])) or c != want:
                return (f"op {i}: Count.run yields {o['run'][-1]} last; the last value with context {want} expected "
                        f"(history {_show(ops[:i + 1])})")
        elif op[0] == "fi":
            count += 1
            want = dict(_expect_ctx(_ctx_of(op[1])), **{name: count})
            if "fi" not in o or len(o["fi"]) != 1:
                return f"op {i}: Count.fill_into gives {o}"
            d, c = _split_pair(o["fi"][0])
            if d != _enc(_data(spec, op[1]["d"])) or c != want:
                return (f"op {i}: Count.fill_into hands on {o['fi'][0]}; the value with context {want} expected "
                        f"(history {_show(ops[:i + 1])})")
        elif op[0] == "f":
            if o.get("f") is not None:
                return f"op {i}: fill raised {o}"
            count += 1
            last = _ctx_of(op[1])
        elif op[0] == "r":
            count, last = 0, {}
        else:
            if "c" not in o or len(o["c"]) != 1:
                return f"op {i}: compute() gives {o}"
            d, c = _split_pair(o["c"][0])
            want = dict(_expect_ctx(last), **{name: count})
            if d != count or c != want:
                return (f"op {i}: Count yields {o['c'][0]}; {count} values ran through or were filled, context {want} "
                        f"expected (history {_show(ops[:i + 1])})")
    return None


def _show(ops):
    out = []
    for op in ops:
        if op[0] == "run":
            out.append(f"run({[v['d'] for v in op[1]]})")
        elif op[0] == "fi":
            out.append(f"fill_into(receiver, {op[1]['d']!r}{'' if op[1].get('c') is None else ', ' + repr(op[1]['c'])})")
        elif op[0] == "f":
            v = op[1]          # the context as it is written (insertion order included)
            out.append(f"fill({v['d']!r}{'' if v.get('c') is None else ', ' + repr(_ordered(v['c'], v.get('co', 0)))})")
        elif op[0] == "fb":
            out.append(f"fill({_bad_value(op[1])!r}) [raises]")
        else:
            out.append({"c": "compute()", "r": "reset()"}[op[0]])
    return "; ".join(out)


def _expected_compute_error(spec, fills):
    """None: compute must yield the aggregate.  A list: the documented alternatives ('' = yields nothing/anything)."""
    k = spec["k"]
    n = len(fills)
    if k == "mean" and n == 0:
        return [""] if spec["poe"] else ["LenaZeroDivisionError"]
    if k == "vmc":
        if n == 0:
            return [""] if spec["poe"] else ["LenaZeroDivisionError"]
        if n == 1 and spec["corrected"]:
            return ["LenaZeroDivisionError"]
    if k == "vec":
        if spec.get("het"):
            return None
        return _expected_compute_error(_inner_spec_full(spec, 0), fills)
    if k == "graph":
        # a scale in the flow that contradicts the scale of the graph is documented to be an error
        return None
    return None


def _init_oracle(spec, res):
    """construction errors that the documentation demands / forbids"""
    k = spec["k"]
    want = None
    if k == "hist":
        if spec.get("bins") is not None and spec.get("make_bins") is not None:
            want = "LenaTypeError"
        else:
            axes = spec["edges"] if spec.get("md") else [spec["edges"]]
            bad_edges = any(len(ax) < 2 or any(_frac(a) >= _frac(b) for a, b in zip(ax, ax[1:])) for ax in axes)
            init = spec.get("make_bins") if spec.get("make_bins") is not None else spec.get("bins")
            if bad_edges:
                want = "LenaValueError"
            elif init is not None and len(init) != len(axes[0]) - 1:
                want = "LenaValueError"
    elif k == "graph":
        c0 = (spec.get("context0") or {}).get("scale")
        if c0 is not None and spec["scale0"] is not None and c0 != spec["scale0"]:
            want = "LenaRuntimeError"   # "Initialization and context scale differ"
    elif k == "groupby":
        if any(not isinstance(a, (str, list)) for a in spec["args"]):
            want = "LenaTypeError"      # "group_by and merge should be strings or containers of strings"
    elif k == "vec":
        if spec["list"] and spec["dim"] is not None:
            want = "LenaTypeError"
        if not spec["list"] and spec["dim"] is None:
            want = "LenaTypeError"
        if not spec["list"] and spec["inner"]["k"] == "notfc":
            want = "LenaTypeError"      # "seq must be a FillCompute element or sequence"
    got = res.get("init_err")
    if got != want:
        return f"constructing {spec}: {got or 'no exception'}, documented: {want or 'no exception'}"
    return None


def nontrivial(case, res):
    if "init_err" in res:
        return True
    nf = sum(1 for op in case["ops"] if op[0] == "f")
    return nf >= 2 and any(isinstance(o, dict) and o.get("c") for o in res["obs"])


def classify(case, res):
    spec = case["el"]
    k = spec["k"]
    if k == "vec":
        k = "vec:" + spec["inner"]["k"] + (":FillComputeSeq" if spec.get("wrap") else "")
    if k == "mean":
        k = f"mean:{spec['seq']}"
    if k == "hist" and spec.get("md"):
        k = "hist:%dd" % len(spec["edges"])
    labels = [k]
    if spec.get("via"):
        labels.append("via:" + spec["via"])
    if spec.get("construct") is not None:
        labels.append("vec:construct")
    if "init_err" in res:
        labels.append("init:" + res["init_err"])
        return labels
    for o in res["obs"]:
        if isinstance(o, dict):
            if o.get("f"):
                labels.append("fill-error:" + o["f"])
            if "ce" in o:
                labels.append("compute-error:" + o["ce"])
    if any(op[0] == "r" for op in case["ops"]):
        labels.append("with-reset")
    if any(op[0] == "fb" for op in case["ops"]):
        labels.append("with-a-fill-that-raises")
    fl = [op[1] for op in case["ops"] if op[0] == "f"]
    if any(v.get("co") for v in fl):
        labels.append("context-key-order-varied")
    if spec["k"] == "hist" and case.get("sh", 0) > 30:
        labels.append("hist:coordinate-beside-an-edge")
    if spec["k"] in ("sum", "mean", "vmc") and any(isinstance(v["d"], int) and abs(v["d"]) > 2 ** 53 for v in fl):
        labels.append("integers-beyond-2**53")
    if spec["k"] == "sum" and not _sum_case_exact(spec, case["ops"]):
        labels.append("sum:float-additions-round")
    if spec["k"] == "vmc" and spec.get("sums") is not None:
        labels.append("vmc:explicit-sums" + ("" if _vmc_resettable(spec) else ":no-reset"))
    labels.append("len:%d" % min(len(case["ops"]), 12))
    return labels


def signature(case, failure):
    spec = case["el"]
    what = "reset-not-fresh" if "differs from a newly constructed one" in failure else (
        "construction" if failure.startswith("constructing") else (
            "failed-fill" if "without the fills that raised" in failure else "aggregate"))
    return f"{spec['k']}:{what}"


def shrink(case):
    ops = case["ops"]
    for i in range(len(ops)):
        yield dict(case, ops=ops[:i] + ops[i + 1:])
    for i, op in enumerate(ops):
        if op[0] == "run" and op[1]:
            for j in range(len(op[1])):
                yield dict(case, ops=ops[:i] + [["run", op[1][:j] + op[1][j + 1:]]] + ops[i + 1:])
        if op[0] == "f":
            v = op[1]
            if v.get("c"):
                for key in list(v["c"]):
                    c2 = {kk: vv for kk, vv in v["c"].items() if kk != key}
                    yield dict(case, ops=ops[:i] + [["f", dict(v, c=c2 or None)]] + ops[i + 1:])
            d = v["d"]
            if isinstance(d, list):
                for j, x in enumerate(d):
                    if x != 0 and x != 1:
                        for s in (0, 1):
                            yield dict(case, ops=ops[:i] + [["f", dict(v, d=d[:j] + [s] + d[j + 1:])]] + ops[i + 1:])
            elif d != 0 and d != 1:
                for s in (0, 1):
                    yield dict(case, ops=ops[:i] + [["f", dict(v, d=s)]] + ops[i + 1:])


# ----------------------------------------------------------------------------------------
# case generation

_CTXS = [None, {}, {"a": 1}, {"a": 2, "b": 3}, {"count": 7}, {"variable": {"name": "x"}, "a": 1}, {"scale": 5}, {"scale": 0},
         {"scale": 6, "g": 1}, {"g": 1, "m": 1}, {"g": 2, "m": 1}, {"g": 1, "m": 2}, {"b": None},
         {"variable": {"name": "x", "unit": "m"}, "g": 1, "m": 2}, {"variable": {"unit": "m", "name": "x"}, "a": 1},
         # keys are arbitrary strings: dots (a dotted KEY is one key, not a path), blanks, braces, the empty string; keys that
         # are the first component / the whole of a counter's name, bound to a leaf and to a nested dictionary
         {"events": 7, "detector": "D1"}, {"events": {"selected": 1, "all": 9}, "a": 1}, {"events.selected": 5, "events": 2},
         {"": 1, "a b": 2}, {"{x}": 3, "a.b": {"c.d": 1}, "a": {"b": 2}}, {"n": {"n": 1}, "count": {"count": 0}}]

# an element's *name* / key option is any string: the documented key is that string itself ({self.name: self.count}),
# whatever it contains - a dot does not make it a path, it may be empty, and it may be a key (of a leaf or of a
# nested dictionary) of the context it is added to
_NAMES = ["count", "n", "a", "events.selected", "events", "variable.name", "variable", "a.b", "a.b.c", "", "a b", "{x}", "{}",
          ".", "a.", ".a", "scale", "count.count", "n.n", "my_counter", "x.0", "0"]


def _rand_ctx(rng):
    r = rng.random()
    if r < 0.35:
        return None
    return copy.deepcopy(rng.choice(_CTXS))


def _rand_num(rng, sh, bits):
    """a multiple of 2**-sh, |m| < 2**bits, as int (if integral, sometimes) or float"""
    m = rng.randint(-(1 << bits), 1 << bits)
    if rng.random() < 0.25:
        m = rng.choice([0, 1, -1, 2, 3])
    if sh == 0 and rng.random() < 0.6:
        return m
    v = m / (1 << sh)
    assert Fraction(v) == Fraction(m, 1 << sh)
    return _mknum(float(v))


def _rand_float_any(rng):
    """floats of mixed magnitude for DSum"""
    r = rng.random()
    if r < 0.1:
        return rng.choice([0.0, -0.0, 1.0, -1.0, 0.1, 0.2, 0.3, 1e308, -1e308, 5e-324, -5e-324, 2.0 ** 53, 1e16, 1e-16,
                           2.2250738585072014e-308, 1.7976931348623157e308])
    if r < 0.25:
        return rng.randint(-10 ** 30, 10 ** 30) if rng.random() < 0.5 else rng.randint(-100, 100)
    e = rng.choice([rng.randint(-1074, 1023), rng.randint(-60, 60), rng.randint(-8, 8)])
    m = rng.random() + 1.0
    try:
        v = m * 2.0 ** e
    except OverflowError:
        v = 1e300
    return -v if rng.random() < 0.5 else v


def _rand_history(rng, mkval, maxlen, on_reset=None):
    """fill* (compute | reset | fill)*; `on_reset` tells a stateful value generator that a reset was appended"""
    n = rng.randint(0, maxlen)
    ops = []
    nf = rng.randint(0, min(4, n))
    for _ in range(nf):
        ops.append(["f", mkval()])
    while len(ops) < n:
        r = rng.random()
        if r < 0.55:
            ops.append(["f", mkval()])
        elif r < 0.8:
            ops.append(["c"])
        else:
            ops.append(["r"])
            if on_reset:
                on_reset()
    return ops


_BIG_INTS = [2 ** 53 + 1, 2 ** 53 + 3, -(2 ** 53) - 1, 2 ** 60 + 1, 2 ** 62 + 5, 2 ** 64 - 1, 10 ** 17 + 1, 10 ** 22 + 7, -(10 ** 25) - 3]


class _Typed:
    """Numbers for the elements that add with Python's `+` (Sum, Mean, VarianceMeanCount): between two resets either
    a *dyadic* stretch - ints and floats that are small multiples of 2**-sh, every partial sum exact in binary64 -
    or, as long as the running total is an int (after construction with an int start, after every reset), an *int*
    stretch of integers beyond 2**53, which only int arithmetic adds exactly.  A reset() that keeps anything of the
    earlier stretch (the float type of the total, a compensation term) shows in the stretch after it."""

    def __init__(self, rng, sh, bits, start_is_float, p_int=0.35):
        self.rng, self.sh, self.bits, self.p_int = rng, sh, bits, p_int
        self.mode = None
        self.float_total = start_is_float
        self.force_int = False

    def reset(self):
        self.mode, self.float_total, self.force_int = None, False, False

    def __call__(self):
        rng = self.rng
        if self.mode is None:
            self.mode = "int" if (self.force_int or (not self.float_total and rng.random() < self.p_int)) else "dyadic"
        if self.mode == "int":
            r = rng.random()
            if r < 0.5:
                return rng.choice(_BIG_INTS)
            if r < 0.8:
                return rng.randint(-10 ** 30, 10 ** 30)
            return rng.randint(-100, 100)
        x = _rand_num(rng, self.sh, rng.choice(self.bits))
        if isinstance(x, dict):
            self.float_total = True
        return x




def _all_histories(alphabet, maxlen):
    for n in range(0, maxlen + 1):
        for h in itertools.product(alphabet, repeat=n):
            yield [copy.deepcopy(o) for o in h]


def _specs_small():
    """(spec, sh, two fill values) for the exhaustive part"""
    v = lambda d, c=None, **kw: dict({"d": d, "c": c}, **kw)
    out = []
    out.append(({"k": "count", "name": "count", "count0": 0}, 0, [v(5, {"a": 1}), v(7)]))
    out.append(({"k": "count", "name": "n", "count0": 3}, 0, [v(5, {"n": 1}), v(7, {})]))
    # names that are not plain identifiers, and names that meet keys of the filled contexts: {name: count} is ONE key
    out.append(({"k": "count", "name": "events.selected", "count0": 0}, 0, [v(5, {"events": 7, "detector": "D1"}), v(7)]))
    out.append(({"k": "count", "name": "events.selected", "count0": 2}, 0,
                [v(5, {"events": {"selected": 1, "all": 9}}), v(7, {"events.selected": 5, "events": 2})]))
    out.append(({"k": "count", "name": "variable", "count0": 0}, 0, [v(5, {"variable": {"name": "x"}, "a": 1}), v(7, {"a": 1})]))
    out.append(({"k": "count", "name": "", "count0": 0}, 0, [v(5, {"": 1, "a b": 2}), v(7, {"a": 1})]))
    out.append(({"k": "count", "name": "a b {x}", "count0": 1}, 0, [v(5, {"{x}": 3}), v(7, {"a b {x}": None})]))
    out.append(({"k": "count", "name": "a.b.c", "count0": 0, "via": "fr"}, 0, [v(5, {"a": {"b": 2}}), v(7, {"a": {"b": {"c": 1}}})]))
    out.append(({"k": "sum", "total0": 0}, 0, [v(5, {"a": 1}), v(-7)]))
    out.append(({"k": "sum", "total0": _mknum(1.5)}, 1, [v(_mknum(0.5), {"a": 1}), v(2)]))
    out.append(({"k": "dsum", "total0": 0}, 0, [v(_mknum(0.1), {"a": 1}), v(_mknum(1e100))]))
    out.append(({"k": "dsum", "total0": 2}, 0, [v(_mknum(5e-324)), v(_mknum(-1e100), {"b": 2})]))
    out.append(({"k": "dsum", "total0": _mknum(0.1)}, 0, [v(_mknum(0.2)), v(_mknum(1e23), {"b": 2})]))
    for seq in (None, "sum", "dsum"):
        for poe in (False, True):
            out.append(({"k": "mean", "seq": seq, "poe": poe}, 0, [v(3, {"a": 1}), v(4)]))
    # Mean around other sum sequences: non-zero start, a first value with context, several values, no reset
    out.append(({"k": "mean", "seq": "sumt", "t0": 5, "poe": False}, 0, [v(3, {"a": 1}), v(4)]))
    out.append(({"k": "mean", "seq": "count", "poe": False}, 0, [v(3, {"a": 1}), v(4, {"count": 9})]))
    out.append(({"k": "mean", "seq": "count", "cname": "events.selected", "poe": False}, 0,
                [v(3, {"events": 7}), v(4, {"events": {"selected": 9}})]))
    out.append(({"k": "mean", "seq": "store", "poe": True}, 0, [v(3, {"a": 1}), v(4)]))
    out.append(({"k": "mean", "seq": "fcsum", "poe": False}, 0, [v(3, {"a": 1}), v(4)]))
    out.append(({"k": "mean", "seq": "storetag", "poe": False}, 0, [v(3, {"a": 1}), v(-4, {"v3": 7})]))
    out.append(({"k": "mean", "seq": "storenest", "poe": True}, 0, [v(3, {"n": {"z": 1}}), v(4, {"a": 1})]))
    for corr in (True, False):
        for poe in (False, True):
            out.append(({"k": "vmc", "corrected": corr, "poe": poe}, 0, [v(3, {"a": 1}), v(7)]))
    out.append(({"k": "vmc", "corrected": True, "poe": False, "explicit": True}, 0, [v(3, {"a": 1}), v(7)]))
    out.append(({"k": "vmc", "corrected": False, "poe": True, "sums": "fc"}, 0, [v(3, {"a": 1}), v(7)]))
    # explicit sums of which one, the other, both or none can be reset (the element has a reset method iff both can)
    out.append(({"k": "vmc", "corrected": False, "poe": False, "sums": ["sum", "fc"]}, 0, [v(3, {"a": 1}), v(7)]))
    out.append(({"k": "vmc", "corrected": True, "poe": True, "sums": ["fc", "fc"]}, 0, [v(3, {"a": 1}), v(7)]))
    out.append(({"k": "vmc", "corrected": False, "poe": True, "sums": ["none", "fc"]}, 0, [v(3, {"a": 1}), v(7)]))
    out.append(({"k": "vmc", "corrected": False, "poe": False, "sums": ["sum", "none"]}, 0, [v(3, {"a": 1}), v(7)]))
    out.append(({"k": "vmc", "corrected": False, "poe": True, "sums": [{"t0": 5}, {"t0": -2}]}, 0, [v(3, {"a": 1}), v(7)]))
    out.append(({"k": "vmc", "corrected": True, "poe": False, "sums": ["sum", {"t0": 4}]}, 0, [v(3, {"a": 1}), v(7)]))
    # numbers of both Python types around a reset: a float, then integers that only int arithmetic adds exactly
    out.append(({"k": "sum", "total0": 0}, 1, [v(_mknum(0.5), {"a": 1}), v(2 ** 60 + 1)]))
    out.append(({"k": "sum", "total0": _mknum(0.5)}, 1, [v(2 ** 53 + 1, {"a": 1}), v(-(2 ** 53) - 3)]))
    out.append(({"k": "mean", "seq": None, "poe": True}, 1, [v(_mknum(0.5), {"a": 1}), v(2 ** 60 + 1)]))
    out.append(({"k": "mean", "seq": "sum", "poe": False}, 1, [v(_mknum(1.5)), v(2 ** 62 + 5, {"a": 1})]))
    out.append(({"k": "vmc", "corrected": False, "poe": True}, 1, [v(_mknum(0.5), {"a": 1}), v(2 ** 53 + 1)]))
    # elements filled and reset through adapters
    out.append(({"k": "sum", "total0": 2, "via": "fr"}, 0, [v(5, {"a": 1}), v(-7)]))
    out.append(({"k": "count", "name": "count", "count0": 0, "via": "frseq"}, 0, [v(5, {"a": 1}), v(7)]))
    out.append(({"k": "mean", "seq": "sum", "poe": True, "via": "fc"}, 0, [v(3, {"a": 1}), v(4)]))
    out.append(({"k": "hist", "edges": [0, 1, 2], "bins": [3, 4], "via": "fr"}, 0, [v(0), v(-1, {"a": 1})]))
    out.append(({"k": "groupby", "args": ["g"]}, 0, [v(3, {"g": {"__set__": [1, 2]}}), v(4, {"g": 2, "m": 1})]))
    # a flow scale 0 is a scale; a graph built from points and a context (reset goes to the documented empty start)
    out.append(({"k": "graph", "scale0": None, "sort": True}, 0, [v([3, 1], {"scale": 0}), v([1, 2], {"scale": 4})]))
    out.append(({"k": "graph", "scale0": 0, "sort": False}, 0, [v([3, 1], {"scale": 0}), v([1, 2], {"scale": 4})]))
    out.append(({"k": "graph", "scale0": None, "sort": True, "points0": [[5, 1], [2, 2]], "context0": {"a": 1}}, 0,
                [v([3, 1], {"scale": 5}), v([1, 2])]))
    out.append(({"k": "graph", "scale0": None, "sort": False, "points0": [[5, 1]], "context0": {"scale": 3, "b": 2}}, 0,
                [v([3, 1], {"scale": 3}), v([1, 2], {"scale": 4})]))
    out.append(({"k": "groupby", "args": ["g"], "alias": True}, 0, [v(3, {"g": 1, "m": 1}), v(4, {"g": 2, "m": 1})]))
    out.append(({"k": "graph", "scale0": None, "sort": True}, 0, [v([[3, 1], 1], {"a": 1}), v([[1], 2])]))
    out.append(({"k": "graph", "scale0": None, "sort": False}, 0, [v([[3, 1], 1], {"a": 1}), v([[1, 0], 2])]))
    for grp in (True, False):
        out.append(({"k": "store", "group": grp}, 0, [v(3, {"a": 1}), v(4)]))
    out.append(({"k": "groupby", "args": []}, 0, [v(3, {"g": 1}), v(4)]))
    out.append(({"k": "groupby", "args": ["g"]}, 0, [v(3, {"g": 1, "m": 1}), v(4, {"g": 2, "m": 1})]))
    out.append(({"k": "groupby", "args": ["", "m"]}, 0, [v(3, {"g": 1, "m": 1}), v(4, {"g": 1, "m": 2})]))
    # one context written in two insertion orders is one key (top level and nested)
    out.append(({"k": "groupby", "args": [["g", "m"]]}, 0, [v(3, {"g": 1, "m": 2}), v(4, {"g": 1, "m": 2}, co=1)]))
    out.append(({"k": "groupby", "args": ["", "a"]}, 0, [v(3, {"g": 1, "m": 2, "a": 5}, co=2), v(4, {"g": 1, "m": 2})]))
    out.append(({"k": "groupby", "args": ["variable"]}, 0, [v(3, {"variable": {"name": "x", "unit": "m"}}),
                                                            v(4, {"variable": {"name": "x", "unit": "m"}, "a": 1}, co=1)]))
    out.append(({"k": "hist", "edges": [0, 1, 2]}, 0, [v(1, {"a": 1}), v(5)]))
    out.append(({"k": "hist", "edges": [0, 1, 2], "bins": [3, 4]}, 0, [v(0), v(-1, {"a": 1})]))
    out.append(({"k": "hist", "edges": [0, 1, 2], "make_bins": [1, 1]}, 0, [v(1), v(2, {"a": 1})]))
    out.append(({"k": "hist", "edges": [_mknum(0.5), 1, _mknum(2.5)], "iv": 2}, 1, [v(_mknum(0.5)), v(2, {"a": 1})]))
    # floats one ulp beside an inner edge: edges[i] <= x < edges[i+1] is a statement about ==, < and nothing looser
    out.append(({"k": "hist", "edges": [0, 1, 2, 3]}, 53, [v(_mknum(1.0 - 2.0 ** -53)), v(_mknum(2.0 + 2.0 ** -51), {"a": 1})]))
    out.append(({"k": "hist", "edges": [_mknum(-1.0), _mknum(0.5), 2]}, 60, [v(_mknum(0.5 - 2.0 ** -54), {"a": 1}),
                                                                           v(_mknum(2.0 - 2.0 ** -40))]))
    out.append(({"k": "hist", "md": True, "edges": [[0, 1, 2], [0, 1]]}, 0, [v([1, 0], {"a": 1}), v([0, 5])]))
    out.append(({"k": "hist", "md": True, "edges": [[0, 1, 2], [0, 1, 3]]}, 53,
                [v([_mknum(1.0 - 2.0 ** -53), _mknum(1.0 + 2.0 ** -52)], {"a": 1}), v([_mknum(2.0 - 2.0 ** -52), 0])]))
    out.append(({"k": "hist", "md": True, "edges": [[0, 1, 2], [0, 1, 3]], "bins": [[1, 2], [3, 4]]}, 0,
                [v([1, 2], {"a": 1}), v([0, 0])]))
    for sc in (None, 5):
        for srt in (True, False):
            out.append(({"k": "graph", "scale0": sc, "sort": srt}, 0, [v([3, 1], {"scale": 5}), v([1, 2], {"a": 1})]))
    out.append(({"k": "graph", "scale0": None, "sort": True}, 0, [v([3, 1], {"scale": 5}), v([1, 2], {"scale": 6})]))
    inners = [{"k": "sum", "total0": 0}, {"k": "count", "name": "count", "count0": 0},
              {"k": "mean", "seq": None, "poe": False}, {"k": "mean", "seq": "sum", "poe": True},
              {"k": "vmc", "corrected": True, "poe": False}, {"k": "store", "group": True},
              {"k": "store", "group": False}]
    for inner in inners:
        out.append(({"k": "vec", "inner": inner, "list": False, "dim": 2}, 0, [v([1, 2], {"a": 1}), v([3, 5])]))
    out.append(({"k": "vec", "inner": inners[0], "list": False, "dim": 2}, 0, [v([1], {"a": 1}), v([3, 5, 7])]))
    out.append(({"k": "vec", "inner": {"k": "count", "name": "events.selected", "count0": 0}, "list": False, "dim": 2}, 0,
                [v([1, 2], {"events": 7}), v([3, 5])]))
    # components that are FillComputeSeq-s (Vectorize reaches the accumulators through _fill_compute)
    out.append(({"k": "vec", "inner": inners[0], "list": False, "dim": 2, "wrap": 2}, 0, [v([1, 2], {"a": 1}), v([3, 5])]))
    out.append(({"k": "vec", "inner": inners[0], "list": False, "dim": 3, "wrap": 1}, 0, [v([1, 2, 4], {"a": 1}), v([3, 5, 6])]))
    out.append(({"k": "vec", "inner": inners[3], "list": False, "dim": 2, "wrap": 2}, 0, [v([1, 2], {"a": 1}), v([3, 5])]))
    out.append(({"k": "vec", "inner": inners[1], "list": False, "dim": 2, "wrap": 1}, 0, [v([1, 2], {"a": 1}), v([3, 5])]))
    out.append(({"k": "vec", "inner": inners[0], "list": True, "nseq": 2, "dim": None, "wrap": 2}, 0, [v([1, 2], {"a": 1}), v([3, 5])]))
    out.append(({"k": "vec", "inner": inners[5], "list": True, "nseq": 2, "dim": None, "wrap": 1}, 0, [v([1, 2], {"a": 1}), v([3])]))
    # a list of different components; a component whose fill can raise (a short inner vector); a negative dim
    out.append(({"k": "vec", "inner": inners[0], "list": True, "het": ["sum", "count"], "nseq": 2, "dim": None}, 0,
                [v([1, 2], {"a": 1}), v([3, 5])]))
    out.append(({"k": "vec", "inner": inners[0], "list": True, "het": ["count", "sum", "sum"], "nseq": 3, "dim": None,
                 "construct": "variadic"}, 0, [v([1, 2, 4], {"a": 1}), v([3, 5])]))
    # components that yield different numbers of values: "the longest output is yielded (the others are padded with None)"
    out.append(({"k": "vec", "inner": inners[0], "list": True, "het": ["sum", "store"], "nseq": 2, "dim": None}, 0,
                [v([1, 2], {"a": 1}), v([3, 5])]))
    out.append(({"k": "vec", "inner": inners[0], "list": True, "het": ["store", "count", "store"], "nseq": 3, "dim": None,
                 "construct": 3}, 0, [v([1, 2, 4], {"a": 1}), v([3, 5, 6])]))
    out.append(({"k": "vec", "inner": {"k": "vec2", "dim": 2}, "list": False, "dim": 2}, 0,
                [v([[1, 2], [3, 4]], {"a": 1}), v([[5, 6], [7]])]))
    out.append(({"k": "vec", "inner": inners[0], "list": False, "dim": -2}, 0, [v([1, 2], {"a": 1}), v([3])]))
    # construct: a callable for any number of components, a namedtuple of the right and of the wrong size
    for con in ("variadic", 2, 3):
        out.append(({"k": "vec", "inner": inners[0], "list": False, "dim": 2, "construct": con}, 0,
                    [v([1, 2], {"a": 1}), v([3, 5])]))
    out.append(({"k": "vec", "inner": {"k": "mean", "seq": "dsum", "poe": True}, "list": False, "dim": 2}, 0,
                [v([_mknum(0.1), _mknum(1e100)], {"a": 1}), v([_mknum(0.2), _mknum(-1e100)])]))
    out.append(({"k": "vec", "inner": {"k": "dsum", "total0": 0}, "list": False, "dim": 2, "construct": 2}, 0,
                [v([_mknum(0.1), _mknum(1e100)], {"a": 1}), v([_mknum(5e-324), 7])]))
    out.append(({"k": "vec", "inner": inners[2], "list": True, "nseq": 2, "dim": None}, 0, [v([1, 2], {"a": 1}), v([3])]))
    return out


def _init_cases():
    v = {"d": 1, "c": None}
    ops = [["f", v], ["c"]]
    cs = []
    for edges in ([], [1], [0, 0], [2, 1], [0, 1, 1], [0, 1, 2, 3]):
        cs.append({"el": {"k": "hist", "edges": edges}, "ops": ops, "sh": 0})
    for bins in ([1], [1, 2], [1, 2, 3], []):
        cs.append({"el": {"k": "hist", "edges": [0, 1, 2], "bins": bins}, "ops": ops, "sh": 0})
        cs.append({"el": {"k": "hist", "edges": [0, 1, 2], "make_bins": bins}, "ops": ops, "sh": 0})
    cs.append({"el": {"k": "hist", "edges": [0, 1, 2], "bins": [1, 2], "make_bins": [1, 2]}, "ops": ops, "sh": 0})
    v2 = {"d": [1, 0], "c": None}
    for bins in ([[1, 2]], [[1, 2], [3, 4]], [[1, 2], [3, 4], [5, 6]], []):
        cs.append({"el": {"k": "hist", "md": True, "edges": [[0, 1, 2], [0, 1, 3]], "bins": bins},
                   "ops": [["f", v2], ["c"], ["r"], ["c"]], "sh": 0})
    for edges in ([[0, 1, 2], [1]], [[0, 1, 2], [2, 1]], [[0, 1]], [[0, 1, 2], [0, 1], [0, 5]]):
        cs.append({"el": {"k": "hist", "md": True, "edges": edges}, "ops": [["f", v2], ["c"]], "sh": 0})
    for sc0, c0 in ((5, {"scale": 6}), (5, {"scale": 5}), (None, {"scale": 6}), (0, {"scale": 0})):
        cs.append({"el": {"k": "graph", "scale0": sc0, "sort": True, "points0": [[1, 1]], "context0": c0},
                   "ops": [["c"], ["r"], ["c"]], "sh": 0})
    for args in ([5], ["g", 7], [None]):
        cs.append({"el": {"k": "groupby", "args": args}, "ops": ops, "sh": 0})
    # one-dimensional edges given as a list of one axis, with initial bins (8d715e5), reset re-creating them
    v1 = {"d": [1], "c": {"a": 1}}
    for bins in ([3, 4], [3], []):
        for key in ("bins", "make_bins"):
            cs.append({"el": {"k": "hist", "md": True, "edges": [[0, 1, 2]], key: bins},
                       "ops": [["f", v1], ["c"], ["r"], ["c"], ["f", v1], ["c"]], "sh": 0})
    sm = {"k": "sum", "total0": 0}
    vv = {"d": [1, 2, 3], "c": None}
    for dim in (None, 0, 1, 2, 3):
        cs.append({"el": {"k": "vec", "inner": sm, "list": False, "dim": dim}, "ops": [["f", vv], ["c"]], "sh": 0})
        for nseq in (0, 1, 3):
            cs.append({"el": {"k": "vec", "inner": sm, "list": True, "nseq": nseq, "dim": dim},
                       "ops": [["f", vv], ["c"]], "sh": 0})
    cs.append({"el": {"k": "vec", "inner": {"k": "notfc"}, "list": False, "dim": 2}, "ops": [["f", vv], ["c"]], "sh": 0})
    for dim in (None, 1, 2):
        cs.append({"el": {"k": "vec", "inner": sm, "list": False, "dim": dim, "wrap": 2}, "ops": [["f", vv], ["c"]], "sh": 0})
        cs.append({"el": {"k": "vec", "inner": sm, "list": True, "nseq": 2, "dim": dim, "wrap": 1},
                   "ops": [["f", vv], ["r"], ["c"]], "sh": 0})
    return cs


def _need_sh(nums):
    """the smallest k such that every number is a multiple of 2**-k"""
    return max([0] + [Fraction(_num(x)).denominator.bit_length() - 1 for x in nums])


def _beside(rng, e):
    """a float within a few ulps or a relative 1e-9 .. 1e-13 of the edge e (not the edge itself), exactly representable"""
    import math
    e = float(e)
    r = rng.random()
    if e == 0.0:
        return rng.choice([-1, 1]) * 2.0 ** -rng.choice([40, 60, 80])
    if r < 0.4:
        x = math.nextafter(e, rng.choice([-math.inf, math.inf]))
        if rng.random() < 0.3:
            x = math.nextafter(x, x + (x - e))          # two ulps away
        return x
    if r < 0.7:
        return e + rng.choice([-1, 1]) * abs(e) * 2.0 ** -rng.choice([31, 34, 40, 45])
    return e + rng.choice([-1, 1]) * 2.0 ** -rng.choice([36, 40, 44])


def _rand_case(rng, maxlen):
    """a random case; contexts of two and more keys are written in varying insertion orders ("co")"""
    case = _rand_case0(rng, maxlen)

    def deep(c):
        return isinstance(c, dict) and (len(c) > 1 or any(deep(x) for x in c.values()))
    for op in case["ops"]:
        if op[0] == "f" and deep(op[1].get("c")) and rng.random() < 0.5:
            op[1]["co"] = rng.randint(1, 5)
    if case["el"]["k"] == "hist":
        spec = case["el"]
        nums = [x for ax in (spec["edges"] if spec.get("md") else [spec["edges"]]) for x in ax]
        for op in case["ops"]:
            if op[0] == "f":
                nums.extend(op[1]["d"] if isinstance(op[1]["d"], list) else [op[1]["d"]])
        case["sh"] = max(case["sh"], _need_sh(nums))
    return case


def _rand_case0(rng, maxlen):
    on_reset = None
    kind = rng.choice(["count", "sum", "sum", "dsum", "dsum", "mean", "mean", "vmc", "vmc", "store", "groupby",
                       "hist", "hist", "graph", "vec", "vec"])
    sh = rng.choice([0, 0, 1, 3, 10, 20])
    ctx = lambda: _rand_ctx(rng)
    if kind == "count":
        spec = {"k": "count", "name": rng.choice(_NAMES), "count0": rng.choice([0, 0, 3, -2])}
        mk = lambda: {"d": _rand_num(rng, sh, 30), "c": ctx()}
    elif kind == "sum":
        r = rng.random()
        if r < 0.12:          # floats of any magnitude: additions round, the oracle allows the forward error bound
            sh = 0
            spec = {"k": "sum", "total0": rng.choice([0, 0, _mknum(0.1), 3])}
            mk = lambda: {"d": _mknum(rng.choice([0.1, 0.2, 0.3, 1e16, -1e16, 1.0, 2.0 ** 53, 1e-3, rng.random(), 7,
                                                  rng.uniform(-1e6, 1e6), 2 ** 60 + 1])), "c": ctx()}
        else:
            big0 = r < 0.3
            spec = {"k": "sum", "total0": rng.choice([0, 10 ** 25, 2 ** 53 + 1]) if big0 else
                    rng.choice([0, 0, _rand_num(rng, sh, 44 - sh)])}
            typed = _Typed(rng, sh, [4, 20, 44 - sh], isinstance(spec["total0"], dict))
            typed.force_int = big0 and spec["total0"] != 0
            mk = lambda: {"d": typed(), "c": ctx()}
            on_reset = typed.reset
    elif kind == "dsum":
        sh = 0
        spec = {"k": "dsum", "total0": rng.choice([0, 0, 0, 7, _mknum(0.5), _mknum(0.1), _mknum(5e-324), _mknum(1e23),
                                                   _mknum(-2.5e-7), 10 ** 25])}
        pool = []

        def mk():
            if pool and rng.random() < 0.3:
                x = -_num(rng.choice(pool))          # cancellation
            else:
                x = _rand_float_any(rng)
            pool.append(_mknum(x))
            return {"d": _mknum(x), "c": ctx()}
    elif kind == "mean" and rng.random() < 0.3:
        sq = rng.choice(["sumt", "count", "store", "fcsum", "storetag", "storenest"])
        if sq in ("count", "storetag", "storenest"):
            sh = 0
        spec = {"k": "mean", "seq": sq, "poe": rng.random() < 0.4}
        if sq == "sumt":
            spec["t0"] = _rand_num(rng, sh, 20)
        if sq == "count" and rng.random() < 0.6:      # the sum sequence's own key is its name, any string
            spec["cname"] = rng.choice(_NAMES)
        if sq in ("storetag", "storenest"):
            mk = lambda: {"d": rng.randint(-9, 9), "c": rng.choice([None, {"a": 1}, {"n": {"z": 1}, "w": 0}, {"v3": 5}])}
        else:
            mk = lambda: {"d": _rand_num(rng, sh, rng.choice([4, 20])), "c": ctx()}
    elif kind == "mean":
        spec = {"k": "mean", "seq": rng.choice([None, "sum", "dsum"]), "poe": rng.random() < 0.4}
        if spec["seq"] == "dsum" and rng.random() < 0.6:
            sh = 0

            def mk():       # floats of mixed magnitude (no overflow / underflow of the mean)
                x = (rng.random() + 1.0) * 2.0 ** rng.choice([rng.randint(-200, 200), rng.randint(-8, 8)])
                x = -x if rng.random() < 0.5 else x
                return {"d": _mknum(x if rng.random() < 0.8 else rng.randint(-10 ** 20, 10 ** 20)), "c": ctx()}
        else:
            typed = _Typed(rng, sh, [4, 20, 40 - sh], False, p_int=0.2)
            mk = lambda: {"d": typed(), "c": ctx()}
            on_reset = typed.reset
    elif kind == "vmc":
        sh = min(sh, 10)
        spec = {"k": "vmc", "corrected": rng.random() < 0.6, "poe": rng.random() < 0.4}
        r = rng.random()
        if r < 0.25:
            spec["explicit"] = True
        elif r < 0.5:     # explicit sums, with and without a reset method, in both positions
            spec["sums"] = rng.choice([["sum", "fc"], ["fc", "sum"], ["fc", "fc"], ["sum", "none"], ["none", "sum"],
                                       ["none", "fc"], ["fc", "none"], ["sum", "sum"]])
            if rng.random() < 0.4:     # sums with a start (the start of sum_sq not negative: it is a sum of squares)
                sh = 0
                spec["sums"] = [rng.choice(["sum", {"t0": rng.choice([1, 5, 10 ** 4])}, "fc"]),
                                rng.choice(["none", {"t0": rng.choice([-3, 2, 7, 10 ** 3])}])]
        typed = _Typed(rng, sh, [3, 10, 22], False, p_int=0.15)
        mk = lambda: {"d": typed(), "c": ctx()}
        # an element without a reset method keeps its (possibly float) totals over a "reset" of the history
        on_reset = typed.reset if _vmc_resettable(spec) else None
    elif kind == "store":
        spec = {"k": "store", "group": rng.random() < 0.5}
        mk = lambda: {"d": _rand_num(rng, sh, 10), "c": ctx()}
    elif kind == "groupby":
        spec = {"k": "groupby", "args": rng.choice([[], ["g"], ["", "m"], [["g", "m"]], [["m", "g"]], ["", ["m", "a"]],
                                                    ["variable"], [["variable", "g"]], ["", "a"]])}
        if rng.random() < 0.15:
            spec["alias"] = True
        def mk():
            c = ctx()
            if rng.random() < 0.08:         # a context that cannot be rendered as a key
                c = {"g": {"__set__": [1, 2]}, "m": rng.randint(1, 2), "a": 1}
            return {"d": _rand_num(rng, sh, 10), "c": c}
    elif kind == "hist":
        if rng.random() < 0.2:
            sh = 0
            spec = {"k": "hist", "md": True, "edges": [[0, 1, 3, 4], [-1, 0, 2]]}
            r = rng.random()
            if r < 0.3:
                spec["bins"] = [[rng.randint(0, 3) for _ in range(2)] for _ in range(3)]
            elif r < 0.5:
                spec["make_bins"] = [[rng.randint(0, 3) for _ in range(2)] for _ in range(3)]
            elif r < 0.7:
                spec["iv"] = rng.randint(1, 3)
            if rng.random() < 0.3:       # three dimensions
                spec = {"k": "hist", "md": True, "edges": [[0, 1, 3], [-1, 0, 2], [0, 2]]}
                if rng.random() < 0.4:
                    spec[rng.choice(["bins", "make_bins"])] = [[[rng.randint(0, 2)] for _ in range(2)] for _ in range(2)]
            nd = len(spec["edges"])

            def mk():
                d = [rng.randint(-2, 5) for _ in range(nd)]
                for a in range(nd):
                    if rng.random() < 0.2:      # a float beside an edge of that axis
                        d[a] = _mknum(_beside(rng, rng.choice(spec["edges"][a])))
                r = rng.random()
                if r < 0.04:
                    d = d[:-1]              # a coordinate of the wrong dimension: LenaValueError
                elif r < 0.06:
                    d = d + [0]
                return {"d": d, "c": ctx()}
        else:
            n = rng.randint(1, 5)
            es = sorted(rng.sample(range(-8, 9), n + 1))        # the edges are es[i] / 2**sh

            def num_of(m):
                """m / 2**sh as a case number"""
                if sh == 0:
                    return m if rng.random() < 0.7 else _mknum(float(m))
                f = Fraction(m, 1 << sh)
                if f.denominator == 1 and rng.random() < 0.5:
                    return int(f)
                return _mknum(m / (1 << sh))
            spec = {"k": "hist", "edges": [num_of(e) for e in es]}
            r = rng.random()
            if r < 0.3:
                spec["bins"] = [rng.randint(-2, 5) for _ in range(n)]
            elif r < 0.5:
                spec["make_bins"] = [rng.randint(0, 5) for _ in range(n)]
            elif r < 0.7:
                spec["iv"] = rng.randint(-1, 3)

            def mk():
                r = rng.random()
                if r < 0.3:                 # a float a few ulps / a relative 1e-9 .. 1e-13 beside an edge
                    return {"d": _mknum(_beside(rng, _num(rng.choice(spec["edges"])))), "c": ctx()}
                if r < 0.7:                 # on an edge or one unit (2**-sh) beside it
                    m = rng.choice(es) + rng.choice([0, 0, -1, 1])
                else:
                    m = rng.randint(-12, 12)
                return {"d": num_of(m), "c": ctx()}
    elif kind == "graph":
        spec = {"k": "graph", "scale0": rng.choice([None, None, 5, 6, 0]), "sort": rng.random() < 0.6}
        if rng.random() < 0.25:
            spec["points0"] = [[_rand_num(rng, sh, 4), _rand_num(rng, sh, 4)] for _ in range(rng.randint(0, 3))]
            spec["context0"] = rng.choice([None, {"a": 1}, {"scale": 5}, {"scale": 0, "b": 2}])
        gd = 0 if spec.get("points0") else rng.choice([0, 0, 0, 1, 2])     # coordinates: numbers, or tuples of that length

        def mk():
            x = _rand_num(rng, sh, 4)
            if gd:
                n = gd if rng.random() < 0.9 else 3 - gd
                x = [_rand_num(rng, sh, 3) for _ in range(n)]
            return {"d": [x, _rand_num(rng, sh, 4)], "c": ctx()}
    else:
        inner = rng.choice([{"k": "sum", "total0": 0}, {"k": "sum", "total0": 0},
                            {"k": "count", "name": rng.choice(_NAMES), "count0": 0},
                            {"k": "mean", "seq": rng.choice([None, "sum", "dsum"]), "poe": rng.random() < 0.5},
                            {"k": "vmc", "corrected": rng.random() < 0.5, "poe": rng.random() < 0.5},
                            {"k": "store", "group": rng.random() < 0.5}])
        if inner["k"] == "vmc":
            sh = min(sh, 10)
        if rng.random() < 0.3:
            spec = {"k": "vec", "inner": inner, "list": True, "nseq": rng.randint(1, 3), "dim": None}
        else:
            spec = {"k": "vec", "inner": inner, "list": False, "dim": rng.randint(1, 3)}
        r0 = rng.random()
        if r0 < 0.08:
            spec = {"k": "vec", "inner": {"k": "sum", "total0": 0}, "list": True, "dim": None,
                    "het": [rng.choice(["sum", "count", "store"]) for _ in range(rng.randint(1, 3))]}
            spec["nseq"] = len(spec["het"])
        elif r0 < 0.14:
            spec = {"k": "vec", "inner": {"k": "vec2", "dim": rng.randint(1, 2)}, "list": False, "dim": rng.randint(1, 2)}
            idim, odim = spec["inner"]["dim"], spec["dim"]

            def mk():
                n = odim if rng.random() < 0.9 else rng.randint(0, odim + 1)
                return {"d": [[_rand_num(rng, sh, 6) for _ in range(idim if rng.random() < 0.85 else rng.randint(0, idim + 1))]
                              for _ in range(n)], "c": ctx()}
            return {"el": spec, "ops": _rand_history(rng, mk, maxlen), "sh": sh}
        elif rng.random() < 0.4:
            spec["wrap"] = rng.choice([1, 2, 2, 4])
        if rng.random() < 0.3:
            spec["construct"] = rng.choice(["variadic", 1, 2, 3])
        dim = _vec_dim(spec)
        if rng.random() < 0.12 and not spec.get("wrap") and not spec.get("het"):        # Decimal sums component-wise, floats of mixed magnitude
            sh = 0
            spec["inner"] = rng.choice([{"k": "dsum", "total0": 0}, {"k": "mean", "seq": "dsum", "poe": rng.random() < 0.5}])

            def mk():
                n = dim if rng.random() < 0.9 else rng.randint(0, dim + 1)
                xs = []
                for _ in range(n):
                    x = (rng.random() + 1.0) * 2.0 ** rng.choice([rng.randint(-200, 200), rng.randint(-8, 8)])
                    xs.append(_mknum(-x if rng.random() < 0.5 else x) if rng.random() < 0.8 else rng.randint(-10 ** 20, 10 ** 20))
                return {"d": xs, "c": ctx()}
            return {"el": spec, "ops": _rand_history(rng, mk, maxlen), "sh": sh}

        def mk():
            n = dim if rng.random() < 0.9 else rng.randint(0, dim + 1)
            return {"d": [_rand_num(rng, sh, rng.choice([3, 20])) for _ in range(n)], "c": ctx()}
    if spec["k"] in ("count", "sum", "dsum", "mean", "vmc", "store", "hist") and rng.random() < 0.15:
        spec["via"] = rng.choice(["fr", "frseq", "fc"])
    return {"el": spec, "ops": _rand_history(rng, mk, maxlen, on_reset), "sh": sh}


def _countrun_cases(quick):
    v = lambda d, c=None: {"d": d, "c": c}
    for spec in ({"k": "countrun", "name": "count", "count0": 0}, {"k": "countrun", "name": "n", "count0": 2},
                 {"k": "countrun", "name": "events.selected", "count0": 0}, {"k": "countrun", "name": "", "count0": 1}):
        alphabet = [["run", [v(1), v(2, {"a": 1})]], ["run", []], ["run", [v(3, {"n": 5})]], ["f", v(4, {"b": 1})],
                    ["fi", v(6, {"c": 1})], ["fi", v(7)], ["c"], ["r"]]
        if spec["name"] not in ("count", "n"):
            # the name meets keys of the values' contexts: its first component bound to a leaf / to a dictionary, itself
            alphabet = [["run", [v(1), v(2, {"events": 7, "a": 1})]], ["run", []], ["run", [v(3, {"events": {"selected": 5}})]],
                        ["f", v(4, {"events": 1, "": 0})], ["fi", v(6, {"events": 7, "": {"": 1}})],
                        ["fi", v(7, {"events.selected": 9})], ["c"], ["r"]]
        for h in _all_histories(alphabet, 3 if quick else 4):
            yield {"el": spec, "ops": h, "sh": 0}


def gen_cases(ctx):
    """a generator (cheap to enumerate lazily): construction cases, Count.run histories, every short history of every
    small configuration, then the seeded random histories"""
    rng = ctx.rng
    quick = ctx.tier == "quick"
    ctx.exhaustive = False
    yield from _init_cases()
    yield from _countrun_cases(quick)
    for spec, sh, (v1, v2) in _specs_small():
        alphabet = [["f", v1], ["f", v2], ["c"], ["r"]]
        big = spec["k"] in ("vec", "mean", "vmc")
        depth = (3 if big else 4) if quick else (4 if big else 5)
        for h in _all_histories(alphabet, depth):
            yield {"el": spec, "ops": h, "sh": sh}
    # histories with fills that raise (data that is no number) in the middle: every short one for every sum-like element
    for spec, sh, (v1, v2) in _specs_small():
        if not _fb_kind(spec) or spec.get("via"):
            continue
        alphabet = [["f", v1], ["fb", {"b": "str", "c": {"b": 9}}], ["c"], ["r"]]
        if not quick:
            alphabet.insert(2, ["fb", {"b": "none", "c": None}])
        for h in _all_histories(alphabet, 3 if quick else 4):
            if any(o[0] == "fb" for o in h):
                yield {"el": spec, "ops": h, "sh": sh}
    n = 12000 if quick else 170000
    for _ in range(n):
        case = _rand_case(rng, 12)
        if _fb_kind(case["el"]) and rng.random() < 0.3:
            for _i in range(rng.randint(1, 3)):
                case["ops"].insert(rng.randint(0, len(case["ops"])),
                                   ["fb", {"b": rng.choice(sorted(_BAD_DATA)), "c": copy.deepcopy(rng.choice(_CTXS[:6]))}])
        yield case


# ---- MANIFEST texts ------------------------------------------------------------------------
LEVEL_TEXT = ("Lean 4 theorems about transcribed state machines (init, fill, compute, reset) of Count (also run, fill_into), Sum, "
              "DSum, Mean, VarianceMeanCount, Vectorize, StoreFilled, GroupBy, Histogram (any dimension, on C06's model) and Graph, "
              "for all fill sequences and all histories (no bound): the documented aggregate after any history of fills and "
              "computes, and observational equality with a new element after reset.  The models are tied to /repo by a "
              "correspondence check over every history of up to 3-5 calls on 104 small configurations plus seeded random "
              "histories of up to 12 calls, and a direct oracle (exact Fraction arithmetic, fresh-element replay after every "
              "reset, yielded contexts and groups changed in place after every compute) on the real code.")
LEVEL_NOTE = ("Trusted: Lean kernel (+ propext, Classical.choice, Quot.sound), the hand transcription validated by the "
              "correspondence run on observable behaviour, decimal.Context.add as transcribed (the crux of DSum's exactness is "
              "this assumption, validated against the decimal module), exact instead of floating-point arithmetic, the JSON "
              "protocol.  For the elements whose reset assigns constants (Count, Sum, StoreFilled, GroupBy, VarianceMeanCount, "
              "Histogram, Graph) the Lean statement of sentence 2 is a transcription check (one rfl, listed in AUX_THEOREMS): "
              "forgotten attributes or aliasing with constructor arguments cannot be expressed in the value model, so the "
              "assurance for sentence 2 of these elements is the harness's replay on a new element after every reset; the "
              "reset theorems with content are those of DSum (precision kept), Mean (unused component), Vectorize (all "
              "components, by invariant / simulation / per-component home state), Mean around any sum sequence, "
              "VarianceMeanCount around any two sum elements (both must be reset; counterexample for one) and Sum over "
              "numbers with their Python type (the type of the total is forgotten; counterexample for a type-keeping reset).")
TECHNIQUE = "Lean 4 proof over hand-written model + correspondence check over enumerated and sampled histories"
DESIGN_REF = "DESIGN.md section 3, C09"
