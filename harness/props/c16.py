"""C16 — FillRequest processes the flow in consecutive blocks, however it is driven.

Real code: lena.core.FillRequest (__init__, fill, request, run = _run_fill_compute | _run_run),
lena.core.FillRequestSeq, the fill/request branch of lena.core.Split.run.
Model: lean/LenaModel/Model/C16.lean, theorems lean/LenaModel/Props/C16.lean.
"""
import itertools
import os
import sys
import time
import types

from harness.common import exc_name

PID = "C16"
TITLE = "FillRequest processes the flow in consecutive blocks, however it is driven"
LEAN_MODULES = ["LenaModel.Props.C16", "LenaModel.Props.C16X", "LenaModel.Props.C16P", "LenaModel.Props.C16S",
                "LenaModel.Props.C16Q"]
LEAN_SOURCES = ["LenaModel/Model/C16.lean", "LenaModel/Model/C16Spec.lean", "LenaModel/Model/C16X.lean",
                "LenaModel/Model/C16P.lean", "LenaModel/Model/C16S.lean", "LenaModel/Lemmas/C16.lean", "LenaModel/Lemmas/C16Run.lean",
                "LenaModel/Lemmas/C16Acc.lean", "LenaModel/Lemmas/C16Yor.lean", "LenaModel/Lemmas/C16X.lean",
                "LenaModel/Props/C16.lean", "LenaModel/Props/C16X.lean", "LenaModel/Props/C16P.lean",
                "LenaModel/Props/C16S.lean", "LenaModel/Model/C16Q.lean", "LenaModel/Props/C16Q.lean"]
DRIVER = "drivers/C16.lean"
# the theorems that carry the property (clauses of the statement, the proved parts `_partial` of clauses that are false
# at full strength together with the proved negations of the full clauses, and the statements about the dimensions the
# review asked for: raising elements, partial reading, reset() in a history)
THEOREMS = [
    # run yields block by block ...; final partial block iff yield_on_remainder; nothing for an empty flow
    "Lena.C16.run_blocks",
    "Lena.C16.run_blocks_init",
    "Lena.C16.run_blocks_fresh",
    "Lena.C16.run_empty",
    "Lena.C16.seq_run_blocks",
    # ... for ANY wrapped element: Run elements that do not read their whole block (notes/C16_defect_1)
    "Lena.C16.run_blocks_after_patch",
    # "yields block by block": WHEN the results appear (events of run: values read / results yielded, Model/C16S.lean)
    "Lena.C16.run_events_blockwise",
    "Lena.C16.run_events_outs",
    "Lena.C16.run_events_reads",
    "Lena.C16.run_streams",
    "Lena.C16.not_streams_allThenYield",
    # through fill() with request() at arbitrary points: accounted once, equal to run (yield_on_remainder off)
    "Lena.C16.schedule_independent",
    "Lena.C16.schedule_independent_init",
    "Lena.C16.not_schedule_independent_full",
    "Lena.C16.split_equals_run",
    "Lena.C16.accounted_once",
    "Lena.C16.accounted_once_recorded",
    "Lena.C16.schedule_yor",
    # ... on a FillRequestSeq object driven through its own fill()/request(), whatever its own bufsize/reset/flags
    # (Model/C16Q.lean; seeded change C16-G)
    "Lena.C16.seq_ops_eq_inner",
    "Lena.C16.seq_ops_outer_irrelevant",
    "Lena.C16.seq_schedule_independent",
    "Lena.C16.seq_accounted_once",
    "Lena.C16.seq_buffers_bounded",
    # at most one block of buffered values or results
    "Lena.C16.buffers_bounded_partial",
    "Lena.C16.buffers_bounded_between_partial",
    "Lena.C16.not_buffers_one_block_full",
    # wrapped elements that raise LenaStopFill; FillRequest.reset() inside a history
    "Lena.C16.split_stop_prefix",
    "Lena.C16.run_stop_prefix",
    "Lena.C16.split_bo_never_raises",
    "Lena.C16.request_raises_only_buffered",
    "Lena.C16.reset_mid_block",
    "Lena.C16.reset_keeps_boundaries",
]
# supporting theorems: audited like the others, not counted as obligations of the property — constructor contract (three
# transcriptions of one docstring), model-internal glue between definitions, closed witnesses, facts that are true by
# construction of the model, statements about the adapter variant that keeps generator objects (not code of /repo)
AUX_THEOREMS = [
    # glue: the adapter's histories are the generic histories on the adapter seen as an element; closed witness: a
    # FillRequestSeq.request() that resets (the "todo: add reset here" as seeded change C16-G implements it) loses values
    "Lena.C16.runOps_eq_runOpsEl",
    "Lena.C16.reset_after_request_loses",
    # reading the whole flow first yields the same results (so run_streams is not implied by run_blocks); instance of
    # run_streams in the form the negation is stated in
    "Lena.C16.allThenYield_same_results",
    "Lena.C16.streams_runFREv",
    # about `_run_run` as it was before fix dbe92ef (pinned transcription `runRunP`): the clause was false, and what held
    "Lena.C16.not_run_blocks_full",
    "Lena.C16.run_blocks_partial",
    "Lena.C16.run_blocks_buffer_input",
    "Lena.C16.init_bufsize_pos",
    "Lena.C16.init_accepts_iff",
    "Lena.C16.init_accepts_iff_contract",
    "Lena.C16.request_idempotent",
    "Lena.C16.traceOps_requests",
    "Lena.C16.traceOps_sizes",
    "Lena.C16.invOps_holds",
    "Lena.C16.x_conservative",
    "Lena.C16.runFillComputeX_ofEl",
    "Lena.C16.stopfill_escapes_buffer_input",
    "Lena.C16.reset_only_element",
    "Lena.C16.atCall_keeps_no_generator",
    "Lena.C16.atRequest_reports_present",
    "Lena.C16.eager_evaluation_required",
]
TRUSTED = [
    "Lean 4.33.0 kernel; axioms limited to propext, Classical.choice, Quot.sound (audited by #print axioms on every run)",
    "hand transcription of FillRequest.__init__/fill/request/reset/_run_fill_compute/_run_run (the three variants also for "
    "a Run element that reads only part of its block; the four loops also as event streams 'value read' / 'result yielded', "
    "Model/C16S.lean), FillRequestSeq.__init__/fill/request/reset/run around a raw element or an adapter (Model/C16Q.lean) "
    "and the SCHEDULE of fill/request calls "
    "that Split.run makes on one fill/request branch (not a transcription of Split.run: that is C03's, linked on the model "
    "side by LenaModel/Bridge/Split) into LenaModel/Model/C16.lean, C16X.lean, C16P.lean, validated by this correspondence "
    "check on the generated cases only (quick: every request schedule of flows up to length 6, histories up to length 3, "
    "random combinations of the other dimensions; thorough: lengths 8 / 5 and more samples; the committed evidence file is "
    "the last run, usually a quick one)",
    "the specification side of the theorems (specBlocks/chunks, emitAll over segments, runFillCompute on the filled values, "
    "invOps, initContract, the recording element, specBlocksP, specTags) is evaluated by the driver on the same cases and compared with "
    "the real code / Python references (missing fields are a harness error); not executed: the existential witness of "
    "accounted_once for an abstract element (only its recording-element instance)",
    "initContract, mkFillRequest and the Python ref_init are three readings of one docstring by the same author",
    "itertools.islice / itertools.chain semantics on iterators, and Python generator objects (body runs when iterated), as "
    "transcribed (validated likewise; the adapter that keeps generator objects against the real FillRequest around an element that hands out its generator objects)",
    "JSON line protocol encoders (harness/props/c16.py, drivers/C16.lean)",
]
ASSUMPTIONS = [
    "the flow handed to run is an iterator (as Sequence.run guarantees via flow_to_iter); a list would be re-read by islice",
    "the generators request()/run() of the ADAPTER are consumed to the end before the next call (as Split.run and "
    "FillRequest.run do): a caller that abandons request() half-way leaves _buffer_out already emptied and _n_count not yet "
    "zeroed — outside the statement ('called at arbitrary points', not 'abandoned'); generator objects of the wrapped "
    "ELEMENT are modelled (Model/C16X.lean)",
    "VALUE SEMANTICS OF RESULTS (judgement, notes/C16_judgement_1.md): what the wrapped element yields is not changed by its "
    "later fill/reset. An element that yields its live state and resets it in place (review F2) has no stable results: "
    "buffer_output keeps references, so Split(bufsize=7) around bufsize=3 shows [[6],[6]] where run shows [[0,1,2],[3,4,5]] "
    "to a consumer that copies at once. Judged outside the statement (results are compared as values; any consumer that "
    "stores them — list(), Split's own buffer — sees the same); such elements are generated for run and for buffer_input "
    "(where the statement still holds, results snapshotted when yielded), not for buffer_output under fill/request",
    "the only exception a wrapped element raises is LenaStopFill from fill (modelled in Model/C16X.lean); an exception from "
    "el.request() in the middle of its results is not modelled",
    "a Run element may read only part of its block (Model/C16P.lean transcribes _run_run as fixed by dbe92ef, "
    "notes/C16_defect_1.md; the transcription of the code before the fix is kept, pinned, for the counterexamples)",
    "the state the property anchors in _n_count / _buffer_in / _buffer_out ('fills since the element was last emptied', "
    "'values or results held past a full block') is OBSERVED THROUGH THE PUBLIC INTERFACE (class _Watch): the wrapped "
    "element is the harness's own and counts the fills it is offered, those it accepted since its request/compute was last "
    "called and the results it yielded; the harness counts the values it hands to the adapter and the results that come "
    "out: count = accepted fills since the element's last request, held values = handed in - offered, held results = "
    "yielded by the element - come out (for a FillRequestSeq: counted at the harness's own elements before / after the "
    "adapter). These numbers are what the trace compared with the model holds and what the oracle's clauses 'accounted "
    "exactly once' / 'at most one block buffered' are evaluated on. The private attributes themselves are read only "
    "defensively (getattr with default; a missing name, e.g. after a consistent rename, skips that observation): whether "
    "they could be read and agreed with the public observation is recorded per case in the histogram (labels "
    "anchors:...:equal / absent / differ, split:types-anchor:...) and is never a failure. The harness calls no private "
    "method and reads no other private attribute of a lena object; the generator-keeping reference adapter is the real "
    "FillRequest around an element whose request returns [generator object], driven by a caller that iterates each "
    "object before asking for the next",
    "a request() that ends with LenaStopFill (buffer_input, raising element) gives up the values it had taken from its "
    "buffer and not yet offered to the element: the observation counts them as no longer held from that moment (as the "
    "model does); an implementation that offered them later would show a negative number of held values",
    "a mutable wrapped element is a state threaded through fill/request/reset/run; flow values are opaque to the adapter "
    "(generated: None, equal values, (data, context) pairs, strings, floats) and to the model (codes)",
    "'every call returns in finite time' is NOT a theorem: every Lean definition is total, so totality says only that the "
    "transcribed loops end given that the element's methods return and results are finite lists (the hanging pre-fix fill "
    "could not even be written down in the model); evidence for the real code is the step watchdog (3 000 000 executed lines "
    "of lena code, sys.monitoring) and the wall-clock watchdog on every generated case — sampling, not proof",
    "Split means: one fill/request branch under test, alone or with other branches before and after it (Source, Sequence, "
    "fill/compute, another FillRequest, branches that raise LenaStopFill and are removed by Split in the middle of the flow), "
    "copy_buf on or off; the branch given as adapter, 1-tuple, FillRequestSeq, or (f, adapter, g); or the fill/request "
    "branches inside an inner Split that is the only branch of the outer one (driven through Split.fill / Split.request). "
    "The model does not contain the siblings (Bridge/Split: c16_splitFR_any_siblings): they must not matter",
    "'run yields block by block' / 'processes the flow in consecutive blocks' / 'at most one block of buffered values or "
    "results' is read as a statement about WHEN run yields, too (adversary candidates 4 and 9: a run that reads the whole flow "
    "first, or keeps the results of all blocks, yields the same list, nothing before the flow ends, and never on an endless "
    "flow): the oracle demands that when a result of block b is yielded, no more than the blocks 0..b and one further block "
    "(look-ahead of a rewrite) have been taken from the flow; the correspondence compares the exact moment with the event "
    "model (upper bound for a Run element under yield_on_remainder, which may yield while it reads). The flow handed to run "
    "is an iterator that counts what is taken from it. Not applied to Split (which reads its own blocks ahead: C03)",
    "with yield_on_remainder __init__ does not check the buffer flags: adapters created with none or both are in the scope "
    "(generated for run, fill/request, Split and histories); they work in buffer_output resp. buffer_input mode",
    "flows of 1050..2400 values (a thousand blocks and more, beyond Split's default block, the interpreter's recursion limit "
    "and plausible buffer limits) are generated in both tiers, a few of each call form; longer ones are not",
    "a FillRequestSeq driven through its own fill()/request() (op seqops; seeded change C16-G): the FillRequest that is "
    "filled and requested is the adapter the sequence CONTAINS, so the fill/request sentence is evaluated with that adapter's "
    "block size / reset / flags, on what the preceding elements make of the values and through the following elements — for "
    "every value of the sequence's own bufsize / reset / buffer flags / yield_on_remainder (which configure only its run; "
    "split.py:45: 'Split never calls run of this sequence, so its own block size is unimportant'); 'run on the whole flow' "
    "is the Python block reference and the run of a fresh identical adapter, and also the run of a fresh identical sequence "
    "when its own block size and reset agree with the adapter's (otherwise that run is another function: it requests only "
    "after its own blocks and resets the element at its own block ends). A sequence around a RAW fill/request element has "
    "no FillRequest on its fill/request path (no block size to speak of): compared with the model only. run() before the "
    "history on the same object: compared with the model only. The sequence's reset=True is generated only around elements "
    "that have a reset method (otherwise run() ends in TypeError: FillRequest.reset is None — a reset that was asked for "
    "and cannot be done; observed, outside the statement)",
    "judged outside the statement (adversary round): candidate 1 is invalid (test-suite fails); candidate 2 (the same change "
    "as seed C16-G) was judged invalid because its demo drove a sequence around a raw element — it is now reported with a "
    "failing input through sequences around an adapter; mutants "
    "that change the default Split bufsize, Cache detection, __repr__/__eq__/context handling or an unused attribute "
    "(FillRequestSeq._reset) do not touch the statement; Split going on filling a branch after LenaStopFill (mutant "
    "split.py:400 break->continue) concerns raising elements, about which the statement is silent — the correspondence "
    "reports it (no oracle reference for an element that stores a value and then refuses it)",
    "deep copies (seed C16-K, judged inside the statement: a copy.deepcopy of an adapter / FillRequestSeq is an adapter / "
    "sequence of the quantifier's configurations, and lena makes such copies itself — SplitIntoBins, MapBins): the copy "
    "is driven (run, two runs, fill/request history; copied fresh or after a first run) and judged by the sentences like "
    "any object; in addition its element, not the original's, must be the one that is called, and the original run "
    "afterwards yields its own blocks.  The test element's methods are bound methods and the element defines "
    "__deepcopy__ (an element built the same way with a deep copy of the state), as an instance of an ordinary class "
    "would behave.  The Lean model has values, not objects: a deep copy is the same state value, so the copy cases "
    "use the existing driver ops unchanged (no new theorem: sharing between objects cannot be expressed in the model); "
    "deep copies of a FillRequestSeq driven by fill/request (`seqops`) and of Split are not generated",
]
RULE = ("thorough, exhaustive: FillRequest.__init__ for every subset of {run,fill,request,compute,reset} x reset in "
        "{None,True,False} x buffer_input,buffer_output in {None,True,False}^2 x yield_on_remainder x bufsize in {-1,0,1,3}; "
        "run for wrapped kinds run/map-run/fill-compute/fill-request/fill-request+compute/run+fill-request/FillRequestSeq "
        "(elements before/after: none, functions, Run elements yielding 0..2 values per value) x 1-2 results x state-changing "
        "request x bufsize 1..5 x buffer mode x reset x yield_on_remainder x flows 0..8; "
        "fill/request: EVERY subset of request points (before each fill, closing request always) of flows 0..8 for kinds "
        "fill-compute/fill-request/run+fill-request x bufsize 1..5 x buffer_input/buffer_output x reset x "
        "yield_on_remainder (1-result element; 2 results / state-changing request: flows 0..7, length 8 sampled); Split bufsize in {1..9,1000,None} around a FillRequest "
        "branch given as element / tuple / FillRequestSeq, flows 0..8; every history over {fill, request(), reset()} of length "
        "<= 5 x bufsize 1..4 x modes x flags x {never raising, LenaStopFill from value 2 on (stored or not), from value 4 on}; "
        "Split (bufsize 1..5,7,None) and _run_fill_compute around an element that stops at value 1/3/5, flows 0..8; plus "
        "seeded random: 60000 schedules for flows 9..40, 20000 histories of length 4..14 with reset()/LenaStopFill, 20000 "
        "histories on the adapter that keeps generator objects (Python reference) against Eval.atRequest of the model. "
        "quick (<= 60 s): __init__ with buffer flags in {None,True}^2; run for all flows 0..8 (1-result "
        "element) and lengths 0,4,7,8 (variants); every subset of request points for flows 0..6 (1-result element) plus "
        "9000 seeded samples of the rest of the thorough fill/request scope; histories of length <= 3 exhaustively + 6000 "
        "random longer ones + 3000 on the generator-keeping adapter; Split for all flows 0..8 as element and lengths "
        "0,3,5,7,8 as tuple / FillRequestSeq (1-result, yield_on_remainder off), lengths 0,5,8 as element otherwise; 15% of the Split/LenaStopFill cases. "
        "Both tiers start with: __init__ with non-bool flags / float and fractional bufsize / a non-callable run attribute; "
        "300 (600) long flows (20..48 values: run, few or no requests, Split block sizes 18..1000/None); 15 (45) very long "
        "flows (1050..2400 values, a thousand blocks and more: run for every loop, one closing request, Split with "
        "bufsize None/1500/4096; fixed combinations of call form, kind and buffer mode); Split with one other branch before or "
        "after the branch under test (Source, Sequence, fill/compute, FillRequest, branches stopping at once / after 3 values) "
        "x bufsize 2,3 x modes x Split bufsize 1,2,3,5,None x flows 0,4,7, and 2500 (12000) random sibling combinations "
        "(0..2 before, 0..2 after, copy_buf, or nested in an inner Split); with yield_on_remainder and no / both buffer "
        "flags: every request schedule of flows 0..5 (0..7) and Split around them; 9000 (40000) random "
        "combinations of: flow values from {None, 0, 7, (1, {'c': 1}), 'x', 2.5} with repetitions, result count depending on "
        "the element state (zero results for some blocks), methods named by the fill=/request=/reset_name= keywords (with "
        "decoys under the default names), float bufsize and truthy non-bool flags, results that are the element's live state "
        "(not with buffer_output under fill/request), a second flow on the same adapter / Split object, run after a "
        "fill/request history, (f, adapter, g) branches, a Sequence sibling that changes its copy of the block and a "
        "FillCompute sibling with copy_buf on/off; Run elements that read 0..3 values of their block. "
        "FillRequestSeq objects driven through their own fill()/request() (both tiers): around a FillRequest adapter of "
        "kind fill-request / fill-compute / run+fill-request x adapter bufsize 1..3 (thorough 1..4) x buffer mode x reset x "
        "yield_on_remainder x elements before/after (none, functions, Run elements yielding 0..2 values per value; quick: "
        "only none with yield_on_remainder) x EVERY request schedule of flows 0..5 (thorough 0..7), the sequence's own "
        "bufsize (equal to the adapter's or 1,2,3,5) / buffer mode / yield_on_remainder drawn per case and its reset drawn "
        "(thorough: both values); plus 4000 (20000) random: flows 0..12, bufsize 1..5, 2 results, state-changing request, "
        "state-dependent result count, method-name keywords, fill-request+compute elements, a raw element in place of the "
        "adapter, no/both buffer flags on adapter and sequence (LenaValueError without yield_on_remainder), a second "
        "history on the same object, run() on the same object before / after the history; run of a fresh identical "
        "sequence and of a fresh identical adapter for every case. "
        "Every run case hands over a counting iterator: the number of values taken when each result is yielded is compared "
        "with the event model and bounded by the oracle. "
        "Deep copies (copy.deepcopy of the adapter / FillRequestSeq, driven instead of the object built): run for every "
        "wrapped kind x reset x bufsize 1..3 x flags x flows 0,1,2,3,5,7 x state-changing request, copied fresh (one run, "
        "two runs) and after a first run of the original; every request schedule of flows 0..4 on a fresh copy; the "
        "original's element must not be called and the original is run afterwards (quick: a seeded 16% / 30% sample; "
        "also 20% of the random run/ops dimension cases). "
        "Non-trivial: at least one result yielded or an exception.")
CASE_TIMEOUT = 5

KINDS_FILL = ("fc", "fr", "both")          # kinds that have fill/request on the adapter
KINDS_RUN = ("run", "map", "fc", "fr", "frc", "both", "frseq")


# ----------------------------------------------------------------------------------------
# the wrapped test element (real Python object handed to the real FillRequest)

class _E(object):
    """The test element.  Its methods are closures of make_el (functions are atomic for copy.deepcopy), so it says itself
    how it is deep copied: an element built the same way, holding a deep copy of the state — independent of the one it
    was copied from (`copies`: the elements copied from this one, for the harness to find the element of a deep-copied
    adapter or sequence without looking into lena's objects)."""

    def __deepcopy__(self, memo):
        import copy
        new = make_el(*self.mk[0], **self.mk[1])
        memo[id(self)] = new
        new.v = copy.deepcopy(self.v, memo)
        new.obs.update(self.obs)        # in place: the closures of `new` hold this dict
        self.copies.append(new)
        return new


_DISPATCH = {}


def _dispatch(name):
    """the function behind the bound method `name` of a test element: calls what make_el put under that name"""
    if name not in _DISPATCH:
        def call(self, *a):
            return self.m[name](*a)
        call.__name__ = name
        _DISPATCH[name] = call
    return _DISPATCH[name]


def caps_of(kind, has_reset):
    """[run, fill, request, compute, reset] as getattr/callable sees them"""
    if kind in ("run", "map"):
        return [True, False, False, False, has_reset]
    if kind == "fc":
        return [False, True, False, True, has_reset]
    if kind == "fr":
        return [False, True, True, False, has_reset]
    if kind == "frc":
        return [False, True, True, True, has_reset]
    if kind == "both":
        return [True, True, True, False, has_reset]
    if kind == "frseq":
        # FillRequestSeq defines fill (instance), request and reset (class) and no run
        return [False, True, True, False, True]
    raise ValueError(kind)


# flow values: a case may carry "vals", a list of codes; code c stands for POOL[c] in the real flow (equal codes: equal
# values) and for the integer c in the model.  Results are decoded back to codes before any comparison.
POOL = [None, 0, 7, (1, {"c": 1}), "x", 2.5]


def _code_of(v):
    for i, pv in enumerate(POOL):
        if type(v) is type(pv) and v == pv:
            return i
    return v


def flow_codes(case, start=0, n=None):
    """the flow as the model sees it"""
    n = case["n"] if n is None else n
    if case.get("vals") is not None:
        return [case["vals"][(start + i) % len(case["vals"])] for i in range(n)]
    return list(range(start, start + n))


def py_flow(case, codes):
    """fresh objects for every case (a branch of Split may change the values it is handed)"""
    import copy
    return [copy.deepcopy(POOL[c]) for c in codes] if case.get("vals") is not None else list(codes)


class _Live(list):
    """the element's own state handed out as a result (not a copy)"""


def enc(case, r):
    """a result at the moment it is yielded, as the model writes it (values -> codes; a live state -> a snapshot)"""
    if type(r) is _Live:
        r = [0] + list(r)
    if case.get("vals") is not None and isinstance(r, list):
        return [r[0]] + [_code_of(v) for v in r[1:]]
    return r


def make_el(kind, k, mut, has_reset, caps=None, stop=None, stores=False, kpar=False, names=False, readj=None,
            alias=False, codef=None, lazy=False):
    """An element whose fill appends to a list v; request/compute/run yield [j]+v for j<k and then
    (mut) append -1 to v; kind 'map': run yields [x+100] per value and keeps no state.
    stop: fill raises LenaStopFill for every value >= stop (after storing it if `stores`).
    kpar: the number of results depends on the state (k while the values held sum to an odd number — `codef` gives the
          number a value stands for —, none otherwise).
    names: the methods are called put / get / clear (and fill / request / reset are decoys that must not be used).
    readj: run reads at most readj values of the flow it is given (a Run element that breaks the flow).
    alias: the one result is the live state itself and reset empties it in place.
    request/compute/run are generator functions: their bodies run when they are iterated."""
    e = _E()
    e.mk = ((kind, k, mut, has_reset), dict(caps=caps, stop=stop, stores=stores, kpar=kpar, names=names, readj=readj,
                                            alias=alias, codef=codef, lazy=lazy))
    e.copies = []
    e.v = _Live() if alias else []
    # what the element sees of its caller (the public-interface observation of the adapter's state, see _Watch):
    # att: calls of fill; since: fills accepted since request/compute was last called; made: results yielded by
    # request/compute (for the lazy variant: generator objects handed out)
    # calls: every call of a method of the element (a generator method: when its body starts)
    e.obs = obs = {"att": 0, "since": 0, "made": 0, "calls": 0}

    def fill(x):
        obs["att"] += 1
        obs["calls"] += 1
        if stop is not None and x >= stop:
            if stores:
                e.v.append(x)
            import lena.core
            raise lena.core.LenaStopFill()
        e.v.append(x)
        obs["since"] += 1

    def gen(count=False):
        if alias:
            if count:
                obs["made"] += 1
            yield e.v
            return
        kk = (k if sum((codef(x) if codef else x) for x in e.v) % 2 == 1 else 0) if kpar else k
        for j in range(kk):
            if count:
                obs["made"] += 1
            yield [j] + list(e.v)
        if mut:
            e.v.append(-1)

    def req():
        """request / compute as the adapter calls it (run of the element calls gen itself)"""
        obs["since"] = 0
        obs["calls"] += 1
        if lazy:
            # the element of the generator-keeping reference adapter: ONE result, the generator object itself
            obs["made"] += 1
            return [gen()]
        return gen(True)

    def other():
        yield [-7]

    def reset():
        obs["calls"] += 1
        if alias:
            del e.v[:]
        else:
            e.v = []

    def run(flow):
        obs["calls"] += 1
        if kind == "map":
            for x in flow:
                yield [x + 100]
        else:
            if readj is None:
                for x in flow:
                    e.v.append(x)
            elif readj > 0:
                cnt = 0
                for x in flow:
                    e.v.append(x)
                    cnt += 1
                    if cnt == readj:
                        break
            for r in gen():
                yield r

    def decoy(*a):
        raise AssertionError("a method with the default name was called although another name was given")

    e.m = {}

    def method(name, f):
        # a bound method of the element (as the method of a class instance is): an object that keeps `el.run` / `el.fill`
        # and is deep copied keeps the method of the COPIED element (copy.deepcopy rebinds bound methods; a plain
        # function stored as an attribute would stay that of the original)
        e.m[name] = f
        setattr(e, name, types.MethodType(_dispatch(name), e))

    c = caps if caps is not None else caps_of(kind, has_reset)
    if c[0]:
        method("run", run)
    if c[1]:
        method("put" if names else "fill", fill)
    if c[2]:
        method("get" if names else "request", req)
    if c[3]:
        method("compute", other if c[2] else req)
    if c[4]:
        method("clear" if names else "reset", reset)
    if names:
        # `fill`/`request` with the default names exist, too, and must not be used; `reset` with the default name
        # exists only if the element is not meant to have one (so an adapter that ignores reset_name resets wrongly)
        if c[1]:
            method("fill", decoy)
        if c[2]:
            method("request", decoy)
        if not c[4]:
            method("reset", decoy)
    return e


def _kw(case):
    buf = case.get("buf", "bi")
    kw = {"bufsize": float(case["bufsize"]) if case.get("fbuf") else case["bufsize"], "reset": case["reset"],
          "yield_on_remainder": case["yor"]}
    truthy = "yes" if case.get("fbuf") else True       # any truthy object is documented to do
    if buf in ("bi", "both"):
        kw["buffer_input"] = truthy
    if buf in ("bo", "both"):
        kw["buffer_output"] = truthy
    if case.get("names"):
        kw.update(fill="put", request="get", reset_name="clear")
    return kw


class _PreMulti(object):
    """a Run element that can break the flow, before the FillRequest element of a FillRequestSeq: nothing for
    multiples of 3, x+10 and x+20 for other odd values, x+10 otherwise (FillInto._run_fill_into)"""
    _can_break_flow = True

    def __init__(self, io=None):
        self.io = io if io is not None else {"in": 0, "out": 0}

    def run(self, flow):
        io = self.io
        for x in flow:
            if x % 3 == 0:
                continue
            io["in"] += 1
            yield x + 10
            if x % 2 == 1:
                io["in"] += 1
                yield x + 20


class _PostMulti(object):
    """a Run element after the FillRequest element: two results per result"""

    def __init__(self, io=None):
        self.io = io if io is not None else {"in": 0, "out": 0}

    def run(self, flow):
        io = self.io
        for r in flow:
            io["out"] += 1
            yield r + [99]
            yield r + [98]


def _code(v):
    """pre/post code: False/None/0 none, True/1 a function, 2 a Run element yielding 0..2 values per value"""
    return 2 if v == 2 and v is not True else (1 if v else 0)


def pre_ref(code, x):
    if code == 0:
        return [x]
    if code == 1:
        return [x + 10]
    return [] if x % 3 == 0 else ([x + 10, x + 20] if x % 2 == 1 else [x + 10])


def post_ref(code, r):
    if code == 0:
        return [r]
    if code == 1:
        return [r + [99]]
    return [r + [99], r + [98]]


# ---- the adapter that keeps generator objects (reference for `Eval.atRequest` of Model/C16X.lean) -----------------
# fill() stores the generator object of the element's request in the output buffer instead of its results, and
# request() iterates the stored objects in turn (the change of seeded/C16-C).  It is obtained through the public
# interface only: the REAL FillRequest around an element whose request()/compute() returns the one-element list
# [generator object] (make_el(..., lazy=True)) — so `extend(el.request())` keeps the object, `for val in
# el.request(): yield val` hands it out — and a caller that iterates each object handed out by request() before it
# asks for the next one (`_lazy_request`): the element's generator bodies run at exactly the moments they run in an
# adapter that chains the kept generator objects.  Used only to validate the model's account of generator objects
# against real Python generators.

def _lazy_request(fr, watch):
    for g in fr.request():
        watch.left += 1
        for v in g:
            yield v


class _Watch(object):
    """The state of an adapter under fill()/request() as it can be seen from outside (public interface only): the
    wrapped element is the harness's own and counts what it receives (make_el: e.obs), the harness counts what it
    hands to the adapter and what comes out of it.
      count   = fills the element accepted since its request/compute was last called      (the property's `_n_count`)
      held_in = values handed to the adapter - values offered to the element               (len of `_buffer_in`)
      held_out= results the element yielded - results that came out of the adapter         (len of `_buffer_out`)
    A request() that ends with LenaStopFill gives up the values it had taken and not offered yet (`forfeit`; an
    implementation that offered them later would show a negative held_in).  These are equal to the private counters
    on the code of /repo (checked defensively by `_anchors`), and unlike them they survive any rewrite that keeps the
    behaviour."""

    def __init__(self, el):
        self.el, self.given, self.left, self.forfeited = el, 0, 0, 0

    def sizes(self):
        if self.el is None:
            return [0, 0, 0]        # a raw fill/request element: no adapter on the path
        o = self.el.obs
        return [o["since"], self.given - o["att"] - self.forfeited, o["made"] - self.left]

    def forfeit(self):
        if self.el is not None:
            self.forfeited = self.given - self.el.obs["att"]


_ANCHOR_NAMES = ("_n_count", "_buffer_in", "_buffer_out")


def _anchors(fr, sizes, seen):
    """The state anchors the property names (private attributes _n_count, _buffer_in, _buffer_out of the adapter),
    read DEFENSIVELY next to the public observation `sizes`: "absent" if the counter cannot be read under that
    name, else whether the sizes agree.  Only recorded (classify: label `anchors:...`), never a failure: a rewrite
    may rename or re-purpose private attributes without changing behaviour."""
    if seen.get("a") in ("absent", "differ"):
        return
    try:
        cnt, bin_, bout = (getattr(fr, nm, None) for nm in _ANCHOR_NAMES)
        if cnt is None or (bin_ is None and bout is None):
            seen["a"] = "absent"
            return
        priv = [int(cnt), len(bin_ or ()), len(bout or ())]
        seen["a"] = "equal" if priv == list(sizes) else "differ"
    except Exception:
        seen["a"] = "absent"


# the objects built for the case that is running: id(adapter or sequence) -> (object, wrapped test element | None,
# contained adapter | None, counters of the elements before/after | None)
_BUILT = {}


def _built(obj, el, inner=None, io=None):
    _BUILT[id(obj)] = (obj, el, inner, io)
    return obj


def make_adapter(case):
    """The real adapter for a run/ops/split case."""
    import lena.core
    kind = case["kind"]
    if case.get("op") == "seqops":
        return make_seq(case)
    if kind == "frseq":
        el = make_el("fr", case["k"], case["mut"], True, kpar=bool(case.get("kpar")))   # no "vals" with frseq
        args = []
        pre, post = _code(case.get("pre")), _code(case.get("post"))
        if pre:
            args.append((lambda x: x + 10) if pre == 1 else _PreMulti())
        args.append(el)
        if post:
            args.append((lambda r: r + [99]) if post == 1 else _PostMulti())
        return _built(lena.core.FillRequestSeq(*args, **_kw(case)), el)
    el = make_el(kind, case["k"], case["mut"], case["hr"], stop=case.get("stop"), stores=bool(case.get("stores")),
                 kpar=bool(case.get("kpar")), names=bool(case.get("names")), readj=case.get("j"),
                 alias=bool(case.get("alias")), codef=_code_of if case.get("vals") is not None else None,
                 lazy=case.get("ev") == "request")
    return _built(lena.core.FillRequest(el, **_kw(case)), el)


def make_inner(case):
    """the fill/request element of a `seqops` sequence: a FillRequest adapter around the test element (the adapter
    arguments of the case are ITS arguments), or — "inner": "raw" — the raw fill/request test element"""
    import lena.core
    if case.get("inner") == "raw":
        return _built(make_el("fr", case["k"], case["mut"], True, kpar=bool(case.get("kpar"))), None)
    el = make_el(case["kind"], case["k"], case["mut"], case["hr"], kpar=bool(case.get("kpar")),
                 names=bool(case.get("names")))
    return _built(lena.core.FillRequest(el, **_kw(case)), el)


def _okw(case):
    """the keyword arguments of the FillRequestSeq itself"""
    kw = {"bufsize": case["ob"], "reset": case["oreset"], "yield_on_remainder": case["oyor"]}
    if case["obuf"] in ("bi", "both"):
        kw["buffer_input"] = True
    if case["obuf"] in ("bo", "both"):
        kw["buffer_output"] = True
    return kw


def make_seq(case):
    """FillRequestSeq(*before, inner, *after, bufsize=ob, reset=oreset, <obuf>, yield_on_remainder=oyor)"""
    import lena.core
    pre, post = _code(case.get("pre")), _code(case.get("post"))
    args = []
    io = {"in": 0, "out": 0}        # values the element before hands on / results the element after receives

    def f(x):
        io["in"] += 1
        return x + 10

    def g(r):
        io["out"] += 1
        return r + [99]

    if pre:
        args.append(f if pre == 1 else _PreMulti(io))
    inner = make_inner(case)
    args.append(inner)
    if post:
        args.append(g if post == 1 else _PostMulti(io))
    return _built(lena.core.FillRequestSeq(*args, **_okw(case)), _BUILT[id(inner)][1], inner, io)


def _seq_passes(case):
    """(xs0 | None, ops, ops2 | None, xs2 | None, xs): the passes over one FillRequestSeq object — run on xs0, the
    history ops, a second history, run on xs2 — and the flow of the first history (for a fresh object's run)"""
    n = case["n"]
    ops = _ops_of(case)
    ops2 = None
    if case.get("n2") is not None:
        ops2 = _ops_of(dict(case, n=case["n2"], mask=case.get("mask2", 0), vals=None))
        ops2 = [o if o is None else o + n for o in ops2]
    xs0 = list(range(50, 50 + case["n0"])) if case.get("n0") is not None else None
    xs2 = list(range(70, 70 + case["n3"])) if case.get("n3") is not None else None
    return xs0, ops, ops2, xs2, list(range(n))


def _run_seqops(case, seq):
    # public-interface observation of the contained adapter (see _Watch): what is handed to it is what the element
    # before it hands on (or, without one, what the sequence is filled with / takes from the flow of run); what
    # leaves it is what the element after it receives (or, without one, what the sequence yields)
    _, el, inner, io = _BUILT[id(seq)]
    pre, post = _code(case.get("pre")), _code(case.get("post"))
    watch = _Watch(el)
    seen = {}

    def sizes(nin, nout):
        watch.given = io["in"] if pre else watch.given + nin
        watch.left = io["out"] if post else watch.left + nout
        sz = watch.sizes()
        if el is not None:
            _anchors(inner, sz, seen)
        return sz

    def history(ops):
        trace = []
        for o in ops:
            if o is None:
                out = [r for r in seq.request()]
                trace.append([out] + sizes(0, len(out)))
            else:
                seq.fill(o)
                trace.append([None] + sizes(1, 0))
        return trace

    def run(xs):
        src = _Counting(xs)
        out = list(seq.run(src))
        sizes(src.taken, len(out))
        return out

    xs0, ops, ops2, xs2, xs = _seq_passes(case)
    res, phase = {}, "run0"
    try:
        if xs0 is not None:
            res["r0"] = run(xs0)
        phase = "ops"
        res["t"] = history(ops)
        if ops2 is not None:
            phase = "ops2"
            res["t2"] = history(ops2)
        if xs2 is not None:
            phase = "run2"
            res["r2"] = run(xs2)
        # "those of run on the whole flow": fresh, identically built objects — the whole sequence, and the contained
        # adapter alone on what the preceding elements make of the flow (its results through the following elements)
        phase = "run of a fresh sequence"
        res["runseq"] = list(make_seq(case).run(iter(xs)))
        if case.get("inner") != "raw":
            phase = "run of a fresh adapter"
            pre, post = _code(case.get("pre")), _code(case.get("post"))
            innerflow = [y for x in xs for y in pre_ref(pre, x)]
            res["runinner"] = [q for r in make_inner(case).run(iter(innerflow)) for q in post_ref(post, r)]
        else:
            res["runinner"] = None
    except Exception as e:
        return dict(res, e=exc_name(e), phase=phase, anchors=seen.get("a"))
    res["anchors"] = seen.get("a")
    return res


def _works_bi(case):
    """the adapter buffers input (self._buffer_input = bool(buffer_input)): flags 'bi' and 'both'; with 'bo' and with no
    flag at all (allowed with yield_on_remainder) it buffers output"""
    return case.get("buf", "bi") in ("bi", "both")


def _ops_of(case):
    """[x | None]: None = request; bit j of mask: a request before fill j; a closing request always."""
    ops, flow = [], flow_codes(case)
    for j in range(case["n"]):
        if (case["mask"] >> j) & 1:
            ops.append(None)
        ops.append(flow[j])
    ops.append(None)
    return ops


# ---- guards for a non-terminating implementation ------------------------------------------------
# "every call returns in finite time" is watched by common's per-case timer (CASE_TIMEOUT, confirmed by a solitary
# re-run with a ten times larger budget).  Two additions keep a check over an implementation that hangs short
# and harmless for the machine:
#  * while the real code runs, the address space of the process is limited to what it has + 256 MB, so a hang
#    that allocates (the defect fixed in 8562852 extended a list while iterating over it) surfaces within a second
#    as `Other:MemoryError` in that call (the limit is lifted again before returning: the main process starts Lean);
#  * after two cases that hung while burning CPU (and their two confirming re-runs), or ten that ran out of memory,
#    a process stops executing cases: they are returned as {"skipped": ...} (never a failure, never compared,
#    labelled in the histogram).  What was seen until then is reported as failing input, so the check exits 1 in
#    minutes instead of hours.
_HANGS = {"cpu": 0, "mem": 0}
_HANG_LIMIT = 4
_MEM_LIMIT = 10
_MEM_HEADROOM = 256 << 20


def _limit_memory():
    """Limit the address space to what the process has + _MEM_HEADROOM while the real code runs; returns the previous
    (soft, hard) limit to restore afterwards (the harness itself, and the Lean driver the main process starts, are
    not to be limited).  The size of the process is re-read every 256 calls (reading /proc is the expensive part)."""
    try:
        import resource
        k = _HANGS.get("calls", 0)
        _HANGS["calls"] = k + 1
        if k % 256 == 0 or "vm" not in _HANGS:
            with open("/proc/self/statm") as f:
                _HANGS["vm"] = int(f.read().split()[0]) * resource.getpagesize()
        soft, hard = resource.getrlimit(resource.RLIMIT_AS)
        lim = _HANGS["vm"] + _MEM_HEADROOM
        if hard != resource.RLIM_INFINITY and lim > hard:
            return None
        if soft != resource.RLIM_INFINITY and lim >= soft:
            return None
        resource.setrlimit(resource.RLIMIT_AS, (lim, hard))
        return (soft, hard)
    except Exception:
        return None


def _unlimit_memory(old):
    if old is not None:
        try:
            import resource
            resource.setrlimit(resource.RLIMIT_AS, old)
        except Exception:
            pass


# ---- step watchdog: executed lines of lena code ------------------------------------------------------
# sys.monitoring (CPython >= 3.12) LINE events, local to the code objects of the anchored modules, are counted while
# a case runs.  A case of this check feeds at most ~50 values / calls; the real code executes a few thousand lines
# for it.  When STEP_BUDGET lines have been executed the call is declared not to return: _StepBudget (a
# BaseException, so no `except Exception` of lena or of the harness can swallow it) is raised from the callback,
# inside the looping code.  A spinning implementation is thus reported in about a second instead of after the
# wall-clock watchdog (5 s + a 50 s confirmation); the wall-clock timer stays as the backstop (loops inside C code).
STEP_BUDGET = 3_000_000
_STEP_TOOL = 4            # a free sys.monitoring tool id (0 debugger, 1 coverage [used by common], 2 profiler, 5 optimizer)
_STEPS = {"n": 0, "on": None}


class _StepBudget(BaseException):
    pass


def _code_objects(mod):
    import types
    seen, out = set(), []

    def walk_code(co):
        if id(co) in seen:
            return
        seen.add(id(co))
        out.append(co)
        for c in co.co_consts:
            if isinstance(c, types.CodeType):
                walk_code(c)

    def walk(obj, depth=0):
        if isinstance(obj, types.FunctionType):
            if obj.__module__ == mod.__name__:
                walk_code(obj.__code__)
        elif isinstance(obj, type) and obj.__module__ == mod.__name__ and depth < 3:
            for v in vars(obj).values():
                walk(getattr(v, "__func__", v), depth + 1)

    for v in vars(mod).values():
        walk(v)
    return out


def _steps_start():
    """count LINE events in lena.core.adapters / split / fill_request_seq / fill_seq; returns False if unavailable"""
    if _STEPS["on"] is not None:
        return _STEPS["on"]
    _STEPS["on"] = False
    mon = getattr(sys, "monitoring", None)
    if mon is None:
        return False
    try:
        import lena.core.adapters, lena.core.split, lena.core.fill_request_seq, lena.core.fill_seq
        mon.use_tool_id(_STEP_TOOL, "verif-c16-steps")

        def on_line(code, line):
            _STEPS["n"] += 1
            if _STEPS["n"] > STEP_BUDGET:
                _STEPS["n"] = 0
                raise _StepBudget()

        mon.register_callback(_STEP_TOOL, mon.events.LINE, on_line)
        for m in (lena.core.adapters, lena.core.split, lena.core.fill_request_seq, lena.core.fill_seq):
            for co in _code_objects(m):
                mon.set_local_events(_STEP_TOOL, co, mon.events.LINE)
        _STEPS["on"] = True
    except Exception:
        _STEPS["on"] = False
    return _STEPS["on"]


def run_impl(case):
    if (_HANGS["cpu"] >= _HANG_LIMIT or _HANGS["mem"] >= _MEM_LIMIT) and case["op"] != "init":
        return {"skipped": f"{_HANGS['cpu']} calls of the real code hung and {_HANGS['mem']} ran out of memory "
                           "in this process before"}
    import lena.core    # before the memory limit: the first import maps shared libraries
    _steps_start()
    _STEPS["n"] = 0
    t0 = time.process_time()
    old = _limit_memory()
    try:
        res = _run_impl(case)
    except _StepBudget:
        _HANGS["cpu"] += 1
        return {"hang": f"more than {STEP_BUDGET} lines of lena.core.adapters/split/fill_request_seq executed "
                        "without returning (step watchdog)"}
    except BaseException as e:
        # common.CaseTimeout; counted only if the case itself used the CPU (not a stalled machine)
        if type(e).__name__ == "CaseTimeout" and time.process_time() - t0 > 0.7 * CASE_TIMEOUT:
            _HANGS["cpu"] += 1
        raise
    finally:
        _STEPS["n"] = 0
        _unlimit_memory(old)
    if isinstance(res, dict) and res.get("e") == "Other:MemoryError":
        _HANGS["mem"] += 1
    size = _leaves(res)
    if size > _RESULT_LIMIT:
        # a case feeds at most ~50 values: an output of this size is not a result to keep (and to ship to the parent)
        _HANGS["mem"] += 1
        return {"e": "Other:ResultTooLarge", "phase": case["op"], "size": size}
    return res


_RESULT_LIMIT = 60000


def _leaves(o, cap=10 ** 6):
    """number of scalars in a nested list/dict result (stops counting at cap)"""
    n, stack = 0, [o]
    while stack and n < cap:
        x = stack.pop()
        if isinstance(x, dict):
            stack.extend(x.values())
        elif isinstance(x, (list, tuple)):
            stack.extend(x)
        else:
            n += 1
    return n


class _Counting(object):
    """the flow handed to run: an iterator that knows how many values have been taken from it"""

    def __init__(self, values):
        self._it, self.taken = iter(values), 0

    def __iter__(self):
        return self

    def __next__(self):
        v = next(self._it)
        self.taken += 1
        return v

    next = __next__


class _SibCount(object):
    """a fill/compute sibling branch of Split: counts what it is filled with"""

    def __init__(self):
        self.n = 0

    def fill(self, x):
        self.n += 1

    def compute(self):
        yield ("B", self.n)


class _SibStop(object):
    """a sibling element that accepts `c` values and then raises LenaStopFill; results are tuples (never lists: the
    results of the branch under test are lists)"""

    def __init__(self, tag, c):
        self.tag, self.c, self.n = tag, c, 0

    def fill(self, x):
        if self.n >= self.c:
            import lena.core
            raise lena.core.LenaStopFill()
        self.n += 1

    def request(self):
        yield (self.tag, self.n)

    def reset(self):
        pass


class _SibStopFC(object):
    """the same as a fill/compute element"""

    def __init__(self, tag, c):
        self.tag, self.c, self.n = tag, c, 0

    def fill(self, x):
        if self.n >= self.c:
            import lena.core
            raise lena.core.LenaStopFill()
        self.n += 1

    def compute(self):
        yield (self.tag, self.n)


def _sibling(desc, cb):
    """a sibling branch of Split from its descriptor: 'src' a Source; 'seq' a Sequence that changes its copy of the
    values; 'fc' a FillCompute counter; 'fr2:n' another FillRequest (bufsize n, buffer_output) whose results are tuples;
    'frstop:c' / 'fcstop:c' a FillRequest (buffer_output) / fill-compute branch that raises LenaStopFill after c values"""
    import lena.core
    name, _, arg = desc.partition(":")
    if name == "src":
        def src():
            yield ("S", 0)
        return lena.core.Source(src), "source"
    if name == "seq":
        def sib_a(x):
            if cb and isinstance(x, tuple) and isinstance(x[1], dict):
                x[1]["c"] = 99
            return ("A", 0)
        return lena.core.Sequence(sib_a), "sequence"
    if name == "fc":
        return _SibCount(), "fill_compute"
    if name == "fr2":
        return lena.core.FillRequest(_SibStop("F", 10 ** 9), bufsize=int(arg), reset=False, buffer_output=True), "fill_request"
    if name == "frstop":
        return lena.core.FillRequest(_SibStop("T", int(arg)), bufsize=2, reset=False, buffer_output=True), "fill_request"
    if name == "fcstop":
        return _SibStopFC("C", int(arg)), "fill_compute"
    raise ValueError(desc)


def sibx_types(case):
    """the branch types Split must find for a form 'sibx' case"""
    kinds = {"src": "source", "seq": "sequence", "fc": "fill_compute", "fr2": "fill_request", "frstop": "fill_request",
             "fcstop": "fill_compute"}
    if case.get("nest"):
        return ["fill_request"]
    return ([kinds[d.partition(":")[0]] for d in case.get("before", [])] + ["fill_request"]
            + [kinds[d.partition(":")[0]] for d in case.get("after", [])])


def _split_types(s, branches):
    """How Split classified its branches.  Public observation: a Split whose branches are all fill/request branches
    offers fill and request itself (and no compute); with branches of several types the classification shows only
    in the results.  The list Split keeps (private `_seq_types`) is read defensively: None if it cannot be read."""
    pub = None
    if branches is None or len(branches) == 1:
        pub = ["fill_request" if callable(getattr(s, "fill", None)) and callable(getattr(s, "request", None))
               and not callable(getattr(s, "compute", None)) else "other"]
    try:
        priv = [str(t) for t in getattr(s, "_seq_types")]
    except Exception:
        priv = None
    return {"pub": pub, "priv": priv}


def _init_arg(v):
    """init cases carry reset / buffer flags as JSON: null, true, false, or {"obj": 0|1|"yes"|...} for a non-bool"""
    return v["obj"] if isinstance(v, dict) else v


def _run_impl(case):
    import lena.core
    op = case["op"]
    _BUILT.clear()
    if op == "init":
        el = make_el("x", 1, False, False, caps=case["caps"])
        if case.get("run_attr"):
            el.run = 5          # an attribute `run` that is not callable: not a Run element
        bufsize = case["bufsize"]
        if case.get("frac"):
            bufsize = bufsize + 0.5
        elif case.get("fbuf"):
            bufsize = float(bufsize)
        try:
            fr = lena.core.FillRequest(el, bufsize=bufsize, reset=_init_arg(case["reset"]),
                                       buffer_input=_init_arg(case["bi"]), buffer_output=_init_arg(case["bo"]),
                                       yield_on_remainder=case["yor"])
        except Exception as e:
            return {"e": exc_name(e)}
        return {"fill": fr.fill is not None, "request": fr.request is not None, "reset": fr.reset is not None}
    try:
        fr = make_adapter(case)
    except Exception as e:
        return {"e": exc_name(e), "phase": "init"}
    codes = flow_codes(case)
    flow = py_flow(case, codes)
    codes2 = flow_codes(case, case["n"], case["n2"]) if case.get("n2") is not None else None
    flow2 = py_flow(case, codes2) if codes2 is not None else None
    try:
        # a second adapter of the same class around another element object, left with an unrequested overflow:
        # adapters must not share state (visible inside this one case, so that a replay shows it)
        decoy = make_adapter(dict(case, stop=None))
        if callable(getattr(decoy, "fill", None)):
            for x in range(-case["bufsize"] - 1, 0):
                decoy.fill(x)
    except Exception as e:
        return {"e": exc_name(e), "phase": "second adapter"}
    if op == "seqops":
        return _run_seqops(case, fr)
    # "cp": the object that is driven is a deep copy (copy.deepcopy, as lena's SplitIntoBins / MapBins copy the
    # sequences they are given) of the object built — "fresh": copied before anything was called, "mid": a run case
    # with a second flow: copied after the first run.  A copy is an adapter / sequence in the state of the original:
    # the model and the reference see no difference.  `orig`: (the original, its element, the element's call count at
    # the moment of the copy)
    cp, orig = case.get("cp") if op in ("run", "runp", "ops") else None, None

    def deep_copy(obj):
        import copy
        oel = _BUILT[id(obj)][1]
        c = copy.deepcopy(obj)
        _built(c, oel.copies[-1] if oel.copies else oel)
        return c, (obj, oel, oel.obs["calls"])

    def cp_result(xs):
        """what the original's element was called while the copy was driven; then the run of the original"""
        obj, oel, base = orig
        return {"shared": _BUILT[id(fr)][1] is oel, "touched": oel.obs["calls"] - base,
                "ro": [enc(case, r) for r in obj.run(iter(xs))]}

    if cp == "fresh":
        try:
            fr, orig = deep_copy(fr)
        except Exception as e:
            return {"e": exc_name(e), "phase": "deepcopy"}
    if op in ("run", "runp"):
        try:
            # "rt": for every result, how many values of the flow had been taken when it was yielded
            src, rs, rt = _Counting(flow), [], []
            for r in fr.run(src):
                rs.append(enc(case, r))
                rt.append(src.taken)
            res = {"r": rs, "rt": rt, "taken": src.taken}
            if flow2 is not None:
                if cp == "mid":
                    fr, orig = deep_copy(fr)
                # the same adapter (and element object) runs a second flow
                res["r2"] = [enc(case, r) for r in fr.run(iter(flow2))]
            if orig is not None:
                res["cp"] = cp_result(py_flow(case, codes2 if cp == "mid" else codes))
            return res
        except Exception as e:
            return {"e": exc_name(e), "phase": "run"}
    if op == "ops":
        trace = []
        watch, seen = _Watch(_BUILT[id(fr)][1]), {}

        def sizes():
            sz = watch.sizes()
            _anchors(fr, sz, seen)
            return sz

        try:
            for o in _ops_of(case):
                if o is None:
                    out = [enc(case, r) for r in fr.request()]
                    watch.left += len(out)
                    trace.append([out] + sizes())
                else:
                    watch.given += 1
                    fr.fill(py_flow(case, [o])[0])
                    trace.append([None] + sizes())
        except Exception as e:
            return {"e": exc_name(e), "phase": "ops", "t": trace}
        res = {"t": trace, "anchors": seen.get("a")}
        try:
            res["run"] = [enc(case, r) for r in make_adapter(case).run(iter(flow))]
            if flow2 is not None:
                # the adapter that was driven by fill/request now runs a flow
                res["r2"] = [enc(case, r) for r in fr.run(iter(flow2))]
            if orig is not None:
                res["cp"] = cp_result(py_flow(case, codes))
        except Exception as e:
            res["run"] = {"e": exc_name(e)}
        return res
    if op == "opsx":
        # a caller that catches LenaStopFill (as Split does around fill) and goes on; "r": FillRequest.reset()
        trace = []
        watch, seen = _Watch(_BUILT[id(fr)][1]), {}
        lazy = case.get("ev") == "request"
        for o in case["ops"]:
            raised, out = False, None
            try:
                if o is None:
                    out = []
                    if lazy:
                        for v in _lazy_request(fr, watch):
                            out.append(v)
                    else:
                        for v in fr.request():
                            watch.left += 1
                            out.append(v)
                elif o == "r":
                    fr.reset()
                else:
                    watch.given += 1
                    fr.fill(o)
            except lena.core.LenaStopFill:
                raised = True
                if o is None:
                    watch.forfeit()
            except Exception as e:
                return {"e": exc_name(e), "phase": "opsx", "t": trace}
            sz = watch.sizes()
            _anchors(fr, sz, seen)
            trace.append([out, raised] + sz)
        return {"t": trace, "anchors": seen.get("a")}
    if op in ("splitx", "runx"):
        out, raised = [], False
        try:
            gen = lena.core.Split([fr], bufsize=case["m"]).run(iter(flow)) if op == "splitx" else fr.run(iter(flow))
            for v in gen:
                out.append(v)
        except lena.core.LenaStopFill:
            raised = True
        except Exception as e:
            return {"e": exc_name(e), "phase": op, "r": out}
        return {"r": out, "raised": raised}
    if op == "split":
        form = case["form"]
        branches = None
        if form == "el":
            branch = fr
        elif form == "tuple":
            branch = (fr,)
        elif form == "seq3":
            # elements before / after the adapter in the branch: Split builds a FillRequestSeq around them
            parts = []
            if case.get("apre"):
                parts.append((lambda x: x + 10) if case["apre"] == 1 else _PreMulti())
            parts.append(fr)
            if case.get("apost"):
                parts.append((lambda r: r + [99]) if case["apost"] == 1 else _PostMulti())
            branch = tuple(parts)
        elif form == "sib":
            # sibling branches before and after; with copy_buf the first one works on its own deep copy of the block
            # and may change it
            cb = bool(case.get("cb", True))

            def sib_a(x):
                if cb and isinstance(x, tuple) and isinstance(x[1], dict):
                    x[1]["c"] = 99
                return ("A", 0)

            branch = fr
            branches = [lena.core.Sequence(sib_a), fr, _SibCount()]
        elif form == "sibx":
            # other branches before / after the branch under test: a Source, a Sequence, fill/compute and fill/request
            # branches, some of which stop (LenaStopFill) and are removed by Split in the middle of the flow;
            # "nest": the fill/request branches form an inner Split, which is the only branch of the outer one and is
            # driven through Split.fill / Split.request
            cb = bool(case.get("cb", True))
            branch = fr
            branches = ([_sibling(d, cb)[0] for d in case.get("before", [])] + [fr]
                        + [_sibling(d, cb)[0] for d in case.get("after", [])])
            if case.get("nest"):
                branches = [lena.core.Split(branches, copy_buf=cb)]
        else:
            branch = lena.core.FillRequestSeq(fr, bufsize=1, reset=False, buffer_input=True)
        try:
            if branches is not None:
                s = lena.core.Split(branches, bufsize=case["m"], copy_buf=bool(case.get("cb", True)))
            else:
                s = lena.core.Split([branch], bufsize=case["m"])
        except Exception as e:
            return {"e": exc_name(e), "phase": "split-init"}
        mine = (lambda r: isinstance(r, list)) if branches is not None else (lambda r: True)
        try:
            res = {"r": [enc(case, r) for r in s.run(iter(flow)) if mine(r)], "types": _split_types(s, branches)}
            if flow2 is not None:
                # the same Split object (and adapter) runs a second flow
                res["r2"] = [enc(case, r) for r in s.run(iter(flow2)) if mine(r)]
            return res
        except Exception as e:
            return {"e": exc_name(e), "phase": "run"}
    raise ValueError(op)


# ----------------------------------------------------------------------------------------
# model side

def _cfg_req(case):
    kind = case["kind"]
    buf = case.get("buf", "bi")
    return {"caps": caps_of(kind, case.get("hr", True)), "bufsize": case["bufsize"], "reset": case["reset"],
            "bi": buf in ("bi", "both"), "bo": buf in ("bo", "both"), "yor": case["yor"],
            "el": {"k": case["k"], "mut": case["mut"], "map": kind == "map",
                   "pre": _code(case.get("pre")), "post": _code(case.get("post")),
                   "stop": case.get("stop"), "stores": bool(case.get("stores")), "kpar": bool(case.get("kpar"))}}


def init_model_args(case):
    """the arguments of an init case as the model takes them: truthiness of non-bool flags, int(bufsize) + frac,
    a non-callable `run` attribute is no `run`"""
    def ob(v):      # Optional[bool]
        v = _init_arg(v)
        return None if v is None else bool(v)
    caps = list(case["caps"])
    if case.get("run_attr"):
        caps[0] = False
    return {"caps": caps, "bufsize": case["bufsize"], "frac": bool(case.get("frac")), "reset": ob(case["reset"]),
            "bi": bool(_init_arg(case["bi"])), "bo": bool(_init_arg(case["bo"])), "yor": case["yor"]}


def model_requests(case):
    op = case["op"]
    if op == "init":
        return [dict(init_model_args(case), op="init")]
    r = _cfg_req(case)
    r["op"] = op
    codes = flow_codes(case)
    codes2 = flow_codes(case, case["n"], case["n2"]) if case.get("n2") is not None else None
    if op in ("run", "runp"):
        r["xs"] = codes
        if codes2 is not None:
            r["xs2"] = codes2
        if op == "runp":
            r["j"] = case.get("j")
    elif op == "ops":
        r["ops"] = _ops_of(case)
        if codes2 is not None:
            r["xs2"] = codes2
    elif op == "split":
        r["xs"] = codes
        r["m"] = case["m"]
        if codes2 is not None:
            r["xs2"] = codes2
        if case.get("form") == "seq3":
            r["apre"], r["apost"] = case.get("apre", 0), case.get("apost", 0)
    elif op == "seqops":
        xs0, ops, ops2, xs2, xs = _seq_passes(case)
        r.update(inner=case.get("inner", "fr"), ops=ops, xs=xs,
                 outer={"bufsize": case["ob"], "reset": case["oreset"], "bi": case["obuf"] in ("bi", "both"),
                        "bo": case["obuf"] in ("bo", "both"), "yor": case["oyor"]})
        for key, v in (("xs0", xs0), ("ops2", ops2), ("xs2", xs2)):
            if v is not None:
                r[key] = v
    elif op == "opsx":
        r["ops"] = case["ops"]
        r["ev"] = case.get("ev", "call")
    elif op == "splitx":
        r["xs"] = codes
        r["m"] = case["m"]
    elif op == "runx":
        r["xs"] = codes
    return [r]


def compare(case, res, replies):
    """the model's prediction against the real code — and, on the same case, the specification side of the theorems
    (what the driver evaluates besides the transcribed functions) against the real code / a Python reference.
    The specification-side fields are REQUIRED: a reply without them is a harness error (KeyError), not a pass."""
    m = replies[0]
    if "err" in m:
        return f"model driver error: {m['err']}"
    if "skipped" in res:
        return None
    if "__timeout__" in res or "hang" in res:
        return f"impl did not return (watchdog), model {m}"
    op = case["op"]
    if op == "init" and m["contract"] != (not ref_init(case)):
        return f"initContract of the model says {m['contract']}, documented contract (Python reference) {sorted(ref_init(case))}"
    if "e" in res or "e" in m:
        if res.get("e") != m.get("e"):
            return f"impl {res} vs model {m}"
        return None
    if op == "init":
        mm = {k: v for k, v in m.items() if k != "contract"}
        return None if res == mm else f"impl {res} vs model {mm}"
    if op == "ops":
        if res["t"] != m["t"]:
            return f"impl trace {res['t']} vs model {m['t']}"
        names = ("runOps agrees with the trace (outputs per request, final sizes)", "fills = the filled values",
                 "invOps (invariant along the history, state after request)",
                 "specification of the closed history (emitAll over segments / runFillCompute on the filled values) = "
                 "what the requests yielded", "the recording element accounts for exactly the filled values")
        chk = m["chk"]
        if len(chk) != len(names):
            raise KeyError(f"driver reply carries {len(chk)} checks, {len(names)} expected")
        for ok, name in zip(chk, names):
            if ok is not True:
                return f"specification side of the model fails on a history the real code agrees with: {name}"
        if "r2" in res and res["r2"] != m["r2"]:
            return f"run after the history on the same adapter: impl {res['r2']} vs model {m['r2']}"
        return None
    if op == "seqops":
        for key, what in (("r0", "run on the object before the history"), ("t", "history on the FillRequestSeq"),
                          ("t2", "second history on the same object"), ("r2", "run on the same object afterwards"),
                          ("runseq", "run of a fresh identical FillRequestSeq"),
                          ("runinner", "run of the contained adapter on the pre-processed flow")):
            if (key in res) != (key in m):
                raise KeyError(f"driver reply / impl result: field {key} on one side only")
            if key in res and res[key] != m[key]:
                return f"{what}: impl {_Short(res[key]) if isinstance(res[key], list) else res[key]} vs model {m[key]}"
        if m["seqok"] is not True:
            return "specification side of the model fails: seqOps does not give the outputs of the trace"
        if m["innerok"] is not True:
            return ("specification side of the model fails: rhs of seq_ops_eq_inner (the contained adapter driven with the "
                    "pre-processed fills) differs from seqOps")
        return None
    if op == "opsx":
        if res["t"] != m["t"]:
            return f"impl trace {res['t']} vs model {m['t']}"
        names = ("bufKind: what _buffer_out holds (results only / generator objects only)",
                 "the next request() starts with the kept results / with iterReq over the kept generator objects",
                 "the counters equal those of the history without its reset() calls")
        chk = m["chk"]
        if len(chk) != len(names):
            raise KeyError(f"driver reply carries {len(chk)} checks, {len(names)} expected")
        for ok, name in zip(chk, names):
            if ok is not True:
                return f"specification side of the extended model fails on a history the real code agrees with: {name}"
        return None
    if op in ("splitx", "runx"):
        if res["r"] != m["r"] or res["raised"] != m["raised"]:
            return f"impl {res['r']} raised={res['raised']} vs model {m['r']} raised={m['raised']}"
        return None
    if op == "runp":
        if res["r"] != m["r"]:
            return f"impl {res['r']} vs model {m['r']}"
        if m["spec"] != res["r"]:
            # the right-hand side of theorem run_blocks_after_patch, evaluated by the driver
            return f"impl {res['r']} vs block specification for a Run element {m['spec']}"
        return None
    if res["r"] != m["r"]:
        return f"impl {res['r']} vs model {m['r']}"
    if op == "run":
        if m["spec"] != res["r"]:
            # the right-hand side of theorem run_blocks, evaluated by the driver
            return f"impl {res['r']} vs block specification of the model {m['spec']}"
        # when the results appear (Model/C16S.lean: the events of run; "spect": the right-hand side of run_streams).
        # A Run element under yield_on_remainder may yield while it still reads its block: the model gives the latest moment
        exact = not (case["kind"] == "map" and case["yor"])
        for name, mt in (("events of the model", m["rt"]), ("rhs of run_streams", m["spect"])):
            if len(mt) != len(res["rt"]) or any((a != b) if exact else (a > b) for a, b in zip(res["rt"], mt)):
                return (f"values taken from the flow when each result was yielded: impl {res['rt']} vs {name} {mt}"
                        + ("" if exact else " (upper bound)"))
        if res["taken"] != m["nread"]:
            return f"run took {res['taken']} values from the flow, the model reads {m['nread']}"
        if case["kind"] == "both" and m["rc"] is not True:
            return "RunConsistent fails for the test element that has run and fill/request (hypothesis of schedule_independent)"
        if case["kind"] == "frseq" and m["seqspec"] != res["r"]:
            return f"impl {res['r']} vs rhs of seq_run_blocks {m['seqspec']}"
    if "r2" in res:
        if res["r2"] != m["r2"]:
            return f"second run on the same object: impl {res['r2']} vs model {m['r2']}"
        if op == "run" and m["spec2"] != res["r2"]:
            return f"second run: impl {res['r2']} vs block specification from the state left {m['spec2']}"
    return None


# ----------------------------------------------------------------------------------------
# the property's own statement, computed without lena and without the Lean model

def ref_init(case):
    """Documented constructor contract (docstring of FillRequest.__init__), on the Python arguments of the case."""
    run, fill, request, compute, reset_m = case["caps"]
    if case.get("run_attr"):
        run = False            # "a callable method run": an attribute that cannot be called is none
    reset, yor = _init_arg(case["reset"]), case["yor"]
    errs = set()
    if reset and not reset_m:
        errs.add("LenaTypeError")
    if not yor and int(bool(_init_arg(case["bi"]))) + int(bool(_init_arg(case["bo"]))) != 1:
        errs.add("LenaValueError")
    if fill and reset is None:
        errs.add("LenaTypeError")
    if not run and not (fill and (request or compute)):
        errs.add("LenaTypeError")
    if case["bufsize"] < 1 or case.get("frac"):
        errs.add("LenaValueError")     # "bufsize must be a natural number"
    return errs


def ref_run(case, flow, blocks=False):
    """Block by block: what a fresh (or, between full blocks, reset) element yields for each consecutive
    block of n values; the final partial block only with yield_on_remainder; nothing for an empty flow.
    blocks=True: (results, for every result the index of the block it belongs to)."""
    kind, k, mut, n = case["kind"], case["k"], case["mut"], case["bufsize"]
    reset, yor = bool(case["reset"]), case["yor"]
    pre, post = _code(case.get("pre")), _code(case.get("post"))
    out, v, idx = [], [], []
    for b, i in enumerate(range(0, len(flow), n)):
        block = flow[i:i + n]
        full = len(block) == n
        if not full and not yor:
            break
        before = len(out)
        if kind == "map":
            out.extend([x + 100] for x in block)
        else:
            if case.get("j") is not None:
                block = block[:case["j"]]       # a Run element that reads only the first j values of its block
            v = v + [y for x in block for y in pre_ref(pre, x)]
            kk = (k if sum(v) % 2 == 1 else 0) if case.get("kpar") else k
            out.extend(r for j in range(kk) for r in post_ref(post, [j] + v))
            if mut:
                v = v + [-1]
        idx.extend([b] * (len(out) - before))
        if reset:
            v = []
    return (out, idx) if blocks else out


def _oracle_streaming(case, res, flow):
    """'run yields block by block ... with at most one block of buffered values or results': when a result of block b is
    yielded, run has not taken more from the flow than the blocks 0..b and at most one further block (a rewrite may look
    ahead, but what it holds back is bounded by a block) — not the whole flow, not the results of all blocks."""
    if "rt" not in res:
        return "the harness did not record when the results were yielded"
    n, L = case["bufsize"], len(flow)
    ref, idx = ref_run(case, flow, blocks=True)
    if len(ref) != len(res["rt"]):
        return None         # the results themselves differ: reported by the caller
    for i, (b, taken) in enumerate(zip(idx, res["rt"])):
        bound = min(L, (b + 2) * n)
        if taken > bound:
            return (f"run does not work block by block: result {i} (of block {b}, bufsize {n}) was yielded only after "
                    f"{taken} of the {L} values of the flow had been read (values read at each result: {_Short(res['rt'])}); "
                    f"blocks 0..{b} and one block of look-ahead are {bound} values")
    return None


def oracle(case, res):
    op = case["op"]
    if "skipped" in res:
        return None     # not executed: earlier cases hung and are reported (see run_impl)
    if "hang" in res:
        return "the call did not return: " + res["hang"]
    if op == "init":
        errs = ref_init(case)
        if "e" in res:
            if res["e"] not in errs:
                return f"FillRequest.__init__ raised {res['e']}; documented errors for these arguments: {sorted(errs)}"
            return None
        if errs:
            return f"FillRequest.__init__ accepted arguments for which the documentation demands {sorted(errs)}"
        return None
    if op == "seqops":
        return _oracle_seqops(case, res)
    if "e" in res:
        return f"unexpected exception {res}"
    n, L = case["bufsize"], case["n"]
    flow = flow_codes(case)
    flow2 = flow_codes(case, L, case["n2"]) if case.get("n2") is not None else None
    if case.get("cp") and op in ("run", "runp", "ops"):
        bad = _oracle_copy(case, res, flow, flow2)
        if bad:
            return bad
    if op in ("run", "runp"):
        ref = ref_run(case, flow)
        if res["r"] != ref:
            return f"run yields {_Short(res['r'])}, block-by-block reference {_Short(ref)}"
        if L == 0 and res["r"]:
            return f"run on an empty flow yields {res['r']}"
        late = _oracle_streaming(case, res, flow)
        if late:
            return late
        if "r2" in res:
            # whatever the first flow left in the element: the second flow is cut into its own consecutive blocks
            n2, k = case["n2"], case["k"]
            nblocks = n2 // n + (1 if case["yor"] and n2 % n else 0)
            expect = (n * (n2 // n) + (n2 % n if case["yor"] else 0)) if case["kind"] == "map" else k * nblocks
            if _code(case.get("post")) == 2:
                expect *= 2
            if len(res["r2"]) != expect and not case.get("kpar"):
                return (f"the same adapter run on a second flow of {n2} values (bufsize {n}, yield_on_remainder "
                        f"{case['yor']}) yields {len(res['r2'])} results {res['r2']}, its blocks give {expect}")
        if "r2" in res and L % n == 0 and not case["mut"]:
            # the first flow ended at a block boundary: the blocks of the second run are the following blocks
            both = ref_run(case, flow + flow2)
            if res["r"] + res["r2"] != both:
                return (f"the same adapter run on {flow} and then on {flow2} yields "
                        f"{res['r']} + {res['r2']}, block-by-block reference for the values in turn {both}")
        return None
    if op == "ops":
        return _oracle_ops(case, res, flow)
    if op == "split":
        types = (["sequence", "fill_request", "fill_compute"] if case.get("form") == "sib" else
                 sibx_types(case) if case.get("form") == "sibx" else ["fill_request"])
        seen = res.get("types") or {}
        if seen.get("pub") is not None and seen["pub"] != types:
            return (f"Split around one fill/request branch does not offer fill and request (and no compute) itself: "
                    f"its branch is not taken as {types}")
        # (the private list `_seq_types`, when it can be read under that name, is only recorded — classify: label
        # `split:types-anchor:...`; a wrong classification of the branch under test shows in the results below)
        outs = res["r"]
        if case.get("form") == "seq3":
            # (f, FillRequest(...), g): the adapter is filled with what f makes of the values; its blocks are blocks of
            # those; g transforms its results
            inner = [y for x in flow for y in pre_ref(case.get("apre", 0), x)]
            ref = ref_run(dict(case, post=case.get("apost", 0)), inner)
            if not case["yor"] and outs != ref:
                return (f"Split(bufsize={case['m']}) around (f, FillRequest(bufsize={n}), g) yields {outs}, the blocks of "
                        f"the transformed values {inner} give {ref}")
            return None
        if not case["yor"]:
            ref = ref_run(case, flow)
            if outs != ref:
                return (f"Split(bufsize={case['m']}) around FillRequest(bufsize={n}) yields {_Short(outs)}, "
                        f"run on the whole flow would yield {_Short(ref)}")
        if L == 0 and outs:
            return f"Split around FillRequest yields {outs} for an empty flow"
        if flow2 is not None and not case["yor"] and case.get("form") != "seq3":
            # the same Split object runs a second flow: the adapter goes on with the following blocks
            both = ref_run(case, flow + flow2)
            if outs + res["r2"] != both:
                return (f"the same Split run on {flow} and then on {flow2} yields {outs} + {res['r2']}, "
                        f"the blocks of the values in turn give {both}")
        return _accounted(case, outs, flow, closed=True, pending=None)
    if op == "opsx":
        return _oracle_opsx(case, res)
    if op in ("splitx", "runx"):
        # a wrapped element that stops accepting values: the values it accepted before are processed in consecutive
        # blocks as ever (only LenaStopFill may come out; checked for yield_on_remainder off, value not stored)
        stop = case.get("stop")
        if stop is not None and not case["yor"] and not case.get("stores"):
            ref = ref_run(case, flow[:stop])
            if res["r"] != ref:
                return (f"{op}: element refuses values >= {stop}; results {res['r']}, block reference for the accepted "
                        f"values {ref}")
        if stop is None or stop >= L:
            if res["raised"]:
                return f"{op}: LenaStopFill although the element accepts every value"
            if not case["yor"] and res["r"] != ref_run(case, flow):
                return f"{op}: results {res['r']}, block reference {ref_run(case, flow)}"
            if L == 0 and res["r"]:
                return f"{op}: an empty flow yields {res['r']}"
            if op == "splitx":
                return _accounted(case, res["r"], flow, closed=True, pending=None)
        return None
    raise ValueError(op)


def _oracle_copy(case, res, flow, flow2):
    """The object that was driven is a deep copy of the object built (its results are judged by the sentences of the
    property like those of any adapter: the caller goes on with them).  Here: the copy processes the flow with ITS
    wrapped element — the element of the object it was copied from is not called; and the original, run afterwards, yields
    what its own element yields for the consecutive blocks: the block reference of a fresh object ("fresh"), what the copy
    — in the same state when it was made — yielded for the same flow ("mid")."""
    c = res.get("cp")
    if c is None:
        return "the harness did not record the run of the original after its deep copy was driven"
    what = "a deep copy" if case["cp"] == "fresh" else f"a deep copy made after a run on {len(flow)} values"
    if c["shared"]:
        return f"{what} of the adapter/sequence wraps the element object of the original (not a copy of it)"
    if c["touched"]:
        return (f"{what} was driven and {c['touched']} calls went to the wrapped element of the ORIGINAL: the copy does not "
                f"process the flow with its own element")
    if case["cp"] == "fresh":
        ref = ref_run(case, flow)
        if c["ro"] != ref:
            return (f"the original, untouched while its deep copy was driven, then runs {flow} and yields {_Short(c['ro'])}; "
                    f"block-by-block reference {_Short(ref)}")
    elif "r2" in res and c["ro"] != res["r2"]:
        return (f"original and deep copy made after the first run, each run on {flow2}: the copy yields {_Short(res['r2'])}, "
                f"the original {_Short(c['ro'])} — the blocks of the same values from the same state")
    return None


def ref_history(case):
    """Documented behaviour of fill/request/reset() on a history (no lena, no Lean): values are counted in blocks of
    bufsize since the last emission; the element holds what was filled since it was last reset (FillRequest.reset()
    empties it and nothing else; an emission empties it iff reset is set); a block is emitted when it is complete —
    at the latest by the next request() — and request() with yield_on_remainder also emits an incomplete one.
    Returns None when reset() is called while a complete block waits to be emitted (whether that block still shows
    its values then depends on the buffer mode: no reference)."""
    n, k, mut, rst, yor = case["bufsize"], case["k"], case["mut"], bool(case["reset"]), case["yor"]
    out, v, cnt = [], [], 0
    waiting = False
    stop = case.get("stop")
    if stop is not None and (_works_bi(case) or case.get("stores")):
        return None     # refused values waiting in _buffer_in / taken in before the refusal: no reference

    def emit():
        nonlocal v, cnt
        out.extend([j] + v for j in range(k))
        if mut:
            v = v + [-1]
        if rst:
            v = []
        cnt = 0

    for o in case["ops"]:
        if o is None:
            waiting = False
            if yor and cnt:
                emit()
        elif o == "r":
            if waiting:
                return None
            v = []
        elif stop is not None and o >= stop:
            pass        # the element refuses the value (LenaStopFill): it is neither in the element nor counted
        else:
            v = v + [o]
            cnt += 1
            if cnt == n:
                emit()
                waiting = True
    return out


def ref_seq_history(case, ops):
    """Documented behaviour of fill/request on a sequence (before..., FillRequest(el, bufsize=n, reset, ...), after...)
    — no lena, no Lean: what the preceding elements make of each value is counted in blocks of n; a complete block
    is emitted (by the next request() at the latest): the element yields its results, which go through the following
    elements, and is reset iff the ADAPTER's reset is set; request() with yield_on_remainder also emits an incomplete
    block.  The sequence's own bufsize / reset / flags do not occur."""
    n, k, mut, rst, yor = case["bufsize"], case["k"], case["mut"], bool(case["reset"]), case["yor"]
    pre, post = _code(case.get("pre")), _code(case.get("post"))
    out, st = [], {"v": [], "cnt": 0}

    def emit():
        v = st["v"]
        kk = (k if sum(v) % 2 == 1 else 0) if case.get("kpar") else k
        out.extend(q for j in range(kk) for q in post_ref(post, [j] + v))
        if mut:
            v = v + [-1]
        st["v"], st["cnt"] = ([] if rst else v), 0

    for o in ops:
        if o is None:
            if yor and st["cnt"]:
                emit()
            continue
        for y in pre_ref(pre, o):
            st["v"] = st["v"] + [y]
            st["cnt"] += 1
            if st["cnt"] == n:
                emit()
    return out


def _oracle_seqops(case, res):
    """The fill/request sentence of the property on a FillRequestSeq driven through its own fill()/request(): the
    FillRequest that is filled and requested is the contained adapter, so its block size / reset / flags are the
    property's n / reset / flags; the sentence is promised for every value of the sequence's own options."""
    outer_invalid = case["obuf"] in ("none", "both") and not case["oyor"]
    if "e" in res:
        if res.get("phase") == "init" and outer_invalid and res["e"] == "LenaValueError":
            return None
        return f"unexpected exception {dict((k, v) for k, v in res.items() if k in ('e', 'phase'))}"
    if outer_invalid:
        return "FillRequestSeq accepted buffer flags for which FillRequest.__init__ documents LenaValueError"
    if case.get("inner") == "raw":
        # no FillRequest adapter on the fill/request path (fill and request are the raw element's own): the sentence has
        # no block size to speak about; compared with the model only
        return None
    if case.get("n0") is not None:
        return None     # run() first on the same object: compared with the model only (no reference for the mixture)
    n, k, yor = case["bufsize"], case["k"], case["yor"]
    pre, post = _code(case.get("pre")), _code(case.get("post"))
    xs0, ops, ops2, xs2, xs = _seq_passes(case)
    allops = ops + (ops2 or [])
    trace = _Short(res["t"] + res.get("t2", []))
    desc = (f"FillRequestSeq({'f, ' if pre else ''}FillRequest(bufsize={n}, reset={case['reset']}, {case['buf']}, "
            f"yield_on_remainder={yor}){', g' if post else ''}, bufsize={case['ob']}, reset={case['oreset']}, "
            f"{case['obuf']}, yield_on_remainder={case['oyor']})")
    outs, pend, since = [], 0, 0
    for o, (out, cnt, lin, lout) in zip(allops, trace):
        if o is None:
            outs.extend(out)
            if lin or lout:
                return f"{desc}: something is still held after request(): {lin} values handed in and not offered to the element, {lout} results of the element not handed out (trace {trace})"
            if (yor and cnt != 0) or (not yor and not cnt < n):
                return f"{desc}: the element holds {cnt} values of an unfinished block after request() (trace {trace})"
            pend, since = cnt, 0
        else:
            since += len(pre_ref(pre, o))
            if cnt > n:
                return f"{desc}: the element was filled {cnt} times since its last request: exceeds bufsize {n} (trace {trace})"
            if lin > since:
                return f"{desc}: {lin} values are held back (handed in, not offered to the element) after {since} fills since the last request (trace {trace})"
            if lout > k * ((pend + since) // n):
                return f"{desc}: {lout} results of the element are held back after {since} fills since the last request (trace {trace})"
            if not case.get("kpar") and cnt + lin != pend + since - n * (lout // k if k else 0):
                return (f"{desc}: values not accounted: {cnt} in the element since its last request + {lin} held back after {pend}+{since} values "
                        f"(trace {trace})")
    sched = [i for i, o in enumerate(allops) if o is None]
    ref = ref_seq_history(case, allops)
    if outs != ref:
        return (f"{desc} driven by fill()/request(), calls {_Short(['request' if o is None else o for o in allops])}: "
                f"concatenated request() results {_Short(outs)}, consecutive blocks of the filled values give {_Short(ref)}")
    innerflow = [y for o in allops if o is not None for y in pre_ref(pre, o)]
    if not yor:
        whole = ref_run(dict(case, pre=0), innerflow)
        if outs != whole:
            return (f"{desc}: concatenated request() results {_Short(outs)} (requests at call positions {sched}), run on "
                    f"the whole flow would yield {_Short(whole)}")
        if ops2 is None:
            if res["runinner"] != outs:
                return (f"{desc}: concatenated request() results {_Short(outs)} differ from the adapter's run on the whole "
                        f"flow {_Short(res['runinner'])}")
            if (case["ob"] == n and pre != 2 and not case["oyor"] and (case["reset"] or not case["oreset"])
                    and res["runseq"] != outs):
                # the sequence's own block size and reset agree with the adapter's: its run is the same block loop
                return (f"{desc}: concatenated request() results {_Short(outs)} (requests at call positions {sched}) "
                        f"differ from run of the same sequence on the whole flow {_Short(res['runseq'])}")
    dec = outs if post == 0 else [r[:-1] for r in outs if r[-1] == 99]
    return _accounted(case, dec, innerflow, True, trace[-1][1] + trace[-1][2])


def _oracle_opsx(case, res):
    if case.get("ev") == "request":
        return None         # the lazy reference adapter, not the code under test: only compared with the model
    n, yor = case["bufsize"], case["yor"]
    ops, trace = case["ops"], _Short(res["t"])
    for o, (out, raised, cnt, lin, lout) in zip(ops, trace):
        if cnt > n:
            return f"the element was filled {cnt} times since its last request: exceeds bufsize {n} (trace {trace})"
        if o is None and not raised:
            if lin or lout:
                return f"something is still held after request(): {lin} values handed in and not offered to the element, {lout} results of the element not handed out (trace {trace})"
            if (yor and cnt != 0) or (not yor and not cnt < n):
                return f"the element holds {cnt} values of an unfinished block after request() (bufsize {n}, yield_on_remainder {yor}; trace {trace})"
        if raised and (o == "r" or case.get("stop") is None):
            return f"LenaStopFill from call {o!r} although the element never raises / from reset() (trace {trace})"
    if ops and ops[-1] is None:
        outs = [x for t in trace if t[0] is not None for x in t[0]]
        ref = ref_history(case)
        if ref is not None and outs != ref:
            return (f"history {ops} ('r' = reset(), None = request()): request() results {outs}, "
                    f"documented block behaviour {ref}")
    return None


def _accounted(case, outs, flow, closed, pending):
    """every value is in exactly one emitted block (reset on) / in the element exactly once (reset off)"""
    if case["kind"] == "map" or case["mut"] or case["k"] < 1 or case.get("kpar"):
        return None
    n, L = case["bufsize"], len(flow)
    emitted_n = L if case["yor"] else (L // n) * n
    firsts = [o[1:] for o in outs if o[0] == 0]
    if bool(case["reset"]):
        got = [x for b in firsts for x in b]
        if got != flow[:emitted_n]:
            return f"values emitted {got}, expected each of {flow[:emitted_n]} exactly once, in order"
    elif firsts and firsts[-1] != flow[:emitted_n]:
        return f"element held {firsts[-1]} at its last request, expected {flow[:emitted_n]}"
    if pending is not None and pending != L - emitted_n:
        return f"{pending} values pending after the closing request, expected {L - emitted_n}"
    return None


class _Short(list):
    """a trace for a message: long ones are shown by their first and last entries (the replay file has the case)"""

    def __format__(self, spec):
        if len(self) <= 40:
            return format(list(self), spec)
        return f"{list(self[:12])} ... ({len(self) - 24} more) ... {list(self[-12:])}"

    __str__ = __repr__ = lambda self: format(self, "")


def _oracle_ops(case, res, flow):
    n, k, yor = case["bufsize"], case["k"], case["yor"]
    trace = _Short(res["t"])
    ops = _ops_of(case)
    outs, pend, since = [], 0, 0
    for o, (out, cnt, lin, lout) in zip(ops, trace):
        if o is None:
            outs.extend(out)
            if lin or lout:
                return f"something is still held after request(): {lin} values handed in and not offered to the element, {lout} results of the element not handed out (trace {trace})"
            if (yor and cnt != 0) or (not yor and not cnt < n):
                return f"the element holds {cnt} values of an unfinished block after request() (bufsize {n}, yield_on_remainder {yor}; trace {trace})"
            pend, since = cnt, 0
        else:
            since += 1
            if cnt > n:
                return f"the element was filled {cnt} times since its last request: exceeds bufsize {n} (trace {trace})"
            if lin > since:
                return f"{lin} values are held back (handed in, not offered to the element) after {since} fills since the last request (trace {trace})"
            if lout > k * ((pend + since) // n):
                return f"{lout} results of the element are held back after {since} fills since the last request (trace {trace})"
            if not case.get("kpar") and cnt + lin != pend + since - n * (lout // k if k else 0):
                return f"values not accounted: {cnt} in the element since its last request + {lin} held back after {pend}+{since} values (trace {trace})"
    if not yor:
        ref = ref_run(case, flow)
        if outs != ref:
            return (f"request() results {_Short(outs)} for requests before fills "
                    f"{[j for j in range(len(flow)) if (case['mask'] >> j) & 1]} + closing; block reference for the whole flow "
                    f"{_Short(ref)}")
        if res["run"] != outs:
            return (f"concatenated request() results {_Short(outs)} differ from run on the whole flow "
                    f"{_Short(res['run']) if isinstance(res['run'], list) else res['run']}")
    if "r2" in res and not case.get("kpar") and case["kind"] != "map":
        # the adapter that was driven by fill/request then runs a flow: that flow is cut into its own blocks
        n2 = case["n2"]
        expect = k * (n2 // n + (1 if yor and n2 % n else 0))
        if len(res["r2"]) != expect:
            return (f"after the history the same adapter runs a flow of {n2} values (bufsize {n}, yield_on_remainder {yor}) "
                    f"and yields {len(res['r2'])} results {res['r2']}; its blocks give {expect}")
    return _accounted(case, outs, flow, True, trace[-1][1] + trace[-1][2])


# ----------------------------------------------------------------------------------------
# generation

def _base(kind, k, mut, hr, n, buf, reset, yor):
    return {"kind": kind, "k": k, "mut": mut, "hr": hr, "bufsize": n, "buf": buf, "reset": reset, "yor": yor}


def _reset_opts(kind):
    """(has_reset method, reset argument) combinations accepted by __init__"""
    if kind in ("run", "map"):
        return [(False, None), (False, False), (True, None), (True, True), (True, False)]
    if kind == "frseq":
        return [(True, True), (True, False)]
    return [(False, False), (True, False), (True, True)]


def _histories(maxlen):
    """every history over {fill, request(), reset()} of length <= maxlen; fills carry 0, 1, 2, ..."""
    for l in range(maxlen + 1):
        for w in itertools.product("frR", repeat=l):
            ops, j = [], 0
            for ch in w:
                if ch == "f":
                    ops.append(j)
                    j += 1
                else:
                    ops.append(None if ch == "r" else "r")
            yield ops


_STOPS = ((None, False), (2, False), (2, True), (4, False))


def _random_mask(rng, L, dens):
    mask = 0
    for j in range(L):
        if rng.random() < dens:
            mask |= 1 << j
    return mask


def _bufs(yor):
    """the buffer flags __init__ accepts: exactly one of them, or — with yield_on_remainder — any combination"""
    return ("bi", "bo", "none", "both") if yor else ("bi", "bo")


def _long_cases(rng, count):
    """flows longer than any constant a buffer might be given: many values between two requests; run on long flows"""
    for _ in range(count):
        op = rng.choice(("ops", "split", "run"))
        kind = rng.choice(("fc", "fr", "both") if op != "run" else ("run", "map", "fc", "fr", "both"))
        if op == "split" and kind == "both":
            kind = "fr"
        hr, reset = rng.choice(((True, True), (True, False)))
        yor = rng.random() < 0.2
        c = _base(kind, 1, False, hr, rng.randint(1, 4), rng.choice(_bufs(yor)), reset, yor)
        L = rng.randint(20, 48)
        if op == "ops":
            c.update(op="ops", n=L, mask=_random_mask(rng, L, rng.choice((0.0, 0.03))))
        elif op == "split":
            c.update(op="split", form=rng.choice(("el", "tuple", "frseq")), m=rng.choice((18, 25, 40, 1000, None)), n=L)
        else:
            c.update(op="run", n=L)
            if rng.random() < 0.3:
                c["n2"] = rng.randint(0, 7)
        yield c


_VERY_LONG = (("ops", "fr", "bi", 0), ("split", "fr", "bi", None), ("run", "fc", "bi", 0), ("run", "run", "bo", 0),
              ("ops", "fc", "bo", 0), ("split", "fc", "bo", 1500), ("run", "run", "bi", 0), ("run", "map", "yor", 0),
              ("ops", "both", "bi", 0), ("split", "fr", "bi", 4096), ("run", "fr", "bo", 0), ("run", "both", "yor", 0),
              ("ops", "fr", "bo", 0), ("split", "fr", "bo", None), ("ops", "fr", "yor", 0))


def _very_long_cases(rng, count):
    """flows of a thousand blocks and more (beyond Split's default bufsize, any plausible buffer limit, the recursion
    limit of the interpreter): run, one request after all fills (or a few in between), Split with a huge block or None.
    The element is reset after every block (results stay small).  The combinations of call form, element kind and
    buffer mode are fixed (every seed has them); block size, length and request points are drawn."""
    for i in range(count):
        op, kind, buf, m = _VERY_LONG[i % len(_VERY_LONG)]
        yor = buf == "yor"
        n = rng.choice((1, 1, 2))
        c = _base(kind, 1, False, True, n, rng.choice(_bufs(True)) if yor else buf, True, yor)
        L = rng.randint(1050 * n, 1050 * n + 300)
        if op == "ops":
            c.update(op="ops", n=L, mask=_random_mask(rng, L, rng.choice((0.0, 0.0, 0.001))))
        elif op == "split":
            c.update(op="split", form=rng.choice(("el", "tuple")), m=m, n=L)
        else:
            c.update(op="run", n=L)
        yield c


_SIBS = ("src", "seq", "fc", "fr2:2", "fr2:3", "frstop", "fcstop")


def _sib(rng, name):
    return f"{name}:{rng.randint(0, 6)}" if name in ("frstop", "fcstop") else name


def _sibx_cases(rng, count):
    """Split with other branches around the fill/request branch under test (before and after it): Source, Sequence,
    fill/compute, another FillRequest, branches that raise LenaStopFill after some values and are removed by Split while
    the flow goes on; or an inner Split of fill/request branches driven by the outer one through Split.fill/request"""
    for _ in range(count):
        kind = rng.choice(("fr", "fc"))
        k = rng.choice((1, 1, 2))
        yor = rng.random() < 0.25
        c = _base(kind, k, False, True, rng.randint(1, 5), rng.choice(_bufs(yor)), rng.random() < 0.5, yor)
        L = rng.randint(0, 12)
        c.update(op="split", form="sibx", m=rng.choice(list(range(1, 10)) + [1000, None]), n=L,
                 cb=rng.random() < 0.6)
        if rng.random() < 0.25:
            pool = ("fr2:2", "fr2:3")
            c["nest"] = True
        else:
            pool = _SIBS
        before = [_sib(rng, rng.choice(pool)) for _ in range(rng.randint(0, 2))]
        after = [_sib(rng, rng.choice(pool)) for _ in range(rng.randint(0, 2))]
        if not before and not after:
            before = [_sib(rng, rng.choice(pool))]
        c.update(before=before, after=after)
        if rng.random() < 0.3:
            c["vals"] = [rng.randrange(len(POOL)) for _ in range(max(1, L + 8))]
        if rng.random() < 0.2:
            c["names"] = True
        if rng.random() < 0.25 and not c.get("vals"):
            c["kpar"] = True
        yield c


_SEQ_KINDS = ("fr", "fc", "both")


def _outer(rng, n, reset=None):
    """the FillRequestSeq's own options (not read by its fill/request): block size equal to the adapter's half of the
    time, reset, buffer mode"""
    return {"ob": rng.choice((n, n, n, 1, 2, 3, 5)), "oreset": rng.random() < 0.5 if reset is None else reset,
            "obuf": rng.choice(("bi", "bo")), "oyor": rng.random() < 0.1}


def _seq_cases(rng, thorough):
    """FillRequestSeq objects driven through their own fill()/request(): every request schedule of flows 0..5 (thorough:
    0..7) x wrapped kind x adapter bufsize 1..3 (1..4) x buffer mode x reset x yield_on_remainder x elements before /
    after (none, functions, Run elements yielding 0..2 values per value); the sequence's own options drawn per case
    (thorough: both values of its reset for every case)"""
    for L in range(0, 8 if thorough else 6):
        for kind in _SEQ_KINDS:
            for reset in (True, False):
                for n in range(1, 5 if thorough else 4):
                    for buf in ("bi", "bo"):
                        for yor in (False, True):
                            for pre, post in ((0, 0), (1, 1), (2, 0), (0, 2)):
                                if not thorough and yor and (pre, post) != (0, 0):
                                    continue
                                for mask in range(1 << L):
                                    for oreset in ((True, False) if thorough else (None,)):
                                        c = _base(kind, 1, False, True, n, buf, reset, yor)
                                        c.update(op="seqops", inner="fr", pre=pre, post=post, n=L, mask=mask)
                                        c.update(_outer(rng, n, oreset))
                                        yield c


def _seq_random_cases(rng, count):
    """the other dimensions of a FillRequestSeq under fill/request, combined at random: longer flows, adapter bufsize
    1..5, 2 results / state-changing request / state-dependent result count, method-name keywords, wrapped
    fill/request+compute elements, a raw fill/request element in place of the adapter, re-use of the object (a second
    history, run before / after the history), no / both buffer flags (legal only with yield_on_remainder)"""
    for _ in range(count):
        kind = rng.choice(_SEQ_KINDS + ("frc",))
        k = rng.choice((1, 1, 2))
        mut = rng.random() < 0.2
        hr, reset = rng.choice(((True, True), (True, False), (False, False)))
        yor = rng.random() < 0.3
        n = rng.randint(1, 5)
        c = _base(kind, k, mut, hr, n, rng.choice(_bufs(yor)), reset, yor)
        L = rng.randint(0, 12)
        c.update(op="seqops", inner="raw" if rng.random() < 0.12 else "fr", pre=rng.choice((0, 0, 1, 2)),
                 post=rng.choice((0, 0, 1, 2)), n=L, mask=_random_mask(rng, L, rng.choice((0.1, 0.3, 0.6, 1.0))))
        # (the sequence's reset=True needs a wrapped element with a reset method: FillRequestSeq.reset() calls
        # FillRequest.reset, which is None otherwise — TypeError from run(); asked-for reset of an element that has none)
        c.update(_outer(rng, n, None if hr or c["inner"] == "raw" else False))
        if rng.random() < 0.08:
            c["obuf"] = rng.choice(("none", "both"))
        if not mut and rng.random() < 0.25:
            c["kpar"] = True
        if c["inner"] == "fr" and rng.random() < 0.2:
            c["names"] = True
        u = rng.random()
        if u < 0.3:
            n2 = rng.randint(0, 7)
            c.update(n2=n2, mask2=_random_mask(rng, n2, 0.4))
        elif u < 0.45:
            c["n0"] = rng.randint(0, 7)
        if rng.random() < 0.15:
            c["n3"] = rng.randint(0, 7)
        yield c


def _dimension_cases(rng, count):
    """the dimensions the enumerations below keep fixed, combined at random: flow values (None, equal values, pairs,
    strings, floats), number of results depending on the state, method names given by keyword, a float bufsize and
    truthy non-bool flags, results that are the live state, a second flow on the same object, elements around the adapter
    inside the Split branch, sibling branches and copy_buf"""
    for _ in range(count):
        op = rng.choice(("run", "ops", "split", "split"))
        kind = rng.choice(KINDS_RUN if op == "run" else (("fr", "fc") if op == "split" else KINDS_FILL))
        k = rng.choice((1, 1, 2))
        mut = rng.random() < 0.2 and kind != "map"
        if kind == "map":
            k = 1
        if op == "split":
            hr, reset = True, rng.random() < 0.5
        else:
            hr, reset = rng.choice(_reset_opts(kind))
        yor = rng.random() < 0.3
        buf = rng.choice(_bufs(yor))
        c = _base(kind, k, mut, hr, rng.randint(1, 5), buf, reset, yor)
        L = rng.randint(0, 12)
        c.update(op=op, n=L)
        arithmetic = kind in ("map", "frseq")
        if kind == "frseq":
            c.update(pre=rng.choice((0, 1, 2)), post=rng.choice((0, 1, 2)))
        if op == "ops":
            c["mask"] = _random_mask(rng, L, rng.choice((0.1, 0.3, 0.6)))
        if op == "split":
            c["m"] = rng.choice(list(range(1, 10)) + [1000, None])
            c["form"] = rng.choice(("el", "tuple", "frseq", "seq3", "sib", "sib"))
            if c["form"] == "seq3":
                c.update(apre=rng.choice((0, 1, 2)), apost=rng.choice((0, 1, 2)))
                arithmetic = True
            if c["form"] == "sib":
                c["cb"] = rng.random() < 0.6
        if not arithmetic and rng.random() < 0.45:
            c["vals"] = [rng.randrange(len(POOL)) for _ in range(max(1, L + 8))]
        if not mut and kind != "map" and rng.random() < 0.35:
            c["kpar"] = True
        if kind != "frseq" and rng.random() < 0.3:
            c["names"] = True
        if rng.random() < 0.15:
            c["fbuf"] = True
        if (k == 1 and not mut and not c.get("kpar") and kind not in ("map", "frseq") and rng.random() < 0.2
                and c.get("form") != "seq3" and not (buf in ("bo", "both", "none") and op in ("ops", "split"))):
            # results that are the element's live state; not with buffer_output under fill/request (ASSUMPTIONS)
            c["alias"] = True
        if rng.random() < 0.3:
            c["n2"] = rng.randint(0, 7)
        if op in ("run", "ops") and rng.random() < 0.2:
            # the object driven is a deep copy of the object built (made before the first call / between two runs)
            c["cp"] = "mid" if op == "run" and c.get("n2") is not None and rng.random() < 0.6 else "fresh"
        yield c


def _copy_cases(rng, thorough):
    """deep copies (copy.deepcopy) of adapters and sequences: every wrapped kind (FillRequestSeq among them) x reset x
    bufsize 1..3 x flags x flows 0..7; copied fresh (one run, two runs of the copy) and after a first run of the original;
    fill/request histories (every schedule of flows 0..4) on a fresh copy.  quick: a seeded sample of this scope."""
    keep = 1.0 if thorough else 0.16
    for kind in KINDS_RUN:
        for hr, reset in _reset_opts(kind):
            for n in (1, 2, 3):
                for yor in (False, True):
                    for buf in _bufs(yor):
                        for L in (0, 1, 2, 3, 5, 7):
                            for mut in ((False,) if kind == "map" else (False, True)):
                                for cp, n2 in (("fresh", None), ("fresh", 3), ("mid", 4)):
                                    if rng.random() >= keep:
                                        continue
                                    c = _base(kind, 1, mut, hr, n, buf, reset, yor)
                                    c.update(op="run", n=L, cp=cp)
                                    if n2 is not None:
                                        c["n2"] = n2
                                    if kind == "frseq":
                                        c.update(pre=rng.choice((0, 1, 2)), post=rng.choice((0, 1, 2)))
                                    yield c
    keep = 1.0 if thorough else 0.3
    for kind in KINDS_FILL:
        for hr, reset in _reset_opts(kind):
            for n in (1, 2, 3):
                for buf in ("bi", "bo"):
                    for L in range(5):
                        for mask in range(1 << L):
                            if rng.random() >= keep:
                                continue
                            c = _base(kind, 1, False, hr, n, buf, reset, False)
                            c.update(op="ops", n=L, mask=mask, cp="fresh")
                            if L % 2:
                                c["n2"] = 3
                            yield c


def gen_cases(ctx):
    """A generator (memory-lean; common.py may take only a prefix of the thorough stream when the anchored source
    changed, so the cheap, varied groups come first and the big enumeration of request schedules goes by flow length).
    thorough: the whole scope below, exhaustively, plus seeded long random schedules.
    quick (<= 60 s): the same generators with the exhaustive scopes cut to flows <= 6 (every request
    schedule, 1-result element) and seeded samples of the rest of the thorough scope."""
    thorough = ctx.tier == "thorough"
    rng = ctx.rng
    ctx.exhaustive = False   # quick samples part of the scope; thorough adds a sampled part
    ctx.notes = (["thorough: the scope of the property's quantifier (flows 0..8, bufsize 1..5, every request schedule, "
                  "every flag combination, Split bufsizes) is enumerated completely; only the schedules for flows "
                  "9..40 and the long histories with reset()/LenaStopFill are sampled"] if thorough else
                 ["quick: every request schedule of flows 0..6 (1-result element) enumerated; flows of length 7 and 8, "
                  "the 2-result / state-changing elements and the histories with reset()/LenaStopFill sampled — "
                  "the thorough tier enumerates them"])
    # --- __init__ ---------------------------------------------------------------------------
    tri = (None, True, False) if thorough else (None, True)
    for caps in itertools.product((False, True), repeat=5):
        for reset in (None, True, False):
            for bi in tri:
                for bo in tri:
                    for yor in (False, True):
                        for bs in (-1, 0, 1, 3):
                            yield {"op": "init", "caps": list(caps), "bufsize": bs, "reset": reset, "bi": bi,
                                   "bo": bo, "yor": yor}
    # --- __init__: arguments that are not bools / ints ----------------------------------------
    nb = ({"obj": 0}, {"obj": 1}, {"obj": "yes"}, {"obj": []})
    for caps in itertools.product((False, True), repeat=5):
        for extra in ({"frac": True}, {"fbuf": True}, {"run_attr": True}):
            for reset in (None, True, False):
                for yor in (False, True):
                    yield dict({"op": "init", "caps": list(caps), "bufsize": 2, "reset": reset, "bi": True, "bo": None,
                                "yor": yor}, **extra)
        for reset in nb:
            for bi, bo in ((nb[1], nb[0]), (nb[2], None), (nb[3], nb[2]), (nb[0], nb[3])):
                yield {"op": "init", "caps": list(caps), "bufsize": 3, "reset": reset, "bi": bi, "bo": bo, "yor": False}
    # --- long flows first (buffers larger than any constant in the code), then the other dimensions -----------
    for c in _long_cases(rng, 600 if thorough else 300):
        yield c
    for c in _very_long_cases(rng, 45 if thorough else 15):
        yield c
    # --- deep copies of adapters and sequences -------------------------------------------------------
    for c in _copy_cases(rng, thorough):
        yield c
    # --- Split: other branches around the branch under test -----------------------------------------
    for desc in ("src", "seq", "fc", "fr2:2", "frstop:0", "frstop:3", "fcstop:0", "fcstop:3"):
        for where in ("before", "after"):
            for n in (2, 3):
                for buf in ("bi", "bo"):
                    for m in (1, 2, 3, 5, None):
                        for L in (0, 4, 7):
                            c = _base("fr", 1, False, True, n, buf, True, False)
                            c.update(op="split", form="sibx", m=m, n=L, cb=True, before=[], after=[])
                            c[where] = [desc]
                            yield c
    for c in _sibx_cases(rng, 12000 if thorough else 2500):
        yield c
    # --- fill/request with yield_on_remainder and no buffer flag / both flags (not checked by __init__ then) -----
    for L in range(0, 8 if thorough else 6):
        for kind in KINDS_FILL:
            for hr, reset in ((True, True), (True, False), (False, False)):
                for n in range(1, 5 if thorough else 4):
                    for buf in ("none", "both"):
                        for mask in range(1 << L):
                            c = _base(kind, 1, False, hr, n, buf, reset, True)
                            c.update(op="ops", n=L, mask=mask)
                            yield c
    for kind in ("fr", "fc"):
        for reset in (True, False):
            for n in range(1, 5):
                for buf in ("none", "both"):
                    for m in list(range(1, 10)) + [1000, None]:
                        for L in (range(0, 9) if thorough else (0, 3, 5, 7, 8)):
                            c = _base(kind, 1, False, True, n, buf, reset, True)
                            c.update(op="split", form="el", m=m, n=L)
                            yield c
    for c in _dimension_cases(rng, 40000 if thorough else 9000):
        yield c
    # --- FillRequestSeq objects driven through their own fill()/request() --------------------------
    for c in _seq_random_cases(rng, 20000 if thorough else 4000):
        yield c
    for c in _seq_cases(rng, thorough):
        yield c
    # --- a Run element that does not read its whole block ------------------------------------------
    for j in (0, 1, 2, 3, None):
        for mut in (False, True):
            for hr, reset in _reset_opts("run"):
                for n in range(1, 5):
                    for yor, buf in ((False, "bi"), (False, "bo"), (True, "none")):
                        for L in range(0, 9):
                            if not thorough and (mut or (L + n) % 2):
                                continue
                            c = _base("run", 1, mut, hr, n, buf, reset, yor)
                            c.update(op="runp", n=L, j=j)
                            yield c
    # --- run --------------------------------------------------------------------------------
    for kind in KINDS_RUN:
        for k in (1, 2):
            for mut in (False, True):
                if kind == "map" and (k != 1 or mut):
                    continue
                # quick: every flow length for the plain 1-result element, four lengths for the variants
                lengths = range(0, 9) if (thorough or (k == 1 and not mut)) else (0, 4, 7, 8)
                for hr, reset in _reset_opts(kind):
                    for n in range(1, 6):
                        for yor in (False, True):
                            for buf in (("bi", "bo", "none", "both") if yor else ("bi", "bo")):
                                for L in lengths:
                                    c = _base(kind, k, mut, hr, n, buf, reset, yor)
                                    c.update(op="run", n=L)
                                    if kind == "frseq":
                                        # elements before / after the FillRequest element: none, functions, Run elements
                                        # that yield 0..2 values per value
                                        for pre, post in ((0, 0), (1, 1), (2, 0), (0, 2), (2, 2)):
                                            if (pre == 2 or post == 2) and not thorough and (k == 2 or mut):
                                                continue
                                            yield dict(c, pre=pre, post=post)
                                    else:
                                        yield c
    # --- the same adapter runs two flows --------------------------------------------------------
    for kind in KINDS_RUN:
        for mut in ((False, True) if thorough else (False,)):
            if kind == "map" and mut:
                continue
            for hr, reset in _reset_opts(kind):
                for n in range(1, 4):
                    for yor in (False, True):
                        for buf in (("bi", "bo", "none") if yor else ("bi", "bo")):
                            for L in (0, n, 2 * n, n + 1):
                                for n2 in (n, n + 1):
                                    if not thorough and (L + n2 + n) % 2:
                                        continue
                                    c = _base(kind, 1, mut, hr, n, buf, reset, yor)
                                    c.update(op="run", n=L, n2=n2)
                                    if kind == "frseq":
                                        c.update(pre=0, post=0)
                                    yield c
    # --- _run_fill_compute / Split with an element that stops accepting values -------------------
    for kind in ("fc", "fr"):
        for reset in (True, False):
            for n in range(1, 5):
                for buf in ("bi", "bo"):
                    for yor in (False, True):
                        for L in range(0, 9):
                            for stop in (1, 3, 5):
                                for stores in (False, True):
                                    c = _base(kind, 1, False, True, n, buf, reset, yor)
                                    c.update(stop=stop, stores=stores, n=L)
                                    if buf == "bi" and (thorough or (L + stop) % 2 == 0):
                                        yield dict(c, op="runx")
                                    for m in (1, 2, 3, 4, 5, 7, None):
                                        if thorough or rng.random() < 0.15:
                                            yield dict(c, op="splitx", m=m)
    # --- histories with FillRequest.reset() and LenaStopFill -----------------------------------
    xconfigs = [(kind, k, reset, n, buf, yor) for kind in ("fc", "fr") for k in (1, 2) for reset in (True, False)
                for n in range(1, 5) for buf in ("bi", "bo") for yor in (False, True)]

    def xcase(cfg, ops, stop, stores, ev="call"):
        kind, k, reset, n, buf, yor = cfg
        c = _base(kind, k, False, True, n, buf, reset, yor)
        c.update(op="opsx", ops=ops, stop=stop, stores=stores, ev=ev, n=sum(1 for o in ops if isinstance(o, int)))
        return c

    def random_history(lo, hi):
        ops, j = [], 0
        for _ in range(rng.randint(lo, hi)):
            u = rng.random()
            if u < 0.6:
                ops.append(j)
                j += 1
            else:
                ops.append(None if u < 0.85 else "r")
        return ops

    # (with yield_on_remainder also without a buffer flag / with both)
    xconfigs += [(kind, 1, reset, n, buf, True) for kind in ("fc", "fr") for reset in (True, False)
                 for n in range(1, 4) for buf in ("none", "both")]
    hist = list(_histories(5 if thorough else 3))
    for cfg in xconfigs:
        if cfg[1] == 2 and not thorough:
            continue
        for ops in hist:
            if cfg[1] == 2 and len(ops) > 4:
                continue
            for stop, stores in _STOPS:
                if stop is not None and stop >= sum(1 for o in ops if isinstance(o, int)):
                    continue
                yield xcase(cfg, ops, stop, stores)
    for _ in range(20000 if thorough else 6000):
        stop, stores = rng.choice(_STOPS)
        ops = random_history(4, 14)
        if rng.random() < 0.5:
            ops.append(None)
        yield xcase(rng.choice(xconfigs), ops, stop, stores)
    # the adapter that keeps generator objects (Python reference), against Eval.atRequest of the model
    for _ in range(20000 if thorough else 3000):
        kind, k, reset, n, buf, yor = rng.choice(xconfigs)
        c = xcase((kind, k, reset, n, "bo" if rng.random() < 0.8 else buf, yor), random_history(3, 14) + [None], None, False,
                  ev="request")
        c["mut"] = rng.random() < 0.3
        yield c
    # --- Split around a FillRequest branch --------------------------------------------------
    for form in ("el", "tuple", "frseq"):
        for kind in ("fr", "fc"):
            for k in (1, 2):
                for reset in (True, False):
                    for n in range(1, 6):
                        for buf in ("bi", "bo"):
                            for yor in (False, True):
                                for m in list(range(1, 10)) + [1000, None]:
                                    for L in range(0, 9):
                                        if not thorough and (k == 2 or yor) and (L not in (0, 5, 8) or form != "el"):
                                            continue
                                        if not thorough and form != "el" and L in (1, 2, 4, 6):
                                            continue
                                        c = _base(kind, k, False, True, n, buf, reset, yor)
                                        c.update(op="split", form=form, m=m, n=L)
                                        yield c
    # --- fill/request: every subset of request points, by flow length ---------------------------
    # thorough: flows 0..8, all element variants.  quick: flows 0..6 for the 1-result element; the rest of the
    # thorough scope (flows of length 7, 8, 2-result / state-changing request) is sampled below.
    rest = []      # the part of the thorough scope that quick only samples
    for L in range(0, 9):
        for kind in KINDS_FILL:
            for k, mut in ((1, False), (2, False), (1, True), (2, True)):
                plain = k == 1 and not mut
                for hr, reset in ((True, True), (True, False), (False, False)):
                    if not hr and not plain:
                        continue
                    for n in range(1, 6):
                        for buf in ("bi", "bo"):
                            for yor in (False, True):
                                if (thorough and (plain or L <= 7)) or (plain and L <= 6):
                                    for mask in range(1 << L):
                                        c = _base(kind, k, mut, hr, n, buf, reset, yor)
                                        c.update(op="ops", n=L, mask=mask)
                                        yield c
                                elif L >= 3:
                                    rest.append((kind, k, mut, hr, reset, n, buf, yor, L))
    # (thorough: `rest` = flows of length 8 for the 2-result / state-changing elements)
    if rest:
        for _ in range(20000 if thorough else 9000):
            kind, k, mut, hr, reset, n, buf, yor, L = rng.choice(rest)
            c = _base(kind, k, mut, hr, n, buf, reset, yor)
            c.update(op="ops", n=L, mask=rng.randrange(1 << L))
            yield c
    if thorough:
        for _ in range(60000):
            kind = rng.choice(KINDS_FILL)
            hr, reset = rng.choice(((True, True), (True, False), (False, False)))
            L = rng.randint(9, 40)
            c = _base(kind, rng.choice((1, 2)), rng.random() < 0.3, hr, rng.randint(1, 9), rng.choice(("bi", "bo")),
                      reset, rng.random() < 0.3)
            dens = rng.choice((0.05, 0.2, 0.5))
            mask = 0
            for j in range(L):
                if rng.random() < dens:
                    mask |= 1 << j
            c.update(op="ops", n=L, mask=mask)
            yield c


def nontrivial(case, res):
    if "skipped" in res:
        return False
    if "hang" in res:
        return True
    if "e" in res:
        return True
    if case["op"] == "init":
        return False
    if case["op"] in ("ops", "opsx", "seqops"):
        return any(t[0] for t in res.get("t", [])) or any(t[1] is True for t in res.get("t", []))
    return bool(res.get("r")) or bool(res.get("raised"))


def classify(case, res):
    op = case["op"]
    if "skipped" in res:
        return ["skipped-after-hangs"]
    if op == "init":
        return ["init:" + res.get("e", "ok")]
    labels = [f"{op}:{case['kind']}", f"{op}:{case['buf']}:reset={case['reset']}:yor={case['yor']}",
              f"{op}:bufsize={case['bufsize']}",
              f"{op}:len={case['n'] if case['n'] <= 12 else ('13..48' if case['n'] <= 48 else '>1000')}"]
    if op in ("opsx", "splitx", "runx"):
        labels.append(f"{op}:stop={'no' if case.get('stop') is None else 'yes'}")
        if op == "opsx":
            labels.append(f"opsx:ev={case.get('ev')}")
            labels.append("opsx:" + ("with-reset()" if "r" in case["ops"] else "no-reset()"))
            if "t" in res and any(t[1] for t in res["t"]):
                labels.append("opsx:LenaStopFill-" + ("from-request" if any(t[1] and t[0] is not None for t in res["t"])
                                                      else "from-fill"))
        elif res.get("raised"):
            labels.append(f"{op}:LenaStopFill-escaped")
    if op == "seqops":
        labels.append(f"seqops:inner={case.get('inner', 'fr')}:pre={_code(case.get('pre'))}:post={_code(case.get('post'))}")
        labels.append(f"seqops:outer:reset={case['oreset']}:{case['obuf']}:yor={case['oyor']}:"
                      + ("bufsize=inner" if case["ob"] == case["bufsize"] else "bufsize!=inner"))
        labels.append("seqops:passes=" + "+".join(p for p, key in (("run", "n0"), ("ops", "n"), ("ops", "n2"), ("run", "n3"))
                                                  if case.get(key) is not None))
        misaligned = any((case["mask"] >> j) & 1 and j % case["bufsize"] for j in range(case["n"]))
        labels.append("seqops:" + ("misaligned" if misaligned else "aligned"))
    if op == "run" and case["kind"] == "frseq":
        labels.append(f"run:frseq:pre={_code(case.get('pre'))}:post={_code(case.get('post'))}")
    if op == "ops":
        labels.append(f"ops:requests={bin(case['mask']).count('1') + 1}")
        misaligned = any((case["mask"] >> j) & 1 and j % case["bufsize"] for j in range(case["n"]))
        labels.append("ops:" + ("misaligned" if misaligned else "aligned"))
    if op == "split" and case.get("form") == "sibx":
        labels.append("split:sibx:" + ("nested:" if case.get("nest") else "")
                      + ",".join(d.partition(":")[0] for d in case.get("before", [])) + "|"
                      + ",".join(d.partition(":")[0] for d in case.get("after", [])))
    if case["n"] > 100:
        labels.append(f"{op}:len>1000")
    if op == "split":
        labels.append(f"split:m={case['m']}:{case['form']}")
        if case["m"] is not None:
            labels.append("split:" + ("dividing" if case["m"] % case["bufsize"] == 0 else "not-dividing"))
    if op in ("ops", "opsx", "seqops"):
        # the private counters the property names as state anchors, read defensively next to the public observation
        labels.append(f"anchors:{op}:_n_count/_buffer_*:" + str(res.get("anchors") or "not-read"))
    if op == "split" and isinstance(res.get("types"), dict):
        priv = res["types"].get("priv")
        labels.append("split:types-anchor:" + ("absent" if priv is None else
                                               "fill_request-found" if "fill_request" in priv else "differ"))
    if "e" in res:
        labels.append(f"{op}:error:{res['e']}")
    return labels


def signature(case, failure):
    """the configuration that fails (not the flow length / request schedule / sizes: the replay file holds the
    concrete shrunk input), so that one defect is reported a few times, not once per failing schedule"""
    if case["op"] == "init":
        return "init:" + ",".join(f"{k}={case[k]}" for k in sorted(case) if k != "op")
    if case["op"] == "runp":
        # (the finding fixed by dbe92ef, notes/C16_defect_1): a Run element that reads only part of its block
        return "runp:run-element-reads-part-of-its-block"
    extra = ""
    if case["op"] == "seqops":
        extra = f",inner={case.get('inner', 'fr')},outer-reset={case['oreset']},outer-yor={case['oyor']}"
    if case["op"] in ("opsx", "splitx", "runx"):
        extra = f",stop={case.get('stop') is not None},ev={case.get('ev', 'call')}"
    return f"{case['op']}:kind={case['kind']},buf={case.get('buf')},reset={case['reset']},yor={case['yor']}{extra}"


def shrink(case):
    op = case["op"]
    if op == "init":
        return
    if op == "opsx":
        ops = case["ops"]
        for i in range(len(ops)):
            # drop one call; renumber the fills
            rest, j = [], 0
            for o in ops[:i] + ops[i + 1:]:
                if isinstance(o, int):
                    rest.append(j)
                    j += 1
                else:
                    rest.append(o)
            yield dict(case, ops=rest, n=j)
        if case["bufsize"] > 1:
            yield dict(case, bufsize=case["bufsize"] - 1)
        if case["k"] > 1:
            yield dict(case, k=1)
        if case.get("stop") is not None:
            yield dict(case, stop=None, stores=False)
            if case["stop"] > 0:
                yield dict(case, stop=case["stop"] - 1)
        return
    if op == "split" and case.get("form") == "sibx":
        for where in ("before", "after"):
            for i in range(len(case.get(where, []))):
                yield dict(case, **{where: case[where][:i] + case[where][i + 1:]})
        if case.get("nest"):
            yield dict(case, nest=False)
        if not case.get("cb", True):
            yield dict(case, cb=True)
    if op == "seqops":
        for key in ("n0", "n3"):
            if case.get(key) is not None:
                yield {k: v for k, v in case.items() if k != key}
                if case[key] > 0:
                    yield dict(case, **{key: case[key] - 1})
        if case.get("n2") is not None:
            yield {k: v for k, v in case.items() if k not in ("n2", "mask2")}
            if case["n2"] > 0:
                yield dict(case, n2=case["n2"] - 1, mask2=case.get("mask2", 0) & ((1 << (case["n2"] - 1)) - 1))
            for j in range(case["n2"]):
                if (case.get("mask2", 0) >> j) & 1:
                    yield dict(case, mask2=case["mask2"] & ~(1 << j))
        for key in ("pre", "post"):
            if case.get(key):
                yield dict(case, **{key: 0})
        if case.get("kpar"):
            yield dict(case, kpar=False)
        if case.get("names"):
            yield dict(case, names=False)
        if case["ob"] != case["bufsize"]:
            yield dict(case, ob=case["bufsize"])
        if case["obuf"] != "bi" and not (case["obuf"] in ("none", "both") and not case["oyor"]):
            yield dict(case, obuf="bi")
        if case["oyor"] and case["obuf"] in ("bi", "bo"):
            yield dict(case, oyor=False)
    if case["n"] > 16:
        for nn in (case["n"] // 2, case["n"] - case["n"] // 8):
            c = dict(case, n=nn)
            if op in ("ops", "seqops"):
                c["mask"] = case["mask"] & ((1 << nn) - 1)
            yield c
    if case["n"] > 0:
        c = dict(case, n=case["n"] - 1)
        if op in ("ops", "seqops"):
            c["mask"] = case["mask"] & ((1 << c["n"]) - 1)
        yield c
    if op in ("ops", "seqops"):
        for j in range(case["n"]):
            if (case["mask"] >> j) & 1:
                yield dict(case, mask=case["mask"] & ~(1 << j))
    if case["bufsize"] > 1:
        yield dict(case, bufsize=case["bufsize"] - 1)
    if case["k"] > 1:
        yield dict(case, k=1)
    if case["mut"]:
        yield dict(case, mut=False)
    if op == "split" and isinstance(case["m"], int) and case["m"] > 1:
        yield dict(case, m=case["m"] - 1)


# ---- MANIFEST texts ------------------------------------------------------------------------
LEVEL_TEXT = ("Lean 4 theorems about a hand-transcribed model of FillRequest (__init__, fill, request, reset, the run loops), "
              "FillRequestSeq and the schedule of calls Split makes on a fill/request branch, for an abstract wrapped element "
              "with value semantics, every block size, flow and history of fill/request calls (no bound). PROVED: run equals "
              "the block specification for fill/compute and fill/request elements and for every Run element, however little "
              "of its block it reads (since fix dbe92ef of /repo, notes/C16_defect_1; for the code before it the clause is "
              "proved false on a witness); run works block by block also in time: its events are, block after "
              "block, the values of the block being read and then its results being yielded — the results of block j appear "
              "when exactly (j+1)n values have been taken from the flow, every value is read once (reading the whole flow "
              "first gives the same results and is proved to violate this); any request schedule closed by a "
              "request yields what run yields, also as driven by Split with any block size (for elements that also have run: "
              "under the hypothesis that their run is fill-then-request; proved negation without it); every value is "
              "accounted exactly once (all flags); with yield_on_remainder the results are the blocks of each segment; right "
              "after request() nothing is buffered, between requests exactly the values filled since are buffered in whole "
              "blocks — 'at most one block' only when at most n values are filled between two requests (the unrestricted "
              "clause is false: proved negation). NOT PROVED: 'every call returns in finite time' (only: the transcribed "
              "loops are total given terminating element methods; the real code is watched by a step budget and a wall clock "
              "on the generated cases). Also modelled and proved: elements that raise LenaStopFill, FillRequest.reset() inside "
              "a history; a FillRequestSeq driven through its own fill()/request() (any elements before/after, ANY values of "
              "its own bufsize/reset/flags): its requests yield what the contained adapter yields for the pre-processed "
              "fills, hence schedule independence, accounting and the buffer bound carry over (and a request() that resets, "
              "as the source's 'todo' suggests, is proved to lose values). The model is tied to /repo by a correspondence check on generated cases (every subset of request "
              "points for flows up to 8 in thorough / 6 in quick, all flags, bufsize 1..5, Split block sizes, plus random "
              "combinations of flow values, state-dependent result counts, method-name keywords, non-int arguments, sibling "
              "branches of every type around the branch (also stopping ones, also an inner Split), re-use of adapter and Split "
              "objects, flows of up to 2400 values, the moment each result of run is yielded) and a block-by-block Python "
              "reference oracle.")
LEVEL_NOTE = ("Trusted: Lean kernel (+ propext, Classical.choice, Quot.sound); the hand transcription, validated only on the "
              "generated cases; iterator and generator semantics as transcribed; the JSON protocol. Not verified: real "
              "termination (watchdogs only); results with reference semantics (assumed away, notes/C16_judgement_1); "
              "Split.run itself (C03). 32 property theorems + 21 supporting ones (AUX_THEOREMS: constructor contract, glue "
              "between model functions, closed witnesses, the generator-keeping adapter variant).")
TECHNIQUE = "Lean 4 proof over hand-written model + exhaustive-in-scope correspondence check"
DESIGN_REF = "DESIGN.md section 3, C16"
