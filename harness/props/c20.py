"""C20 — advertised names exist, work with only their subpackage imported, and resolve.

Tie to the source: TRANSLATOR.  `harness/extract_facts.py` (Python ast + symtable) regenerates the facts of the
working tree (`lean/LenaModel/Gen/C20Facts.lean`) in `pre_build`, on every run; the Lean kernel re-checks the
instance theorem `Lena.C20.current_tree_resolves` against them, the general theorems of `Props/C20.lean` hold for
all facts.  Model: `lean/LenaModel/Model/C20.lean` (an interpreter for imports, namespaces and name resolution).

Real code / oracle: `harness/c20_probe.py` runs in *fresh interpreters* (one per sub-package, importing only it, and
one importing all of them): import, star import, `__all__`, `sys.modules`, every module namespace, and for every
function the global names and attribute chains its bytecode loads, resolved against the real module objects; then
every public name is exercised on small inputs with only its own sub-package imported and with the whole framework
imported, and the outcomes are compared.
"""
import atexit
import concurrent.futures
import fcntl
import json
import os
import re
import subprocess
import sys
from pathlib import Path

from harness import extract_facts

PID = "C20"
TITLE = "Advertised names exist, work with only their subpackage imported, and resolve"

VERIF = Path(__file__).resolve().parent.parent.parent
LEAN_DIR = VERIF / "lean"
REPO = Path(os.environ.get("LENA_REPO", "/repo"))
# a tree other than /repo (mutation runs, seeded changes) gets its own generated Lean files, so that the build
# products of the committed facts stay valid; they are removed at exit
ALT = REPO.resolve() != Path("/repo").resolve()
GEN_REL = "LenaModel/Gen/C20FactsAlt.lean" if ALT else "LenaModel/Gen/C20Facts.lean"
INSTANCE_REL = "LenaModel/Gen/C20InstanceAlt.lean" if ALT else "LenaModel/Props/C20Instance.lean"
DRIVER = ".lake/c20alt/C20DriverAlt.lean" if ALT else "drivers/C20.lean"

LEAN_MODULES = ["LenaModel.Props.C20", INSTANCE_REL[:-5].replace("/", ".")]
LEAN_SOURCES = ["LenaModel/Model/C20.lean", "LenaModel/Lemmas/C20.lean", "LenaModel/Props/C20.lean", INSTANCE_REL, GEN_REL]
# the theorems that carry the property
THEOREMS = [
    # clause 2a/2b (negative half), for all facts and all environments: no entry point followed by any sequence of calls
    # reaches an unresolved name / a missing attribute of a lena module; a rejection is a real failing run
    "Lena.C20.resolver_sound",
    "Lena.C20.resolver_sound_envs",
    "Lena.C20.resolver_alarm_is_real",
    "Lena.C20.explore_failed_real",
    "Lena.C20.call_without_import_keeps_state",
    # clause 1a: advertised names exist, star imports work
    "Lena.C20.exported_of_resolvesAll",
    "Lena.C20.exported_envs",
    # anchor mechanism 2: lena.X is an attribute of lena only after somebody imported it; sys.modules; import closure
    "Lena.C20.module_value_is_imported",
    "Lena.C20.importMod_stable",
    "Lena.C20.sys_modules_grow",
    "Lena.C20.importMod_within",
    "Lena.C20.loaded_within_closure",
    # clause 2b (positive half) and anchor mechanism 4, as far as the facts can say it
    "Lena.C20.exceptions_of_ok",
    # the partial statements of the clauses kept as `_full` definitions (behaves_same_full,
    # invalid_arguments_reported_full; no_unbound_local_full has no obligation: its reads are listed in the evidence)
    "Lena.C20.behaves_same_partial",
    # clause 1b as far as names go: every function takes the same handlers for undefined-name failures (try/except,
    # hasattr, getattr with a default) with only its own sub-package imported as after the whole framework was imported
    "Lena.C20.handlers_order_independent",
    "Lena.C20.handlers_order_independent_envs",
    "Lena.C20.callFn_eq_traced",
    # instance: the current working tree, every environment (re-checked by the kernel on every run)
    "Lena.C20.current_tree_resolves",
    "Lena.C20.current_tree_safe",
    "Lena.C20.current_order_independent",
    "Lena.C20.current_handlers_order_independent",
    "Lena.C20.all_exported",
    "Lena.C20.current_closures_ok",
    "Lena.C20.current_loaded_within_closure",
    "Lena.C20.current_exceptions_ok",
    "Lena.C20.lena_exceptions_derive",
    "Lena.C20.current_raises_documented",
    # clause 2a for locals: reads of a local that is unbound on every path that reaches them (after `except .. as`,
    # after `del`, before any binding) -- UnboundLocalError is a NameError
    "Lena.C20.dead_loads_ok_iff",
    "Lena.C20.local_name_errors_exact",
    "Lena.C20.no_local_name_error",
    "Lena.C20.current_no_dead_local_loads",
    "Lena.C20.current_no_local_name_error",
]
# definitional unfoldings that pin the transcription, corollaries, glue and lemmas about the state encoding: audited
# like the others, not counted as obligations of the property
AUX_THEOREMS = [
    "Lena.C20.execEvs_step",
    "Lena.C20.load_resolves_iff",
    "Lena.C20.lookupScope_isSome_iff",
    "Lena.C20.walk_none_iff",
    "Lena.C20.attr_resolves_iff",
    "Lena.C20.uncaught_is_failure",
    "Lena.C20.ext_step",
    "Lena.C20.try_handler_catches",
    "Lena.C20.try_else_step",
    "Lena.C20.traceCatch_spec",
    "Lena.C20.execEvsT_fst",
    "Lena.C20.execEvsT_prefix",
    "Lena.C20.execEvsT_no_handler",
    "Lena.C20.callCaught_nil",
    "Lena.C20.errsBeq_iff",
    "Lena.C20.raising_skips",
    "Lena.C20.import_done_noop",
    "Lena.C20.gbind_binds",
    "Lena.C20.import_ok_of_resolvesAll",
    "Lena.C20.not_imported_not_bound",
    "Lena.C20.resolver_alarm_envs",
    "Lena.C20.call_keeps_imported",
    "Lena.C20.loaded_after_import",
    "Lena.C20.derivesB_sound",
    # about the informational list of possibly-unbound local reads (no longer an obligation: see ASSUMPTIONS)
    "Lena.C20.locals_audited_partial",
    "Lena.C20.State.get_set_same",
    "Lena.C20.State.get_set_other",
    "Lena.C20.State.statusOf_setStatus_same",
    "Lena.C20.State.statusOf_setStatus_other",
    "Lena.C20.State.get_clearRow",
]
TRUSTED = [
    "Lean 4.33.0 kernel; axioms limited to propext, Classical.choice, Quot.sound (audited by #print axioms on every run)",
    "the translator harness/extract_facts.py (Python ast + CPython's own symtable + compile -> LenaModel/Gen/C20Facts.lean), "
    "validated on every run against fresh interpreters: predicted sys.modules, every module namespace (names and "
    "module/non-module kind), the function inventory, per function the set of global names read (must equal the "
    "bytecode's), node-count coverage against an independent ast.walk, and the per-function verdicts",
    "the abstract import/name-resolution semantics of Model/C20.lean (sys.modules, partially initialised modules, setattr of "
    "a submodule on its package, IMPORT_FROM fall-back, LEGB with builtins, try/except of ImportError/NameError/"
    "AttributeError), validated likewise and on the self-test package harness/c20_zoo.  The general theorems are about this "
    "interpreter: `Safe` is defined through the same `callFn` the check evaluates, so the adequacy of the semantics for "
    "Python rests on the correspondence run, not on the theorems",
    "the bytecode analyser harness/c20_probe.py (analyse / reachable / cell_states / guard_ranges / split_guarded / "
    "raised_classes / attribute_probes / import_state_tests, ~750 lines): it IS the oracle of the ~5 900 function cases "
    "-- a second static analysis, independent of the translator (bytecode and runtime objects instead of ast; the "
    "handler structure, hasattr/getattr/sys.modules questions and raise statements are read from the ast there too), "
    "with the same abstraction: ordinary locals are invisible, all loads at once; it is trusted not to miss what it "
    "claims to check; watch_handlers (sys.monitoring) and describe (module state) observe the real import",
    "CPython 3.12 (interpreter-version tests are decided for it; Python-2 standard-library modules such as "
    "future_builtins are never importable); sys.platform / os.name tests are NOT decided statically: names bound under "
    "them are assumed bound and verified only on the platform the check runs on; which optional third-party modules are "
    "installed is not assumed: it is the environment parameter the theorems quantify over",
    "the allow-list AUDITED_MAYBE_UNBOUND (extract_facts.py): 10 reads of locals that CPython cannot prove bound, each "
    "looked at by a person, with the reason -- informational only: reads outside it are listed in the evidence, not judged",
    "JSON line protocol (harness/props/c20.py, drivers/C20.lean)",
]
ASSUMPTIONS = [
    "a call executes every load of the function body in source order (all code paths at once), except that a failure "
    "inside a `try` BODY whose handler catches it (NameError / AttributeError / ImportError / Exception / bare) runs the "
    "handler instead (the rest of the body and the `else:` part are skipped); the `else:` part is not guarded by the "
    "handlers of its own `try`; a handler that contains a `raise` statement does NOT make a NameError / AttributeError "
    "harmless (the call still fails because of the undefined name, whatever class is raised in the end: read as "
    "'fail by referring to a name that is not defined'); `except Exception: log(); return default` around a misspelt "
    "name is accepted (nothing fails) unless it makes the two interpreters differ; imports inside conditional blocks "
    "are not assumed afterwards",
    "which locals are followed: locals bound only by import statements, locals bound only by `x = name.a.b` (aliases of "
    "modules), closure cells.  ORDINARY LOCALS: only the CERTAIN case is a verdict -- a read (or del) of a local that is "
    "unbound on EVERY path from the function's entry to the read: after the end of `except E as x` (Python 3 deletes x "
    "there), after `del x`, or before anything has bound it (definite-UNassignment analysis, twice and independently: "
    "on the source by the translator -> DeadLoad facts -> deadLoadsOk / current_no_dead_local_loads, and on the bytecode "
    "by the probe, data-flow over jumps and the exception table; the two lists are compared per function).  Such a "
    "read raises UnboundLocalError whenever it runs; that the line is reachable at all is assumed (for the handler "
    "name of Cache.drop_cache the behaviour cases reach it: a directory stands in the place of the cache file).  A "
    "CONDITIONALLY bound local is never a verdict: an UnboundLocalError is then reported only when a behaviour "
    "case exhibits it (a concrete execution).  CPython's own flag (LOAD_FAST_CHECK: a read the compiler cannot prove "
    "bound) says 'cannot prove', not 'can be unbound': such reads are translated into facts (UnboundFact, compared with "
    "the bytecode) and those outside the allow-list of reads a person looked at are LISTED IN THE EVIDENCE "
    "(unaudited_maybe_unbound_reads), never a verdict and no proof obligation -- a harmless rename or a new, perfectly "
    "fine conditionally-bound local must not alarm (localsOk / locals_audited_partial remain as auxiliary definitions; "
    "the instance current_locals_audited was removed); the allow-list matches by name, or by count when all the "
    "possibly-unbound locals of a function have been renamed; a lena module stored in an "
    "attribute, a container or passed as an argument (self._m = lena.flow) becomes opaque for model and oracle alike",
    "module level: names bound on some path only of an if/loop/match whose outcome is not decided statically are assumed "
    "bound (none in the current tree; listed per module in the facts, counted in the evidence); the fresh interpreter "
    "shows whether they exist and the bytecode oracle finds every function that loads one that does not",
    "functions called DURING the import of their own module (module-level `x = f()`, decorators, the stub factory in "
    "lena/output/__init__.py) are not interpreted at that moment (Callable requires a fully imported module): a body that "
    "reads a global defined later in the file is found only dynamically (the real import fails, the entry case reports it)",
    "every entry point is `import lena.X` followed by `from lena.X import *` in a region: the star import must work and "
    "the advertised names must exist, but the state the calls start from is the one after the plain import",
    "a call that ends with the ImportError of an absent third-party module has ended in the documented way; the loads "
    "after that import are checked in the environment in which the module is present",
    "names are created at module level by the statements the translator sees: globals()[computed key] = ... (flow/zip.py) "
    "can only add opaque bindings and is ignored; exec/eval/__import__/vars()/locals() are noted; module __getattr__ "
    "(PEP 562), setattr(module, ...), importlib.import_module, sys.modules[...] = ..., module.__dict__[...] are not "
    "modelled (none in the tree: they would show up as a namespace disagreement); the Python-2 branches are outside",
    "objects that are not lena modules are opaque: attributes of classes and instances are not checked (the statement "
    "speaks of AttributeError on a lena module); class-body reads of a name that the class body also assigns are skipped; "
    "lena.variables.abs / Cm exist and raise the documented LenaAttributeError identically in both interpreters: "
    "outside the statement",
    "clause 1b (same behaviour with only the own sub-package imported) and the positive half of clause 2b (invalid "
    "arguments reported with LenaException subclasses) have NO behaviour model: they are the definitions "
    "behaves_same_full / invalid_arguments_reported_full in Props/C20.lean, not proved.  What IS checked for 1b, for every "
    "function of every module `import lena.X` loads (statically, whether or not the behaviour palette reaches it): "
    "(a) [model + theorem handlers_order_independent + bytecode] the undefined-name failures that the function's own "
    "handlers swallow -- try/except, hasattr(m, 'lit'), getattr(m, 'lit', default) on a lena module -- are the same with "
    "only lena.X imported as after the whole framework was imported (a handler / an `if` branch that imports is the "
    "lazy-import idiom and is exempt); (b) [fresh interpreters only, no model] `'lena.x' in sys.modules` / "
    "sys.modules.get('lena.x') / sys.modules['lena.x'] with a literal name have the same answer; (c) [fresh "
    "interpreters only] the handlers of import-time code that catch an undefined-name failure while the modules of "
    "lena.X are imported (sys.monitoring EXCEPTION_HANDLED) are the same; (d) [fresh interpreters only] every global "
    "of those modules that some function of its module reads is bound to the same thing (None / number / string by "
    "value, functions / classes / modules by qualified name, containers by type, length and their elements one level "
    "deep) -- a global that another sub-package's import rebinds or appends to is import-order-dependent state.  "
    "(a)-(d) read 'behaves the same' as 'takes the same paths as far as they depend on what has been imported': a "
    "function that takes a handler in one interpreter only but returns the same either way (an isinstance test "
    "against a class of a sub-package that is not imported, where no instance can exist) is reported although the "
    "clause holds -- none in the tree; the lazy-import forms are exempt.  NOT "
    "detected on paths the palette does not reach: import-order questions asked in other ways (vars(lena), dir(), "
    "computed attribute names, importlib, sys.modules with a computed key, a module passed through a local / an "
    "attribute), state kept deeper than one level or in class attributes, and any difference that is not about what "
    "has been imported.  For 2b what is proved is about `raise` statements (exceptions_of_ok), including `raise v` "
    "where the local v is bound only by `v = X(...)`: builtin exceptions raised by Python itself for invalid arguments "
    "(TypeError for a wrong call, KeyError of a dict) are observed by the probe and NOT judged",
    "judgement of the adversary round (notes/adversary_C20.md): all nine candidates are inside the statement -- a "
    "swallowed AttributeError on a lena module that exists only in one of the two interpreters (1, 4), a read in the "
    "`else:` part of a try (2), a NameError behind `except Exception: ... raise` (3), a circular-import guard at "
    "module level whose outcome depends on the import order (5), getattr(lena, 'math', None) / 'lena.math' in "
    "sys.modules (6, 9), a builtin ValueError raised through a local variable (7), a module global of lena.context "
    "rebound by the import of lena.math (8)",
    "closure cells are checked at the end of the statement that creates the inner function (the earliest call); reads "
    "in comprehensions of the owner itself are not checked",
]
RULE = ("translator coverage is asserted on every run (every Name/Attribute/import/function node of the source accounted "
        "for, against an independent ast.walk count; per function the set of global names read must equal the bytecode's); "
        "a self-test package (harness/c20_zoo: every construct incl. call-time global writes/deletes, closures, deep "
        "chains, an unimportable package, deliberate violations) goes through the same translator, Lean definitions and "
        "fresh interpreters and must agree; "
        "for every environment (every subset of the third-party modules that lena's import-time code imports -- here "
        "jinja2 present / absent, produced in fresh interpreters with sys.modules[name] = None): "
        "exhaustive: every entry point (each of the 9 sub-packages alone, and all together) x every function/method/lambda "
        "of every module that entry loads (one case each: bytecode verdict vs model verdict), one case per entry for "
        "import / star import / __all__ / sys.modules / all module namespaces / import-time handlers / module state "
        "(the last two compared between `only lena.X` and `all`), per function the failures its handlers swallow and "
        "its sys.modules questions (compared likewise, and with the model's trace), and one behaviour case per public name "
        "(own sub-package only vs whole framework, ~35 argument tuples and the element methods on 9 values / 5 flows). "
        "thorough adds seeded random argument tuples. Non-trivial: a function case whose body loads at least one global, an "
        "entry case, a behaviour case in which at least one call returned.")
CASE_TIMEOUT = 30

_PY = sys.executable
_PROBE = str(VERIF / "harness" / "c20_probe.py")
_state = {"facts": None, "lock": None, "static": {}, "behaviour": {}, "random": None, "error": None, "greads": None}


# ----------------------------------------------------------------------------------------------------------
# facts / generated Lean files

ZOO = VERIF / "harness" / "c20_zoo"      # the self-test package (every construct the translator knows; not lena)
TREES = {"repo": REPO, "zoo": ZOO}


def _facts(tree="repo"):
    if tree == "repo":
        if _state["facts"] is None:
            _state["facts"] = extract_facts.extract(str(REPO))
            _state["counts_repo"] = _count_source(_state["facts"], REPO)   # at the same moment (the tree may change)
        return _state["facts"]
    if _state.get("zoo_facts") is None:
        _state["zoo_facts"] = extract_facts.extract(str(ZOO))
        _state["counts_zoo"] = _count_source(_state["zoo_facts"], ZOO)
    return _state["zoo_facts"]


def _tree_payload():
    """the facts of the self-test package as the driver decodes them"""
    if _state.get("zoo_payload") is None:
        f = _facts("zoo")
        mods = [{"name_id": m["name_id"], "parent": m["parent"], "short_id": m["short_id"], "all_ids": m["all_ids"],
                 "all_dynamic": bool(m.get("all_dynamic")), "evs": m["evs"], "funcs": [{"name_id": fn["name_id"], "line": fn["line"], "evs": fn["evs"]}
                                            for fn in m["funcs"]]} for m in f["modules"]]
        _state["zoo_payload"] = {"facts": {"modules": mods, "entries": f["entries"], "n_builtins": f["n_builtins"],
                                           "private": f["private"], "n_bindable": f["n_bindable"],
                                           "slot_bits": f["slot_bits"], "venv_env": f["venv_env"], "envs": f["envs"],
                                           "names": f["names"], "ext": f["ext"], "classes": f["classes"],
                                           "exc_root": f["exc_root"], "raises": f["raises"],
                                           "maybe_unbound": f["maybe_unbound"],
                                           "dead_loads": f.get("dead_loads", [])}}
    return _state["zoo_payload"]


def _fn_greads(tree="repo"):
    """(module, qualified name, line) -> the global names the translator's events of that function read"""
    if tree != "repo":
        return _greads_of(_facts(tree))
    if _state.get("greads") is None:
        _state["greads"] = _greads_of(_facts())
    return _state["greads"]


def _greads_of(facts):
    names = facts["names"]
    tab = {}
    for m in facts["modules"]:
        for f in m["funcs"]:
            reads = {names[e[1]] for e in f["evs"] if e[0] in ("load", "attr")} | \
                {names[e[2]] for e in f["evs"] if e[0] == "alias"}
            tab[(m["name"], f["name"], f["line"])] = sorted(
                r for r in reads if not r.endswith(extract_facts.LOCAL_SUFFIX))
    return tab


def _source_counts(tree="repo"):
    _facts(tree)
    return _state["counts_" + tree]


def _count_source(facts, root):
    """an independent count (plain ast.walk, no scoping) of what the translator must account for"""
    import ast
    import warnings
    tot = {"names": 0, "attributes": 0, "imports": 0, "functions": 0}
    for m in facts["modules"]:
        if not m.get("path"):
            continue
        with warnings.catch_warnings():
            warnings.simplefilter("ignore")
            mod_ast = ast.parse((root / m["path"]).read_text())
        for n in ast.walk(mod_ast):
            if isinstance(n, ast.Name):
                tot["names"] += 1
            elif isinstance(n, ast.Attribute):
                tot["attributes"] += 1
            elif isinstance(n, (ast.Import, ast.ImportFrom)):
                tot["imports"] += 1
            elif isinstance(n, (ast.FunctionDef, ast.AsyncFunctionDef, ast.Lambda)):
                tot["functions"] += 1
    return tot


def _translator_coverage(tree="repo"):
    facts = _facts(tree)
    tot = {}
    for m in facts["modules"]:
        for k, c in (m.get("coverage") or {}).items():
            t = tot.setdefault(k, {"source": 0, "translated": 0, "dead_version_branch": 0,
                                   "unevaluated_annotation": 0, "missed": []})
            for kk, v in c.items():
                t[kk] = t[kk] + v
    return tot


def _cleanup_alt():
    for rel in (GEN_REL, INSTANCE_REL, DRIVER):
        try:
            (LEAN_DIR / rel).unlink()
        except OSError:
            pass


def pre_build(ctx):
    """regenerate the Lean facts from the tree under test (called by run_check before `lake build`)"""
    try:
        _pre_build(ctx)
    except Exception as e:      # a crash of the translator is a harness error (exit 2), never a verdict
        import traceback
        _state["error"] = "pre_build: " + "".join(traceback.format_exception_only(type(e), e)).strip() \
            + "\n" + traceback.format_exc()[-1500:]


def _pre_build(ctx):
    (LEAN_DIR / ".lake").mkdir(exist_ok=True)
    # one C20 check at a time: the generated files are shared; the lock is held until the process exits
    lock = open(LEAN_DIR / ".lake" / "c20.lock", "w")
    fcntl.flock(lock, fcntl.LOCK_EX)
    _state["lock"] = lock
    facts = _facts()
    text = extract_facts.render_lean(facts)
    if ALT:
        atexit.register(_cleanup_alt)
        extract_facts.write_atomic(LEAN_DIR / GEN_REL, text)
        inst = (LEAN_DIR / "LenaModel/Props/C20Instance.lean").read_text()
        inst = inst.replace("import LenaModel.Gen.C20Facts", "import LenaModel.Gen.C20FactsAlt")
        extract_facts.write_atomic(LEAN_DIR / INSTANCE_REL, inst)
        drv = (LEAN_DIR / "drivers/C20.lean").read_text()
        drv = drv.replace("import LenaModel.Gen.C20Facts", "import LenaModel.Gen.C20FactsAlt")
        extract_facts.write_atomic(LEAN_DIR / DRIVER, drv)
    else:
        extract_facts.write_atomic(LEAN_DIR / GEN_REL, text)
    notes = getattr(ctx, "notes", [])
    notes.append({"translator": facts["stats"], "dynamic_constructs_not_modelled": facts["notes"],
                  "source_hash": facts["source_hash"], "repo": str(REPO), "generated": GEN_REL})
    ctx.notes = notes


# ----------------------------------------------------------------------------------------------------------
# probes (fresh interpreters)

def _absent(env, tree="repo"):
    """names of the third-party modules that are absent in environment `env` (a bit set over facts["ext"])"""
    return [x for i, x in enumerate(_facts(tree)["ext"]) if (env >> i) & 1]


def _testable(env, tree="repo"):
    """can this environment be produced in a fresh interpreter?  Absence can always (sys.modules[name] = None);
    presence only of what is installed (a stub would not behave like the real module at import time)"""
    facts = _facts(tree)
    return all(((env >> i) & 1) or extract_facts._ext_available(x) for i, x in enumerate(facts["ext"]))


def _run_probe(mode, pkg, env, tree="repo"):
    facts = _facts(tree)
    penv = dict(os.environ, PYTHONWARNINGS="ignore", PYTHONDONTWRITEBYTECODE="1", PYTHONHASHSEED="0")
    penv.pop("PYTHONPATH", None)
    # -I: isolated (no PYTHONPATH, no script directory on sys.path); the probe puts the tree under test first
    opts = dict(_state["random"] or {}) if mode != "static" else {}
    opts["absent"] = _absent(env, tree)
    if mode == "static":
        opts["audited"] = [[u["mod"], u["fn"], u["var"]] for u in facts["maybe_unbound"] if u["audited"]]
    extra = [json.dumps(opts)]
    p = subprocess.run([_PY, "-I", _PROBE, str(TREES[tree]), mode, pkg, json.dumps(facts["subpackages"])] + extra,
                       capture_output=True, text=True, timeout=600, env=penv, cwd="/tmp")
    if p.returncode != 0 or not p.stdout.strip():
        raise RuntimeError(f"probe {mode} {pkg} env={env} failed rc={p.returncode}: {p.stderr[-1500:]}")
    return json.loads(p.stdout)


def _probe(mode, pkg, env, tree="repo"):
    key = (mode, pkg, env) if tree == "repo" else (mode, pkg, env, tree)
    tab = _state["static"] if mode == "static" else _state["behaviour"]
    if key not in tab:
        tab[key] = _run_probe(mode, pkg, env, tree)
    return tab[key]


def _probe_all(ctx):
    facts = _facts()
    jobs = []
    for env in facts["envs"]:
        if not _testable(env):
            continue
        jobs += [("static", p, env) for p in facts["subpackages"] + ["all"]]
        jobs += [(m, p, env) for p in facts["subpackages"] for m in ("behaviour", "behaviour-full")]
    zf = _facts("zoo")
    for env in zf["envs"]:
        if _testable(env, "zoo"):
            jobs += [("static", p, env, "zoo") for p in zf["subpackages"] + ["all"]]
    todo = [j for j in jobs if j not in _state["static"] and j not in _state["behaviour"]]
    with concurrent.futures.ThreadPoolExecutor(max_workers=8) as ex:
        for j, res in zip(todo, ex.map(lambda j: _run_probe(*j), todo)):
            (_state["static"] if j[0] == "static" else _state["behaviour"])[j if len(j) == 4 else j[:3]] = res


def _entry_name(pkg):
    return f"__main__[{pkg}]"


# ----------------------------------------------------------------------------------------------------------
# cases

def gen_cases(ctx):
    if _state.get("error"):
        return [{"kind": "harness-error", "error": _state["error"]}]
    try:
        return _gen_cases(ctx)
    except Exception as e:      # a probe that cannot be run is a harness error (exit 2), never a verdict
        import traceback
        return [{"kind": "harness-error", "error": f"gen_cases: {e!r}\n{traceback.format_exc()[-1500:]}"}]


def _gen_cases(ctx):
    facts = _facts()
    if ctx.tier == "thorough":
        # seeded random argument tuples on top of the fixed palettes (the same in both interpreters)
        _state["random"] = {"n": 150, "seed": ctx.rng.randrange(2 ** 32)}
    _probe_all(ctx)
    cases = [{"kind": "meta"}]
    by_name = {m["name"]: m for m in facts["modules"]}
    untestable = []
    for env in facts["envs"]:
        if not _testable(env):
            untestable.append(env)
            continue
        ab = _absent(env)
        for pkg in facts["subpackages"] + ["all"]:
            cases.append({"kind": "entry", "entry": pkg, "env": env, "absent": ab})
            pr = _probe("static", pkg, env)
            if pr["import"] != "ok":
                continue        # the entry case reports the failing import; nothing is callable
            keys = set(pr.get("funcs", {}))
            for mname in pr.get("loaded", []):
                for f in by_name.get(mname, {}).get("funcs", []):
                    keys.add(f"{mname}|{f['name']}|{f['line']}")
            for k in sorted(keys):
                mname, q, line = k.rsplit("|", 2)
                cases.append({"kind": "func", "entry": pkg, "env": env, "absent": ab, "module": mname, "func": q,
                              "line": int(line)})
        for pkg in facts["subpackages"]:
            own = _probe("behaviour", pkg, env)
            full = _probe("behaviour-full", pkg, env)
            names = sorted(set(own.get("results", {})) | set(full.get("results", {})))
            if not names:
                cases.append({"kind": "behaviour", "pkg": pkg, "name": None, "env": env, "absent": ab})
            for n in names:
                cases.append({"kind": "behaviour", "pkg": pkg, "name": n, "env": env, "absent": ab})
    # the self-test package: the same translator, the same Lean definitions, fresh interpreters and the bytecode
    # oracle must agree on every construct -- also on the ones the repository does not use, and on failures
    zf = _facts("zoo")
    zby = {m["name"]: m for m in zf["modules"]}
    cases.append({"kind": "meta", "tree": "zoo"})
    for env in zf["envs"]:
        if not _testable(env, "zoo"):
            continue
        ab = _absent(env, "zoo")
        for pkg in zf["subpackages"] + ["all"]:
            cases.append({"kind": "entry", "tree": "zoo", "entry": pkg, "env": env, "absent": ab})
            pr = _probe("static", pkg, env, "zoo")
            if pr["import"] != "ok":
                continue
            keys = set(pr.get("funcs", {}))
            for mname in pr.get("loaded", []):
                for f in zby.get(mname, {}).get("funcs", []):
                    keys.add(f"{mname}|{f['name']}|{f['line']}")
            for k in sorted(keys):
                mname, q, line = k.rsplit("|", 2)
                cases.append({"kind": "func", "tree": "zoo", "entry": pkg, "env": env, "absent": ab, "module": mname,
                              "func": q, "line": int(line)})
    # what the behaviour cases reach: functions of the tree entered by some exercise (sys.monitoring in the fresh
    # interpreters and their forked children) -- the rest is the blind area of the dynamic evidence for clause 1b
    entered = set()
    for key, pr in _state["behaviour"].items():
        entered.update(pr.get("entered", []))
    allf = {}
    for m in facts["modules"]:
        if m.get("path"):
            rel = m["path"][len("lena/"):] if m["path"].startswith("lena/") else m["path"]
            for f in m["funcs"]:
                allf[f"{rel}|{f['name']}|{f['line']}"] = f"{m['name']}.{f['name']}"
    never = sorted(v for k, v in allf.items() if k not in entered)
    notes = getattr(ctx, "notes", [])
    notes.append({"behaviour_function_coverage": {
        "functions_of_the_tree": len(allf), "entered_by_some_behaviour_case": len(allf) - len(never),
        "never_entered": never[:400],
        "note": "impl_line_coverage of common.py is empty for C20: the real code runs in fresh interpreters "
                "(sub-processes), this is the measurement made there"}})
    # reads of locals that CPython cannot prove bound (LOAD_FAST_CHECK): informational.  The audited ones carry the
    # reason a person gave; the others are listed here and are NOT a verdict (an UnboundLocalError is reported when a
    # behaviour case exhibits it)
    notes.append({"unaudited_maybe_unbound_reads": sorted(
        f"{u['mod']}.{u['fn']}: {u['var']}" for u in facts["maybe_unbound"] if not u["audited"]),
        "audited_maybe_unbound_reads": len([u for u in facts["maybe_unbound"] if u["audited"]]),
        "note": "possible UnboundLocalError according to CPython's definite-assignment analysis only; not judged"})
    notes.append({"exhaustive_per_dimension": {
        "entry points x environments x functions x global loads / attribute chains / raise statements (static clause)": True,
        "advertised names (__all__) x environments": True,
        "behaviour of public elements (clause 1b)": "fixed palette of argument tuples and flows (+ seeded sample in "
                                                    "thorough): a sample, not exhaustive"}})
    notes.append({"self_test_package": {"tree": str(ZOO), "translator": zf["stats"]}})
    notes.append({"environments": [{"env": e, "absent": _absent(e), "tested_in_fresh_interpreters": e not in untestable}
                                   for e in facts["envs"]],
                  "third_party_modules_of_import_time_code": facts["ext"], "never_importable_here": facts["always_absent"]})
    ctx.notes = notes
    # the static scope of the quantifier (sub-packages x environments x advertised names x functions x global loads)
    # is enumerated completely, but the behaviour cases (clause 1b) are a fixed palette: not exhaustive as a whole
    # (per dimension: see the note `exhaustive_per_dimension` in the evidence)
    ctx.exhaustive = False
    return cases


def _caught_key(c):
    return (c.get("kind"), c.get("name"), c.get("on"))


def _order_dependence(pkg, env, own):
    """what `import lena.X` does differently when the whole framework is imported: handlers of import-time code that
    catch an undefined-name failure in one interpreter only, and module globals (of the modules `import lena.X` loads)
    that are bound to something else afterwards and that some function of their module reads"""
    whole = _probe("static", "all", env)
    if own.get("import") != "ok" or whole.get("import") != "ok":
        return {"handlers": [], "state": []}
    loaded = set(own["loaded"])
    key = lambda c: (c["module"], c["func"], c["line"], c["type"])
    a = sorted(key(c) for c in own.get("import_caught", []))
    b = sorted(key(c) for c in whole.get("import_caught", []) if c["module"] in loaded)
    handlers = []
    if a != b:
        msgs = {key(c): c["msg"] for c in own.get("import_caught", []) + whole.get("import_caught", [])}
        for k in sorted(set(a) ^ set(b)) or sorted(set(a) | set(b)):
            handlers.append({"module": k[0], "func": k[1], "line": k[2], "type": k[3], "msg": msgs.get(k, ""),
                             "own": a.count(k), "whole": b.count(k)})
    state = []
    readers = {}
    for fk, ent in (own.get("funcs") or {}).items():
        mod, q, _ = fk.rsplit("|", 2)
        for g in ent.get("greads", []):
            readers.setdefault((mod, g), []).append(q)
    for mod in sorted(loaded):
        so, sw = own.get("state", {}).get(mod, {}), whole.get("state", {}).get(mod, {})
        for name in sorted(so):
            if name in sw and so[name] != sw[name] and readers.get((mod, name)):
                state.append({"module": mod, "name": name, "own": so[name], "whole": sw[name],
                              "read_by": sorted(set(readers[(mod, name)]))[:3]})
    return {"handlers": handlers, "state": state}


def run_impl(case):
    kind = case["kind"]
    if kind == "harness-error":
        raise RuntimeError(case["error"])
    tree = case.get("tree", "repo")
    facts = _facts(tree)
    if kind == "meta":
        return {"hash": facts["source_hash"], "modules": [m["name"] for m in facts["modules"]],
                "source_counts": _source_counts(tree), "translator_coverage": _translator_coverage(tree)}
    if kind == "entry":
        pr = _probe("static", case["entry"], case["env"], tree)
        res = {"import": pr["import"], "star": pr["star"], "loaded": pr["loaded"], "ns": pr["ns"],
               "loaded_by_star": pr.get("loaded_by_star", []), "exc_classes": pr.get("exc_classes", {}),
               "import_caught": pr.get("import_caught", [])}
        if tree == "repo" and case["entry"] != "all":
            res["order"] = _order_dependence(case["entry"], case["env"], pr)
        return res
    if kind == "func":
        pr = _probe("static", case["entry"], case["env"], tree)
        ent = pr["funcs"].get(f"{case['module']}|{case['func']}|{case['line']}")
        if ent is None:
            return {"present": False, "import": pr["import"] if pr["import"] != "ok" else None}
        res = {"present": True, "loads": ent["loads"], "problems": ent["problems"], "forked": ent["forked"],
               "greads": ent.get("greads", []), "caught": ent.get("caught", []),
               "import_state": ent.get("import_state", [])}
        if case["entry"] != "all":
            # the same function after the whole framework has been imported (clause 1b)
            whole = _probe("static", "all", case["env"], tree)
            went = (whole.get("funcs") or {}).get(f"{case['module']}|{case['func']}|{case['line']}")
            if whole.get("import") == "ok" and went is not None:
                res["whole_caught"] = went.get("caught", [])
                res["whole_import_state"] = went.get("import_state", [])
        return res
    if kind == "behaviour":
        own = _probe("behaviour", case["pkg"], case["env"])
        full = _probe("behaviour-full", case["pkg"], case["env"])
        if case["name"] is None:
            return {"own_fatal": own.get("fatal"), "full_fatal": full.get("fatal")}
        return {"own": own.get("results", {}).get(case["name"]), "full": full.get("results", {}).get(case["name"]),
                "own_fatal": own.get("fatal"), "full_fatal": full.get("fatal"),
                "own_loaded": own.get("loaded_subpackages")}
    raise ValueError(kind)


def model_requests(case):
    kind = case["kind"]
    extra = {"tree": _tree_payload()} if case.get("tree") == "zoo" else {}
    if kind == "meta":
        return [dict({"op": "meta"}, **extra)]
    if kind == "entry":
        return [dict({"op": "entry", "e": _entry_name(case["entry"]), "env": case["env"]}, **extra)]
    if kind == "func":
        return [dict({"op": "call", "e": _entry_name(case["entry"]), "env": case["env"], "m": case["module"],
                      "f": case["func"], "line": case["line"]}, **extra)]
    return []


_DUNDER = re.compile(r"^__\w+__$")


def compare(case, res, replies):
    kind = case["kind"]
    m = replies[0]
    if "err" in m and isinstance(m["err"], str):
        return f"model driver error: {m['err']}"
    tree = case.get("tree", "repo")
    facts = _facts(tree)
    if kind == "meta":
        if tree == "repo" and m.get("hash") != res["hash"]:
            return f"the Lean facts were generated from another tree: {m.get('hash')} vs {res['hash']}"
        if m.get("modules") != res["modules"]:
            return "module list of the Lean facts differs from the translator's"
        if not m.get("layout"):
            return "layoutOk is false for the generated facts"
        if m.get("ext") != facts["ext"] or m.get("envs") != facts["envs"]:
            return f"environments of the Lean facts {m.get('ext')} {m.get('envs')} differ from the translator's"
        if tree == "repo":
            # the model's verdict on handlers (orderIndependent, per environment) against the bytecode's
            for k, env in enumerate(facts["envs"]):
                if not _testable(env) or k >= len(m.get("orderIndependent", [])):
                    continue
                dep = _handler_dependences(env)
                if dep is not None and bool(m["orderIndependent"][k]) != (not dep):
                    return (f"orderIndependent = {m['orderIndependent'][k]} in the model (environment {env}), but the "
                            f"bytecode finds these functions catching different failures in the two interpreters: {dep[:3]}")
        if m.get("allDynamic"):
            return (f"__all__ of {m['allDynamic']} is computed: the advertised names are not known statically and the "
                    f"theorems about them say nothing (write __all__ as a literal list)")
        # translator coverage: every Name / Attribute / import statement / function of the source is accounted for
        for k, n_src in res["source_counts"].items():
            c = res["translator_coverage"].get(k, {})
            acc = c.get("translated", 0) + c.get("dead_version_branch", 0) + c.get("unevaluated_annotation", 0)
            if c.get("missed") or acc != n_src or c.get("source") != n_src:
                return (f"translator coverage of {k}: {n_src} in the source (ast.walk), {acc} accounted for; "
                        f"not visited: {c.get('missed', [])[:5]}")
        return None
    if kind == "entry":
        imp_ok = res["import"] == "ok"
        if m.get("ok") != imp_ok:
            return f"import of {case['entry']}: impl {res['import']} vs model {m.get('err', 'ok')}"
        if not imp_ok:
            return None
        main = _entry_name(case["entry"])
        loaded_model = sorted(k for k in m["loaded"] if not k.startswith("__main__"))
        if loaded_model != res["loaded"]:
            return (f"sys.modules after `import {case['entry']}`: impl-only {sorted(set(res['loaded']) - set(loaded_model))}, "
                    f"model-only {sorted(set(loaded_model) - set(res['loaded']))}")
        if any(v != "done" for v in m["loaded"].values()):
            return f"model leaves modules partially initialised: {[k for k, v in m['loaded'].items() if v != 'done']}"
        may = {mm["name"]: set(mm["may"]) for mm in facts["modules"]}
        assumed = {mm["name"]: set(mm.get("assumed", ())) for mm in facts["modules"]}
        for mod in res["loaded"]:
            real, model = res["ns"][mod], m["ns"].get(mod, {})
            extra_real = {k for k in real if k not in model and k not in may.get(mod, ()) and not
                          any(s.startswith("*") for s in may.get(mod, ())) and k != "__warningregistry__"}
            extra_model = {k for k in model if k not in real and k not in assumed.get(mod, ())}
            if extra_real or extra_model:
                return f"namespace of {mod}: only in the interpreter {sorted(extra_real)}, only in the model {sorted(extra_model)}"
            for k in model:
                if k in real and model[k] != real[k] and not _DUNDER.match(k):
                    return f"{mod}.{k}: interpreter has {real[k]}, model has {model[k]}"
        # the star import(s) of the entry
        star_ok = all(s["ok"] for s in res["star"].values())
        if star_ok:
            names = set()
            for s in res["star"].values():
                names |= set(s["names"])
            model_names = set(m.get("starNames", []))
            model_names -= {"lena"}
            names -= {"lena"}
            if names != model_names:
                return (f"names bound by the star import: impl-only {sorted(names - model_names)}, "
                        f"model-only {sorted(model_names - names)}")
        # __all__ itself, and the documented exceptions
        by = {mm["name"]: mm for mm in facts["modules"]}
        for pkg, st in res["star"].items():
            if "all" in st and by.get(pkg, {}).get("all") is not None and sorted(st["all"]) != sorted(by[pkg]["all"]):
                return f"{pkg}.__all__: interpreter {sorted(st['all'])}, translator {sorted(by[pkg]['all'])}"
        if bool(m.get("exported")) != all(not s.get("missing") for s in res["star"].values()):
            return f"exportedB = {m.get('exported')} but the interpreter misses {[s.get('missing') for s in res['star'].values()]}"
        # the static import closure is the set of loaded modules
        if not m.get("closureClosed"):
            return "closedSetB is false for the import closure of this entry"
        # spec-side definitions, executed: the exploration is closed, the set of callable functions is the set of
        # functions of the loaded modules, names bound to lena modules are bound to imported ones (also in reality)
        n_fun = sum(1 for mm in facts["modules"] if mm["name"] in res["loaded"] for f in mm["funcs"] if f["evs"])
        if m.get("callables") != n_fun:
            return f"callables: model {m.get('callables')}, functions with events in the loaded modules {n_fun}"
        if not m.get("attrInv"):
            return "AttrInv is false in the model state"
        for mod in res["loaded"]:
            for k, v in res["ns"][mod].items():
                if v.startswith("mod:") and v[4:] not in res["loaded"]:
                    return f"interpreter: {mod}.{k} is the module {v[4:]}, which is not in sys.modules"
        if bool(m.get("resolves")) != str(m.get("explore", "")).startswith("closed"):
            if m.get("exported"):
                return f"resolvesEntry = {m.get('resolves')} but explore = {m.get('explore')}"
        # the static import closure bounds sys.modules from above (theorem loaded_within_closure); it is equal
        # unless an import sits in a branch that this interpreter does not take
        outside = sorted(set(res["loaded"]) - set(m["closure"]))
        if outside:
            return f"modules in sys.modules that are not in the static import closure: {outside}"
        return None
    if kind == "func":
        if "import" in m:
            return None if res.get("import") else f"model cannot import the entry ({m['import']}) but the interpreter can"
        r = m.get("r", [])
        if not res.get("present"):
            return None if m.get("missing") or not r else f"the model has this function, the bytecode of {case['module']} has not"
        if m.get("missing"):
            rest = [p for p in res["problems"] if p["kind"] not in ("BuiltinRaise", "NonLenaRaise", "MaybeUnbound",
                                                                    "DeadLocalLoad")]
            if res["loads"] or rest:
                return f"the bytecode loads {res['loads']} global names but the translator emitted no events"
            mr = sorted(m.get("badRaises", []))
            pr_ = sorted(p["line"] for p in res["problems"] if p["kind"] in ("BuiltinRaise", "NonLenaRaise"))
            mu = sorted(m.get("unaudited", []))
            pu = sorted(p["name"] for p in res["problems"] if p["kind"] == "MaybeUnbound")
            if mr != pr_ or mu != pu:
                return f"raise / possibly-unbound facts: model {mr} {mu}, interpreter {pr_} {pu}"
            md = sorted({d[0] for d in m.get("dead", [])})
            pd = sorted({p["name"] for p in res["problems"] if p["kind"] == "DeadLocalLoad"})
            if md != pd:
                return f"locals that are certainly unbound where they are read: translator {md}, bytecode data-flow {pd}"
            return None
        if not r:
            return "no reachable state in the model"
        mine = _fn_greads(tree).get((case["module"], case["func"], case["line"]), [])
        if sorted(res.get("greads", [])) != mine:
            return (f"global names read: bytecode-only {sorted(set(res.get('greads', [])) - set(mine))}, "
                    f"translator-only {sorted(set(mine) - set(res.get('greads', [])))}")
        mr = sorted(m.get("badRaises", []))
        pr_ = sorted(p["line"] for p in res["problems"] if p["kind"] in ("BuiltinRaise", "NonLenaRaise"))
        if mr != pr_:
            return f"raise statements that do not name a documented exception: model lines {mr}, interpreter lines {pr_}"
        mu = sorted(m.get("unaudited", []))
        pu = sorted(p["name"] for p in res["problems"] if p["kind"] == "MaybeUnbound")
        if mu != pu:
            return f"possibly-unbound locals that are not audited: model {mu}, bytecode {pu}"
        # two independent definite-UNassignment analyses (source level: translator -> facts -> model; bytecode level:
        # probe) must name the same locals
        md = sorted({d[0] for d in m.get("dead", [])})
        pd = sorted({p["name"] for p in res["problems"] if p["kind"] == "DeadLocalLoad"})
        if md != pd:
            return f"locals that are certainly unbound where they are read: translator {md}, bytecode data-flow {pd}"
        res = dict(res, problems=[p for p in res["problems"]
                                  if p["kind"] not in ("BuiltinRaise", "NonLenaRaise", "MaybeUnbound", "DeadLocalLoad")])
        if m.get("tracedAgrees") is False:
            return "the traced interpreter (execEvsT) and callFn disagree on this function"
        if r[0] == "ok" and not res["problems"]:
            mc = sorted((c.get("kind"), (c.get("name") or "").replace(extract_facts.LOCAL_SUFFIX, ""), c.get("on"))
                        for c in m.get("caught", []) if c.get("kind") in ("NameError", "AttributeError"))
            pc = sorted(_caught_key(c) for c in res.get("caught", []) if c.get("kind") in ("NameError", "AttributeError"))
            if mc != pc:
                return f"failures caught by the function's own handlers: model {mc}, bytecode {pc}"
        bad_model = [x for x in r if x != "ok" and x != "not-callable"]
        if r[0] == "not-callable":
            return "the model does not consider the function callable after the import of the entry"
        if res["problems"]:
            if not bad_model:
                return f"bytecode: unresolved {res['problems']}; model: resolves in every reachable state"
            names = {(p["kind"], p["name"]) for p in res["problems"]}
            b0 = bad_model[0]
            mname = (b0.get("name") or "").replace(extract_facts.LOCAL_SUFFIX, "")
            if (b0.get("kind"), mname) not in names and b0.get("kind") != "ImportError":
                return f"bytecode: unresolved {res['problems']}; model: {b0}"
            return None
        if bad_model:
            return f"bytecode: every load resolves; model: {bad_model[0]}"
        return None
    return None


def _handler_dependences(env):
    """functions whose own handlers catch different undefined-name failures with only a sub-package imported and with
    the whole framework imported, according to the bytecode probes (None: the probes cannot say)"""
    facts = _facts()
    whole = _probe("static", "all", env)
    if whole.get("import") != "ok":
        return None
    out = []
    for pkg in facts["subpackages"]:
        own = _probe("static", pkg, env)
        if own.get("import") != "ok":
            return None
        for fk, ent in (own.get("funcs") or {}).items():
            went = (whole.get("funcs") or {}).get(fk)
            if went is None or any(p["kind"] != "MaybeUnbound" for p in ent["problems"] + went["problems"]):
                continue        # a failing function is the other check's business (the trace ends at the failure)
            if sorted(map(_caught_key, ent.get("caught", []))) != sorted(map(_caught_key, went.get("caught", []))):
                out.append(f"{pkg}: {fk}")
    return out


def _undefined(summ):
    return isinstance(summ, str) and ":UNDEFINED:" in summ


def _envtxt(case):
    missing = [x for x in case.get("absent", []) if x not in _facts()["always_absent"]]
    return f" [environment: {', '.join(missing)} cannot be imported]" if missing else ""


def oracle(case, res):
    """the property's own statement on the real code"""
    if case.get("tree", "repo") != "repo":
        return None         # the self-test package is not the code under test: only agreement is checked
    msg = _oracle(case, res)
    return msg + _envtxt(case) if msg else None


def _oracle(case, res):
    kind = case["kind"]
    if kind == "meta":
        return None
    if kind == "entry":
        e = case["entry"]
        if res["import"] != "ok":
            what = "importing all sub-packages" if e == "all" else f"`import {e}`"
            return f"{what} in a fresh interpreter fails: {res['import']['type']}: {res['import']['msg']}"
        bad = sorted(k for k, ok in res.get("exc_classes", {}).items() if not ok)
        if bad:
            return (f"lena.core.exceptions: {bad} do(es) not derive from LenaException (all Lena exceptions derive "
                    f"from LenaException)")
        for pkg, s in res["star"].items():
            if s.get("missing"):
                return f"{pkg}.__all__ advertises names that do not exist: {s['missing']}"
            if not s["ok"]:
                return f"`from {pkg} import *` fails: {s['exc']['type']}: {s['exc']['msg']}"
        # clause 1b at import time: what `import lena.X` does must not depend on what else has been imported
        order = res.get("order") or {}
        for h in order.get("handlers", []):
            where = f"{h['module']} line {h['line']}" + ("" if h["func"] == "<module>" else f" ({h['func']})")
            one, other = (f"only {e} imported", "the whole framework imported") if h["own"] > h["whole"] else \
                ("the whole framework imported", f"only {e} imported")
            return (f"import-time code behaves differently with only {e} imported and with the whole framework imported: "
                    f"with {one} a handler at {where} catches {h['type']}: {h['msg']} -- with {other} it does not "
                    f"(what the module defines depends on the import order)")
        for st in order.get("state", []):
            return (f"{st['module']}.{st['name']} is bound to {st['own']} with only {e} imported and to {st['whole']} "
                    f"after the whole framework has been imported (another sub-package's import changes it), and "
                    f"{st['module']}.{st['read_by'][0]} reads it: that element behaves differently in the two interpreters")
        return None
    if kind == "func":
        # a read of a local that CPython cannot prove bound (MaybeUnbound) is a hint, never a verdict: it is listed in
        # the evidence; an UnboundLocalError is reported when a concrete execution (behaviour case) exhibits it
        problems = [p for p in res["problems"] if p["kind"] != "MaybeUnbound"] if res.get("present") else []
        if problems:
            where = f"{case['module']}, function {case['func']} (line {case['line']})"
            whats = []
            for p in problems[:4]:
                if p["kind"] == "BuiltinRaise":
                    what = (f"line {p['line']}: raises the builtin {p['name']} although lena.core documents a LenaException "
                            f"subclass that wraps it (invalid arguments and missing keys are reported with the documented "
                            f"LenaException subclasses)")
                elif p["kind"] == "NonLenaRaise":
                    what = f"line {p['line']}: raises {p['name']}, a lena class that does not derive from LenaException"
                elif p["kind"] == "NameError" and p.get("after_call_of"):
                    what = (f"global name '{p['name']}' is deleted by a call of {p['after_call_of']} (`global {p['name']}; "
                            f"del {p['name']}`): not defined when this function is called afterwards")
                elif p["kind"] == "NameError" and p.get("inner"):
                    what = (f"free variable '{p['name']}' of the inner function {p['inner']} may be unbound when that "
                            f"function is called (the enclosing function has not certainly bound it by then)")
                elif p["kind"] == "AttributeError" and p.get("inner"):
                    what = (f"module '{p.get('on')}' has no attribute '{p['name']}' (read through the free variable "
                            f"'{p.get('root')}' in the inner function {p['inner']})")
                elif p["kind"] == "DeadLocalLoad":
                    what = (f"line {p.get('line')}: the local '{p['name']}' is read where it is unbound on every path that "
                            f"reaches the read (after the end of `except ... as {p['name']}`, after `del {p['name']}`, or "
                            f"before anything has bound it): UnboundLocalError, a NameError, whenever that line runs")
                elif p["kind"] == "NameError" and p.get("unbound_local"):
                    what = (f"local name '{p['name']}' is bound only by an import statement that is not certain to have "
                            f"run (UnboundLocalError)")
                elif p["kind"] == "NameError":
                    what = f"global name '{p['name']}' is not defined in the module nor in builtins"
                elif p["kind"] == "AttributeError":
                    what = f"module '{p.get('on')}' has no attribute '{p['name']}' (reading {p.get('root')}. ... .{p['name']})"
                else:
                    what = f"{p['kind']}: {p.get('name')} {p.get('msg', '')}"
                whats.append(what)
            what = "; ".join(whats)
            how = "with the whole framework imported" if case["entry"] == "all" else f"with only {case['entry']} imported"
            return f"{how}: {where}: {what}"
        if res.get("present") and "whole_caught" in res:
            # clause 1b: the function must take the same handlers in both interpreters
            where = f"{case['module']}, function {case['func']} (line {case['line']})"
            own_c = sorted(map(_caught_key, res.get("caught", [])))
            whole_c = sorted(map(_caught_key, res["whole_caught"]))
            if own_c != whole_c:
                only_own = [c for c in res.get("caught", []) if _caught_key(c) not in whole_c]
                only_whole = [c for c in res["whole_caught"] if _caught_key(c) not in own_c]
                c, one, other = (only_own[0], f"only {case['entry']} imported", "the whole framework imported") \
                    if only_own else ((only_whole or res["whole_caught"])[0], "the whole framework imported",
                                      f"only {case['entry']} imported")
                what = (f"module '{c.get('on')}' has no attribute '{c['name']}'" if c["kind"] == "AttributeError"
                        else f"{c['kind']}: '{c['name']}'")
                via = {"hasattr": "a hasattr(...) question", "getattr3": "a getattr(..., default) question"}.get(
                    c.get("probe"), "a handler of the function")
                return (f"{where} behaves differently with only {case['entry']} imported and with the whole framework "
                        f"imported: with {one}, line {c.get('line')}: {what}, swallowed by {via}; with {other} the name "
                        f"resolves and the other path is taken")
            a = sorted((t["what"], t["line"], t["value"]) for t in res.get("import_state", []))
            b = sorted((t["what"], t["line"], t["value"]) for t in res.get("whole_import_state", []))
            if a != b:
                t = next(x for x in a if x not in b)
                return (f"{where} behaves differently with only {case['entry']} imported and with the whole framework "
                        f"imported: line {t[1]} asks {t[0]}, which is {t[2]} with only {case['entry']} imported and "
                        f"{not t[2]} after the whole framework has been imported")
        return None
    if kind == "behaviour":
        for k in ("own_fatal", "full_fatal"):
            if res.get(k):
                return f"exercising lena sub-package {case['pkg']} ({k}): {res[k]}"
        if case["name"] is None:
            return None
        own, full = res.get("own") or {}, res.get("full") or {}
        for lab, d in (("only " + case["pkg"] + " imported", own), ("whole framework imported", full)):
            for k in sorted(d):
                if _undefined(d[k]):
                    return f"{case['pkg']}.{k} ({lab}) fails by referring to an undefined name: {d[k]}"
        if own != full:
            for k in sorted(set(own) | set(full)):
                if "timeout" in (own.get(k), full.get(k)):
                    continue        # a watchdog outcome is not a behaviour
                if own.get(k) != full.get(k):
                    return (f"{case['pkg']}.{k} behaves differently with only {case['pkg']} imported ({own.get(k)}) "
                            f"and with the whole framework imported ({full.get(k)})")
        return None
    raise ValueError(kind)


def search_cases(sctx):
    """called when the proof or the correspondence is broken and no generated case fails: the scope was enumerated
    completely already, so there is nothing more to search; print what the Lean resolver itself reports"""
    sctx.exhaustive = True
    try:
        from harness.common import ModelDriver
        rep = ModelDriver(DRIVER).ask([{"op": "findings"}], timeout=600)[0]
        for f in rep.get("findings", [])[:20]:
            print(f"# C20 model-finding: entry {f['entry']}: {f.get('module')} {f.get('func')} "
                  f"(line {f.get('line')}): {json.dumps(f['err'], sort_keys=True)}")
        if not rep.get("findings"):
            print("# C20 model-finding: the resolver reports no unresolved name for these facts")
    except Exception as e:    # the Lean side may not have been built
        print(f"# C20 model-finding: driver not available ({str(e)[:200]})")
    return []


def nontrivial(case, res):
    kind = case["kind"]
    if kind == "func":
        return bool(res.get("present") and (res["loads"] or [p for p in res["problems"] if p["kind"] != "MaybeUnbound"]))
    if kind == "behaviour":
        return any(isinstance(v, str) and not v.startswith("exc:") and v != "timeout" and k != "kind"
                   for k, v in (res.get("own") or {}).items())
    return kind == "entry"


def classify(case, res):
    kind = case["kind"]
    if kind == "func":
        if not res.get("present"):
            return ["func:absent"]
        hard = [p for p in res["problems"] if p["kind"] != "MaybeUnbound"]
        labs = ["func:unresolved" if hard else ("func:resolves" if res["loads"] else "func:no-global-loads")]
        if len(hard) != len(res["problems"]):
            labs.append("func:reads-a-possibly-unbound-local-not-in-the-audited-list")
        if res.get("forked"):
            labs.append("func:imports-at-call-time")
        if res.get("caught"):
            labs.append("func:handler-swallows-a-name-failure")
        if res.get("import_state"):
            labs.append("func:asks-sys.modules")
        return labs
    if kind == "behaviour":
        d = res.get("own") or {}
        labs = ["behaviour"]
        labs += sorted({"behaviour:" + (v.split(":")[0] + ":" + v.split(":")[1] if v.startswith("exc:") else "returns")
                        for k, v in d.items() if k != "kind" and isinstance(v, str)})
        return labs
    return [kind]


def signature(case, failure):
    if case["kind"] == "func":
        # one report per function, whatever the entry point it was seen from
        return f"func:{case['module']}:{case['func']}"
    if case["kind"] == "behaviour":
        if "_fatal)" in (failure or ""):
            return f"behaviour-fatal:{case['pkg']}"
        return f"behaviour:{case['pkg']}:{case['name']}"
    if case["kind"] == "entry" and "derive from LenaException" in (failure or ""):
        return "exceptions:" + failure.split(" [environment")[0]
    if case["kind"] == "entry" and "__all__" in (failure or ""):
        return "entry:" + failure.split(" [environment")[0]   # seen from two entry points / environments: one finding
    return f"{case['kind']}:{case.get('entry', '')}"


# ---- MANIFEST texts ------------------------------------------------------------------------
LEVEL_TEXT = ("Lean 4 theorems about an interpreter for Python's import machinery and name resolution (sys.modules, "
              "partially initialised modules, submodule attributes, IMPORT_FROM, LEGB, try/except ImportError around "
              "optional third-party imports, with the set of absent third-party modules as a parameter): resolver_sound "
              "/ resolver_sound_envs hold for all facts and all environments "
              "(no entry point followed by any sequence of calls reaches an unresolved global or a missing attribute of a "
              "lena module when the check passes), and the instance theorems current_tree_resolves / current_tree_safe / "
              "all_exported are re-checked by the kernel on every run against facts regenerated from the working tree by a "
              "translator (ast + symtable); the translator and the semantics are validated on every run against fresh "
              "interpreters (sys.modules, all module namespaces, every function's bytecode), and every public element is "
              "exercised with only its own sub-package imported and with the whole framework imported.")
LEVEL_NOTE = ("The general theorems are about the interpreter of Model/C20.lean; that this interpreter is adequate for "
              "CPython is validated by the correspondence run (and the self-test package), not proved.  Clause 1b (behaviour) is "
              "proved only as far as names go (handlers_order_independent: every function swallows the same "
              "undefined-name failures in both interpreters); the rest of it and which inputs are 'invalid arguments' "
              "(clause 2b) are kept as _full definitions, tested by observation of the import (handlers, module state) "
              "and a fixed behaviour palette.  "
              "Trusted: Lean kernel (+ propext, Classical.choice, Quot.sound), the translator and the abstract import "
              "semantics as validated by the exhaustive correspondence run, CPython 3.12 + installed distributions. "
              "Outside the model: names created dynamically (globals()[...] in flow/zip.py), attributes of non-module "
              "objects, Python-2 branches.")
TECHNIQUE = "Lean 4 proof (general soundness + kernel-evaluated instance) over translated facts + exhaustive correspondence with fresh interpreters"
DESIGN_REF = "DESIGN.md section 3, C20"
