"""C20 — advertised names exist, work with only their subpackage imported, and resolve.

Tie to the source: TRANSLATOR.  `harness/extract_facts.py` (Python ast + symtable) regenerates the facts of the
working tree (`lean/LenaModel/Gen/C20Facts.lean`) in `pre_build`, on every run; the Lean kernel re-checks the
instance theorem `Lena.C20.current_tree_resolves` against them, the general theorems of `Props/C20.lean` hold for
all facts.  Model: `lean/LenaModel/Model/C20.lean` (an interpreter for imports, namespaces and name resolution).

Real code / oracle: `harness/c20_probe.py` runs in *fresh interpreters* (one per sub-package, importing only it, and
one importing all of them): import, star import, `__all__`, `sys.modules`, every module namespace, and for every
function the global names and attribute chains its bytecode loads, resolved against the real module objects; then
every public name is exercised on small inputs with only its own sub-package imported and with the whole framework
imported, and the outcomes are compared.
"""
import atexit
import concurrent.futures
import fcntl
import json
import os
import re
import subprocess
import sys
from pathlib import Path

from harness import extract_facts

PID = "C20"
TITLE = "Advertised names exist, work with only their subpackage imported, and resolve"

VERIF = Path(__file__).resolve().parent.parent.parent
LEAN_DIR = VERIF / "lean"
REPO = Path(os.environ.get("LENA_REPO", "/repo"))
# a tree other than /repo (mutation runs, seeded changes) gets its own generated Lean files, so that the build
# products of the committed facts stay valid; they are removed at exit
ALT = REPO.resolve() != Path("/repo").resolve()
GEN_REL = "LenaModel/Gen/C20FactsAlt.lean" if ALT else "LenaModel/Gen/C20Facts.lean"
INSTANCE_REL = "LenaModel/Gen/C20InstanceAlt.lean" if ALT else "LenaModel/Props/C20Instance.lean"
DRIVER = ".lake/c20alt/C20DriverAlt.lean" if ALT else "drivers/C20.lean"

LEAN_MODULES = ["LenaModel.Props.C20", INSTANCE_REL[:-5].replace("/", ".")]
LEAN_SOURCES = ["LenaModel/Model/C20.lean", "LenaModel/Lemmas/C20.lean", "LenaModel/Props/C20.lean", INSTANCE_REL, GEN_REL]
THEOREMS = [
    # general (for all facts)
    "Lena.C20.resolver_sound",
    "Lena.C20.resolver_sound_envs",
    "Lena.C20.exported_envs",
    "Lena.C20.resolver_alarm_is_real",
    "Lena.C20.explore_failed_real",
    "Lena.C20.import_ok_of_resolvesAll",
    "Lena.C20.exported_of_resolvesAll",
    "Lena.C20.load_resolves_iff",
    "Lena.C20.lookupScope_isSome_iff",
    "Lena.C20.walk_none_iff",
    "Lena.C20.attr_resolves_iff",
    "Lena.C20.call_without_import_keeps_state",
    "Lena.C20.module_value_is_imported",
    "Lena.C20.not_imported_not_bound",
    "Lena.C20.importMod_stable",
    "Lena.C20.sys_modules_grow",
    "Lena.C20.loaded_after_import",
    "Lena.C20.State.get_set_same",
    "Lena.C20.State.get_set_other",
    "Lena.C20.State.statusOf_setStatus_same",
    "Lena.C20.State.statusOf_setStatus_other",
    "Lena.C20.importMod_within",
    "Lena.C20.loaded_within_closure",
    # instance (the current working tree; re-checked by the kernel on every run)
    "Lena.C20.current_tree_resolves",
    "Lena.C20.current_tree_safe",
    "Lena.C20.all_exported",
    "Lena.C20.current_closures_ok",
    "Lena.C20.current_loaded_within_closure",
]
TRUSTED = [
    "Lean 4.33.0 kernel; axioms limited to propext, Classical.choice, Quot.sound (audited by #print axioms on every run)",
    "the translator harness/extract_facts.py (Python ast + CPython's own symtable -> LenaModel/Gen/C20Facts.lean), validated on "
    "every run against fresh interpreters: predicted sys.modules, every module namespace (names and module/non-module "
    "kind), the function inventory (qualified name, first line) and the per-function verdicts must equal what the "
    "interpreter and the bytecode show",
    "the abstract import/name-resolution semantics of Model/C20.lean (sys.modules, partially initialised modules, "
    "setattr of a submodule on its package, IMPORT_FROM fall-back, LEGB with builtins), validated likewise",
    "CPython 3.12 (interpreter-version tests are decided for it; Python-2 standard-library modules such as "
    "future_builtins are never importable); which optional third-party modules are installed is NOT assumed: it is "
    "the environment parameter the theorems quantify over",
    "JSON line protocol (harness/props/c20.py, drivers/C20.lean)",
]
ASSUMPTIONS = [
    "a call executes every load of the function body in source order (all code paths at once); imports inside "
    "conditional blocks are not assumed afterwards",
    "module level: names bound on some path only of an if/loop/match whose outcome is not decided statically are assumed "
    "bound (none in the current tree; listed per module in the facts, counted in the evidence); the fresh interpreter "
    "shows whether they exist and the bytecode oracle finds every function that loads one that does not",
    "names are created at module level by the statements the translator sees: globals()[...] = ... (flow/zip.py, counted "
    "in the evidence as dynamic), exec/eval and the Python-2 branches are outside the model",
    "objects that are not lena modules are opaque: attributes of classes and instances are not checked",
]
RULE = ("for every environment (every subset of the third-party modules that lena's import-time code imports -- here "
        "jinja2 present / absent, produced in fresh interpreters with sys.modules[name] = None): "
        "exhaustive: every entry point (each of the 9 sub-packages alone, and all together) x every function/method/lambda "
        "of every module that entry loads (one case each: bytecode verdict vs model verdict), one case per entry for "
        "import / star import / __all__ / sys.modules / all module namespaces, and one behaviour case per public name "
        "(own sub-package only vs whole framework, ~35 argument tuples and the element methods on 9 values / 5 flows). "
        "thorough adds seeded random argument tuples. Non-trivial: a function case whose body loads at least one global, an "
        "entry case, a behaviour case in which at least one call returned.")
CASE_TIMEOUT = 30

_PY = sys.executable
_PROBE = str(VERIF / "harness" / "c20_probe.py")
_state = {"facts": None, "lock": None, "static": {}, "behaviour": {}, "random": None, "error": None}


# ----------------------------------------------------------------------------------------------------------
# facts / generated Lean files

def _facts():
    if _state["facts"] is None:
        _state["facts"] = extract_facts.extract(str(REPO))
    return _state["facts"]


def _cleanup_alt():
    for rel in (GEN_REL, INSTANCE_REL):
        try:
            (LEAN_DIR / rel).unlink()
        except OSError:
            pass


def pre_build(ctx):
    """regenerate the Lean facts from the tree under test (called by run_check before `lake build`)"""
    try:
        _pre_build(ctx)
    except Exception as e:      # a crash of the translator is a harness error (exit 2), never a verdict
        import traceback
        _state["error"] = "pre_build: " + "".join(traceback.format_exception_only(type(e), e)).strip() \
            + "\n" + traceback.format_exc()[-1500:]


def _pre_build(ctx):
    (LEAN_DIR / ".lake").mkdir(exist_ok=True)
    # one C20 check at a time: the generated files are shared; the lock is held until the process exits
    lock = open(LEAN_DIR / ".lake" / "c20.lock", "w")
    fcntl.flock(lock, fcntl.LOCK_EX)
    _state["lock"] = lock
    facts = _facts()
    text = extract_facts.render_lean(facts)
    if ALT:
        atexit.register(_cleanup_alt)
        extract_facts.write_atomic(LEAN_DIR / GEN_REL, text)
        inst = (LEAN_DIR / "LenaModel/Props/C20Instance.lean").read_text()
        inst = inst.replace("import LenaModel.Gen.C20Facts", "import LenaModel.Gen.C20FactsAlt")
        extract_facts.write_atomic(LEAN_DIR / INSTANCE_REL, inst)
        drv = (LEAN_DIR / "drivers/C20.lean").read_text()
        drv = drv.replace("import LenaModel.Gen.C20Facts", "import LenaModel.Gen.C20FactsAlt")
        extract_facts.write_atomic(LEAN_DIR / DRIVER, drv)
    else:
        extract_facts.write_atomic(LEAN_DIR / GEN_REL, text)
    notes = getattr(ctx, "notes", [])
    notes.append({"translator": facts["stats"], "dynamic_constructs_not_modelled": facts["notes"],
                  "source_hash": facts["source_hash"], "repo": str(REPO), "generated": GEN_REL})
    ctx.notes = notes


# ----------------------------------------------------------------------------------------------------------
# probes (fresh interpreters)

def _absent(env):
    """names of the third-party modules that are absent in environment `env` (a bit set over facts["ext"])"""
    return [x for i, x in enumerate(_facts()["ext"]) if (env >> i) & 1]


def _testable(env):
    """can this environment be produced in a fresh interpreter?  Absence can always (sys.modules[name] = None);
    presence only of what is installed (a stub would not behave like the real module at import time)"""
    facts = _facts()
    return all(((env >> i) & 1) or extract_facts._ext_available(x) for i, x in enumerate(facts["ext"]))


def _run_probe(mode, pkg, env):
    facts = _facts()
    penv = dict(os.environ, PYTHONWARNINGS="ignore", PYTHONDONTWRITEBYTECODE="1", PYTHONHASHSEED="0")
    penv.pop("PYTHONPATH", None)
    # -I: isolated (no PYTHONPATH, no script directory on sys.path); the probe puts the tree under test first
    opts = dict(_state["random"] or {}) if mode != "static" else {}
    opts["absent"] = _absent(env)
    extra = [json.dumps(opts)]
    p = subprocess.run([_PY, "-I", _PROBE, str(REPO), mode, pkg, json.dumps(facts["subpackages"])] + extra,
                       capture_output=True, text=True, timeout=600, env=penv, cwd="/tmp")
    if p.returncode != 0 or not p.stdout.strip():
        raise RuntimeError(f"probe {mode} {pkg} env={env} failed rc={p.returncode}: {p.stderr[-1500:]}")
    return json.loads(p.stdout)


def _probe(mode, pkg, env):
    key = (mode, pkg, env)
    tab = _state["static"] if mode == "static" else _state["behaviour"]
    if key not in tab:
        tab[key] = _run_probe(mode, pkg, env)
    return tab[key]


def _probe_all(ctx):
    facts = _facts()
    jobs = []
    for env in facts["envs"]:
        if not _testable(env):
            continue
        jobs += [("static", p, env) for p in facts["subpackages"] + ["all"]]
        jobs += [(m, p, env) for p in facts["subpackages"] for m in ("behaviour", "behaviour-full")]
    todo = [j for j in jobs if j not in _state["static"] and j not in _state["behaviour"]]
    with concurrent.futures.ThreadPoolExecutor(max_workers=8) as ex:
        for (mode, pkg, env), res in zip(todo, ex.map(lambda j: _run_probe(*j), todo)):
            (_state["static"] if mode == "static" else _state["behaviour"])[(mode, pkg, env)] = res


def _entry_name(pkg):
    return f"__main__[{pkg}]"


# ----------------------------------------------------------------------------------------------------------
# cases

def gen_cases(ctx):
    if _state.get("error"):
        return [{"kind": "harness-error", "error": _state["error"]}]
    try:
        return _gen_cases(ctx)
    except Exception as e:      # a probe that cannot be run is a harness error (exit 2), never a verdict
        import traceback
        return [{"kind": "harness-error", "error": f"gen_cases: {e!r}\n{traceback.format_exc()[-1500:]}"}]


def _gen_cases(ctx):
    facts = _facts()
    if ctx.tier == "thorough":
        # seeded random argument tuples on top of the fixed palettes (the same in both interpreters)
        _state["random"] = {"n": 150, "seed": ctx.rng.randrange(2 ** 32)}
    _probe_all(ctx)
    cases = [{"kind": "meta"}]
    by_name = {m["name"]: m for m in facts["modules"]}
    untestable = []
    for env in facts["envs"]:
        if not _testable(env):
            untestable.append(env)
            continue
        ab = _absent(env)
        for pkg in facts["subpackages"] + ["all"]:
            cases.append({"kind": "entry", "entry": pkg, "env": env, "absent": ab})
            pr = _probe("static", pkg, env)
            if pr["import"] != "ok":
                continue        # the entry case reports the failing import; nothing is callable
            keys = set(pr.get("funcs", {}))
            for mname in pr.get("loaded", []):
                for f in by_name.get(mname, {}).get("funcs", []):
                    keys.add(f"{mname}|{f['name']}|{f['line']}")
            for k in sorted(keys):
                mname, q, line = k.rsplit("|", 2)
                cases.append({"kind": "func", "entry": pkg, "env": env, "absent": ab, "module": mname, "func": q,
                              "line": int(line)})
        for pkg in facts["subpackages"]:
            own = _probe("behaviour", pkg, env)
            full = _probe("behaviour-full", pkg, env)
            names = sorted(set(own.get("results", {})) | set(full.get("results", {})))
            if not names:
                cases.append({"kind": "behaviour", "pkg": pkg, "name": None, "env": env, "absent": ab})
            for n in names:
                cases.append({"kind": "behaviour", "pkg": pkg, "name": n, "env": env, "absent": ab})
    notes = getattr(ctx, "notes", [])
    notes.append({"environments": [{"env": e, "absent": _absent(e), "tested_in_fresh_interpreters": e not in untestable}
                                   for e in facts["envs"]],
                  "third_party_modules_of_import_time_code": facts["ext"], "never_importable_here": facts["always_absent"]})
    ctx.notes = notes
    # the scope of the quantifier (sub-packages x advertised names x functions x global loads) is enumerated
    # completely; the argument tuples of the behaviour cases are a fixed palette (+ a seeded sample in thorough)
    ctx.exhaustive = True
    return cases


def run_impl(case):
    kind = case["kind"]
    if kind == "harness-error":
        raise RuntimeError(case["error"])
    facts = _facts()
    if kind == "meta":
        return {"hash": facts["source_hash"], "modules": [m["name"] for m in facts["modules"]]}
    if kind == "entry":
        pr = _probe("static", case["entry"], case["env"])
        return {"import": pr["import"], "star": pr["star"], "loaded": pr["loaded"], "ns": pr["ns"]}
    if kind == "func":
        pr = _probe("static", case["entry"], case["env"])
        ent = pr["funcs"].get(f"{case['module']}|{case['func']}|{case['line']}")
        if ent is None:
            return {"present": False, "import": pr["import"] if pr["import"] != "ok" else None}
        return {"present": True, "loads": ent["loads"], "problems": ent["problems"], "forked": ent["forked"]}
    if kind == "behaviour":
        own = _probe("behaviour", case["pkg"], case["env"])
        full = _probe("behaviour-full", case["pkg"], case["env"])
        if case["name"] is None:
            return {"own_fatal": own.get("fatal"), "full_fatal": full.get("fatal")}
        return {"own": own.get("results", {}).get(case["name"]), "full": full.get("results", {}).get(case["name"]),
                "own_fatal": own.get("fatal"), "full_fatal": full.get("fatal"),
                "own_loaded": own.get("loaded_subpackages")}
    raise ValueError(kind)


def model_requests(case):
    kind = case["kind"]
    if kind == "meta":
        return [{"op": "meta"}]
    if kind == "entry":
        return [{"op": "entry", "e": _entry_name(case["entry"]), "env": case["env"]}]
    if kind == "func":
        return [{"op": "call", "e": _entry_name(case["entry"]), "env": case["env"], "m": case["module"],
                 "f": case["func"], "line": case["line"]}]
    return []


_DUNDER = re.compile(r"^__\w+__$")


def compare(case, res, replies):
    kind = case["kind"]
    m = replies[0]
    if "err" in m and isinstance(m["err"], str):
        return f"model driver error: {m['err']}"
    facts = _facts()
    if kind == "meta":
        if m.get("hash") != res["hash"]:
            return f"the Lean facts were generated from another tree: {m.get('hash')} vs {res['hash']}"
        if m.get("modules") != res["modules"]:
            return "module list of the Lean facts differs from the translator's"
        if not m.get("layout"):
            return "layoutOk is false for the generated facts"
        if m.get("ext") != facts["ext"] or m.get("envs") != facts["envs"]:
            return f"environments of the Lean facts {m.get('ext')} {m.get('envs')} differ from the translator's"
        return None
    if kind == "entry":
        imp_ok = res["import"] == "ok"
        if m.get("ok") != imp_ok:
            return f"import of {case['entry']}: impl {res['import']} vs model {m.get('err', 'ok')}"
        if not imp_ok:
            return None
        main = _entry_name(case["entry"])
        loaded_model = sorted(k for k in m["loaded"] if not k.startswith("__main__"))
        if loaded_model != res["loaded"]:
            return (f"sys.modules after `import {case['entry']}`: impl-only {sorted(set(res['loaded']) - set(loaded_model))}, "
                    f"model-only {sorted(set(loaded_model) - set(res['loaded']))}")
        if any(v != "done" for v in m["loaded"].values()):
            return f"model leaves modules partially initialised: {[k for k, v in m['loaded'].items() if v != 'done']}"
        may = {mm["name"]: set(mm["may"]) for mm in facts["modules"]}
        assumed = {mm["name"]: set(mm.get("assumed", ())) for mm in facts["modules"]}
        for mod in res["loaded"]:
            real, model = res["ns"][mod], m["ns"].get(mod, {})
            extra_real = {k for k in real if k not in model and k not in may.get(mod, ()) and not
                          any(s.startswith("*") for s in may.get(mod, ())) and k != "__warningregistry__"}
            extra_model = {k for k in model if k not in real and k not in assumed.get(mod, ())}
            if extra_real or extra_model:
                return f"namespace of {mod}: only in the interpreter {sorted(extra_real)}, only in the model {sorted(extra_model)}"
            for k in model:
                if k in real and model[k] != real[k] and not _DUNDER.match(k):
                    return f"{mod}.{k}: interpreter has {real[k]}, model has {model[k]}"
        # the star import(s) of the entry
        star_ok = all(s["ok"] for s in res["star"].values())
        if star_ok:
            names = set()
            for s in res["star"].values():
                names |= set(s["names"])
            model_names = set(m["ns"].get(main, {})) - {"lena"}
            if names != model_names:
                return (f"names bound by the star import: impl-only {sorted(names - model_names)}, "
                        f"model-only {sorted(model_names - names)}")
        if bool(m.get("exported")) != all(not s.get("missing") for s in res["star"].values()):
            return f"exportedB = {m.get('exported')} but the interpreter misses {[s.get('missing') for s in res['star'].values()]}"
        # the static import closure is the set of loaded modules
        if not m.get("closureClosed"):
            return "closedSetB is false for the import closure of this entry"
        # the static import closure bounds sys.modules from above (theorem loaded_within_closure); it is equal
        # unless an import sits in a branch that this interpreter does not take
        outside = sorted(set(res["loaded"]) - set(m["closure"]))
        if outside:
            return f"modules in sys.modules that are not in the static import closure: {outside}"
        return None
    if kind == "func":
        if "import" in m:
            return None if res.get("import") else f"model cannot import the entry ({m['import']}) but the interpreter can"
        r = m.get("r", [])
        if not res.get("present"):
            return None if m.get("missing") or not r else f"the model has this function, the bytecode of {case['module']} has not"
        if m.get("missing"):
            return (f"the bytecode loads {res['loads']} global names but the translator emitted no events"
                    if res["loads"] or res["problems"] else None)
        if not r:
            return "no reachable state in the model"
        bad_model = [x for x in r if x != "ok" and x != "not-callable"]
        if r[0] == "not-callable":
            return "the model does not consider the function callable after the import of the entry"
        if res["problems"]:
            if r[0] == "ok":
                return f"bytecode: unresolved {res['problems']}; model: resolves"
            names = {(p["kind"], p["name"]) for p in res["problems"]}
            mname = (r[0].get("name") or "").replace(extract_facts.LOCAL_SUFFIX, "")
            if (r[0].get("kind"), mname) not in names and r[0].get("kind") != "ImportError":
                return f"bytecode: unresolved {res['problems']}; model: {r[0]}"
            return None
        if bad_model:
            return f"bytecode: every load resolves; model: {bad_model[0]}"
        return None
    return None


def _undefined(summ):
    return isinstance(summ, str) and ":UNDEFINED:" in summ


def _envtxt(case):
    missing = [x for x in case.get("absent", []) if x not in _facts()["always_absent"]]
    return f" [environment: {', '.join(missing)} cannot be imported]" if missing else ""


def oracle(case, res):
    """the property's own statement on the real code"""
    msg = _oracle(case, res)
    return msg + _envtxt(case) if msg else None


def _oracle(case, res):
    kind = case["kind"]
    if kind == "meta":
        return None
    if kind == "entry":
        e = case["entry"]
        if res["import"] != "ok":
            what = "importing all sub-packages" if e == "all" else f"`import {e}`"
            return f"{what} in a fresh interpreter fails: {res['import']['type']}: {res['import']['msg']}"
        for pkg, s in res["star"].items():
            if s.get("missing"):
                return f"{pkg}.__all__ advertises names that do not exist: {s['missing']}"
            if not s["ok"]:
                return f"`from {pkg} import *` fails: {s['exc']['type']}: {s['exc']['msg']}"
        return None
    if kind == "func":
        if res.get("present") and res["problems"]:
            p = res["problems"][0]
            where = f"{case['module']}, function {case['func']} (line {case['line']})"
            if p["kind"] == "NameError" and p.get("unbound_local"):
                what = (f"local name '{p['name']}' is bound only by an import statement that is not certain to have "
                        f"run (UnboundLocalError)")
            elif p["kind"] == "NameError":
                what = f"global name '{p['name']}' is not defined in the module nor in builtins"
            elif p["kind"] == "AttributeError":
                what = f"module '{p.get('on')}' has no attribute '{p['name']}' (reading {p.get('root')}. ... .{p['name']})"
            else:
                what = f"{p['kind']}: {p.get('name')} {p.get('msg', '')}"
            how = "with the whole framework imported" if case["entry"] == "all" else f"with only {case['entry']} imported"
            return f"{how}: {where}: {what}"
        return None
    if kind == "behaviour":
        for k in ("own_fatal", "full_fatal"):
            if res.get(k):
                return f"exercising lena sub-package {case['pkg']} ({k}): {res[k]}"
        if case["name"] is None:
            return None
        own, full = res.get("own") or {}, res.get("full") or {}
        for lab, d in (("only " + case["pkg"] + " imported", own), ("whole framework imported", full)):
            for k in sorted(d):
                if _undefined(d[k]):
                    return f"{case['pkg']}.{k} ({lab}) fails by referring to an undefined name: {d[k]}"
        if own != full:
            for k in sorted(set(own) | set(full)):
                if "timeout" in (own.get(k), full.get(k)):
                    continue        # a watchdog outcome is not a behaviour
                if own.get(k) != full.get(k):
                    return (f"{case['pkg']}.{k} behaves differently with only {case['pkg']} imported ({own.get(k)}) "
                            f"and with the whole framework imported ({full.get(k)})")
        return None
    raise ValueError(kind)


def search_cases(sctx):
    """called when the proof or the correspondence is broken and no generated case fails: the scope was enumerated
    completely already, so there is nothing more to search; print what the Lean resolver itself reports"""
    sctx.exhaustive = True
    try:
        from harness.common import ModelDriver
        rep = ModelDriver(DRIVER).ask([{"op": "findings"}], timeout=600)[0]
        for f in rep.get("findings", [])[:20]:
            print(f"# C20 model-finding: entry {f['entry']}: {f.get('module')} {f.get('func')} "
                  f"(line {f.get('line')}): {json.dumps(f['err'], sort_keys=True)}")
        if not rep.get("findings"):
            print("# C20 model-finding: the resolver reports no unresolved name for these facts")
    except Exception as e:    # the Lean side may not have been built
        print(f"# C20 model-finding: driver not available ({str(e)[:200]})")
    return []


def nontrivial(case, res):
    kind = case["kind"]
    if kind == "func":
        return bool(res.get("present") and (res["loads"] or res["problems"]))
    if kind == "behaviour":
        return any(isinstance(v, str) and not v.startswith("exc:") and v != "timeout" and k != "kind"
                   for k, v in (res.get("own") or {}).items())
    return kind == "entry"


def classify(case, res):
    kind = case["kind"]
    if kind == "func":
        if not res.get("present"):
            return ["func:absent"]
        labs = ["func:unresolved" if res["problems"] else ("func:resolves" if res["loads"] else "func:no-global-loads")]
        if res.get("forked"):
            labs.append("func:imports-at-call-time")
        return labs
    if kind == "behaviour":
        d = res.get("own") or {}
        labs = ["behaviour"]
        labs += sorted({"behaviour:" + (v.split(":")[0] + ":" + v.split(":")[1] if v.startswith("exc:") else "returns")
                        for k, v in d.items() if k != "kind" and isinstance(v, str)})
        return labs
    return [kind]


def signature(case, failure):
    if case["kind"] == "func":
        # one report per function, whatever the entry point it was seen from
        return f"func:{case['module']}:{case['func']}"
    if case["kind"] == "behaviour":
        if "_fatal)" in (failure or ""):
            return f"behaviour-fatal:{case['pkg']}"
        return f"behaviour:{case['pkg']}:{case['name']}"
    if case["kind"] == "entry" and "__all__" in (failure or ""):
        return "entry:" + failure.split(" [environment")[0]   # seen from two entry points / environments: one finding
    return f"{case['kind']}:{case.get('entry', '')}"


# ---- MANIFEST texts ------------------------------------------------------------------------
LEVEL_TEXT = ("Lean 4 theorems about an interpreter for Python's import machinery and name resolution (sys.modules, "
              "partially initialised modules, submodule attributes, IMPORT_FROM, LEGB, try/except ImportError around "
              "optional third-party imports, with the set of absent third-party modules as a parameter): resolver_sound "
              "/ resolver_sound_envs hold for all facts and all environments "
              "(no entry point followed by any sequence of calls reaches an unresolved global or a missing attribute of a "
              "lena module when the check passes), and the instance theorems current_tree_resolves / current_tree_safe / "
              "all_exported are re-checked by the kernel on every run against facts regenerated from the working tree by a "
              "translator (ast + symtable); the translator and the semantics are validated on every run against fresh "
              "interpreters (sys.modules, all module namespaces, every function's bytecode), and every public element is "
              "exercised with only its own sub-package imported and with the whole framework imported.")
LEVEL_NOTE = ("Trusted: Lean kernel (+ propext, Classical.choice, Quot.sound), the translator and the abstract import "
              "semantics as validated by the exhaustive correspondence run, CPython 3.12 + installed distributions. "
              "Outside the model: names created dynamically (globals()[...] in flow/zip.py), attributes of non-module "
              "objects, Python-2 branches.")
TECHNIQUE = "Lean 4 proof (general soundness + kernel-evaluated instance) over translated facts + exhaustive correspondence with fresh interpreters"
DESIGN_REF = "DESIGN.md section 3, C20"
