"""Bridge (nested-dictionary context functions) — executable cross-check of LenaModel/Bridge/Context.lean.

The functions of lena/context/functions.py (update_recursively, intersection, get_recursively, contains, str_to_dict,
format_context, format_update_with, update_nested) and Variable._update_context are transcribed several times, over
different value types: Lena.C07 (slot vectors, any leaf type), Lena.C13 (slot vectors over ints and strings), Lena.C08
(insertion-ordered association lists), Lena.C15 (its own slot type + key table), Lena.C11/C14 (C14's value type), and the
flow vocabulary of C01/C05 (`Flow.variableCall`).  `LenaModel/Bridge/Context.lean` proves that the transcriptions agree
under explicit translation maps.  This module runs the REAL lena function on random inputs and asks the driver
`drivers/BridgeContext.lean` to evaluate ALL the transcriptions on the input translated *with the maps of the bridge
file itself* (the driver imports it); `compare` demands that every one of them equals the real result on the common
domain stated in the bridge file (outside it a transcription is not consulted, or only for the outcome class).

Every case carries "b": 1; anything else (the corpus of the C07 check proper: same PID) is passed through.
`./check BRIDGE_CONTEXT --tier quick` runs this module; PID is "C07" (the property whose check carries the bridge
theorems through harness/bridges.json), the evidence goes to evidence/bridge_context.json (EVIDENCE_NAME).
"""
from __future__ import annotations

import copy

from harness.common import exc_name, jdump

PID = "C07"
EVIDENCE_NAME = "bridge_context"
TITLE = ("Bridge: the independent Lean transcriptions of the nested-dictionary context functions (C07, C08, C13, C14/C11, "
         "C15, Flow) agree with each other and with lena")
LEAN_MODULES = ["LenaModel.Bridge.Context"]
LEAN_SOURCES = ["LenaModel/Bridge/Context.lean"]
DRIVER = "drivers/BridgeContext.lean"
THEOREMS = [
    # 0. the translation maps
    "Lena.Bridge.Context.absSlot_eq",
    "Lena.Bridge.Context.getSlot_absE",
    "Lena.Bridge.Context.getSlot_absE_not_mem",
    "Lena.Bridge.Context.absV_wf",
    "Lena.Bridge.Context.absE_wfd",
    "Lena.Bridge.Context.lookup_concL",
    "Lena.Bridge.Context.abs_conc",
    "Lena.Bridge.Context.absE_concE",
    "Lena.Bridge.Context.to15_of15",
    "Lena.Bridge.Context.of15_to15",
    "Lena.Bridge.Context.getSlot_of15L",
    "Lena.Bridge.Context.nonEmpty_of15L",
    "Lena.Bridge.Context.leaf13_leaf13to8",
    "Lena.Bridge.Context.leaf15_leaf15to8",
    # 1. update_recursively
    "Lena.Bridge.Context.updL_13_07",
    "Lena.Bridge.Context.updO_13_07",
    "Lena.Bridge.Context.updRec_08_07",
    "Lena.Bridge.Context.updItem_08_07",
    "Lena.Bridge.Context.updateRecursively_08_07",
    "Lena.Bridge.Context.updRec_08_13",
    "Lena.Bridge.Context.c13_update_idem",
    "Lena.Bridge.Context.c13_update_contains",
    "Lena.Bridge.Context.c07_updL_mono_13",
    "Lena.Bridge.Context.c08_update_idem",
    "Lena.Bridge.Context.c08_update_keys",
    # 2. intersection
    "Lena.Bridge.Context.interL_13_07",
    "Lena.Bridge.Context.interFold_13_07",
    "Lena.Bridge.Context.interN_13_07",
    "Lena.Bridge.Context.intersection_13_07",
    "Lena.Bridge.Context.splitGetContext_13_07",
    "Lena.Bridge.Context.c13_inter_perm",
    "Lena.Bridge.Context.c13_inter_glb",
    "Lena.Bridge.Context.c13_reconstruct",
    "Lena.Bridge.Context.c07_interN_is_meet_13",
    # 3. get_recursively
    "Lena.Bridge.Context.getSlot_mapLeafL",
    "Lena.Bridge.Context.getPath_mapLeaf",
    "Lena.Bridge.Context.updL_mapLeaf",
    "Lena.Bridge.Context.getRec_13_path",
    "Lena.Bridge.Context.getRec2_07_13",
    "Lena.Bridge.Context.getRec_13_error",
    "Lena.Bridge.Context.getRecGo_15_path",
    "Lena.Bridge.Context.getPath_08_path",
    "Lena.Bridge.Context.walk_08_path",
    "Lena.Bridge.Context.walk_08_13",
    "Lena.Bridge.Context.getRec_08_13",
    "Lena.Bridge.Context.lookupKey_15_08",
    "Lena.Bridge.Context.getRecGo_15_08",
    "Lena.Bridge.Context.getRec_13_15",
    "Lena.Bridge.Context.c08_update_keeps",
    "Lena.Bridge.Context.c13_update_keeps",
    "Lena.Bridge.Context.c15_reads_c08_update",
    # 4. contains
    "Lena.Bridge.Context.pyStr_15_08",
    "Lena.Bridge.Context.splitDots_15_08",
    "Lena.Bridge.Context.containsGo_08_15",
    "Lena.Bridge.Context.contains_08_15",
    "Lena.Bridge.Context.c15_contains_iff",
    "Lena.Bridge.Context.contains_empty_08_15",
    # 5. str_to_dict
    "Lena.Bridge.Context.single_07_range",
    "Lena.Bridge.Context.single_13_07",
    "Lena.Bridge.Context.absE_singleton",
    "Lena.Bridge.Context.nestPath_08_07",
    "Lena.Bridge.Context.nestPath_08_13",
    "Lena.Bridge.Context.strToDict_08_13",
    "Lena.Bridge.Context.strToDict_08_07",
    "Lena.Bridge.Context.strToDict_path_08_07",
    "Lena.Bridge.Context.strToDict_empty_08_07",
    "Lena.Bridge.Context.updateRecursivelyStr_08_07",
    "Lena.Bridge.Context.c08_str_to_dict_value",
    "Lena.Bridge.Context.c13_single_read",
    # 6. format_context, format_update_with
    "Lena.Bridge.Context.render_13_08",
    "Lena.Bridge.Context.lookups_13_08",
    "Lena.Bridge.Context.renderAll_13_08",
    "Lena.Bridge.Context.fmt_08_13",
    "Lena.Bridge.Context.renderAll_13_bad",
    "Lena.Bridge.Context.fmt_13_bad",
    "Lena.Bridge.Context.ucSet_08_13",
    "Lena.Bridge.Context.tpl_has_brace",
    "Lena.Bridge.Context.fuw_const_08_13",
    "Lena.Bridge.Context.fuw_tpl_08_13",
    "Lena.Bridge.Context.c08_format_mono",
    # 7. update_nested, dictionary primitives of C14's value type
    "Lena.Bridge.Context.getSlot_14",
    "Lena.Bridge.Context.setSlot_14",
    "Lena.Bridge.Context.emptyD_14",
    "Lena.Bridge.Context.dictUpdate_14_13",
    "Lena.Bridge.Context.nestInto_11_07",
    "Lena.Bridge.Context.nestSlots_11_07",
    "Lena.Bridge.Context.updateNested_11_07",
    "Lena.Bridge.Context.c11_update_nested_typeError_iff",
    "Lena.Bridge.Context.c11_update_nested_absent",
    # 8. Variable._update_context
    "Lena.Bridge.Context.lookupF_dictSet",
    "Lena.Bridge.Context.getSlot_absFE",
    "Lena.Bridge.Context.absFE_dictSet",
    "Lena.Bridge.Context.updateContext_14_flow",
    "Lena.Bridge.Context.variableCall_ctx_14",
    "Lena.Bridge.Context.UP_untyped",
    # 9. the slot-vector side is covered (absE is onto)
    "Lena.Bridge.Context.concE_wf",
    "Lena.Bridge.Context.updL_07_08",
    "Lena.Bridge.Context.updL_13_08",
    "Lena.Bridge.Context.getPath_07_08",
    "Lena.Bridge.Context.contains_15_08",
]
TRUSTED = [
    "Lean 4.33.0 kernel; axioms limited to propext, Classical.choice, Quot.sound (audited by #print axioms on every run)",
    "the translation maps are those of LenaModel/Bridge/Context.lean itself (the driver imports the bridge file); trusted are "
    "the JSON encoders/decoders of harness/props/bridge_context.py and drivers/BridgeContext.lean and the printing of slot "
    "vectors back into dictionaries (key table = sorted keys of the case)",
]
ASSUMPTIONS = [
    "dictionaries have string keys; scalars are None, bool, int, str, float (C08's vocabulary); C13/C07-over-C13-leaves are "
    "compared on ints and strings only, C15 on dictionaries without lists (the common domains stated in the bridge file)",
    "the key table of a case holds every key of its dictionaries and every part of its query strings",
]
RULE = ("cases over alphabets of 2-5 short keys, dictionaries of depth <= 3: (upd) update_recursively(d, other) with "
        "arbitrary scalars and lists, also non-dictionary arguments: C08 (result compared in insertion order), C07, C13; "
        "(inter) intersection of 0-4 dictionaries at levels -1, -2, 0, 1, 2, also a non-dictionary argument: C07, C13 "
        "(negative levels); (get) get_recursively with dotted-string and list keys (also empty parts), present and absent "
        "paths, through scalars: C08, C13, C15, Val.getPath; (contains) contains(d, s) with paths and str() of scalars as "
        "last part: C08, C15; (s2d) str_to_dict with and without value, empty string, one part, empty parts: C08, C07Ext, "
        "C13.single; (fmt) format_context on templates of literals and {{key.path}} fields, fields present/absent/naming a "
        "dictionary: C08 scanner + formatter, C13.fmt; (fuw) format_update_with with constant and template values: C08, "
        "C13.fmtUpdate; (nested) update_nested with nested keys and scalars on the way: C07, C11; (var) untyped "
        "Variable.__call__ on contexts with/without an untyped variable: C14.updateContext (both conditions), "
        "Flow.variableCall. Non-trivial: the real call returned a value (not an exception) with some content.")
CASE_TIMEOUT = 10
LEVEL_TEXT = ("Lean 4 theorems relating the independent transcriptions (C07, C08, C13, C14/C11, C15, Flow) of the context "
              "functions to each other for all inputs, plus an executable cross-check of all transcriptions against the real code")
LEVEL_NOTE = ("Trusted: Lean kernel (+ propext, Classical.choice, Quot.sound); JSON encoders and the printing of slot vectors; "
              "the executable part samples.")
TECHNIQUE = "Lean 4 agreement (bridge) theorems between hand-written models + sampled cross-check of all models against lena"
DESIGN_REF = "DESIGN.md section 9.3b (bridges); LenaModel/Bridge/Context.lean header"

MISSING = object()

# ----------------------------------------------------------------------------------------
# wire form (as harness/props/c08.py): scalars as JSON scalars, dict {"d": [[k, v], ...]} in insertion order,
# list {"L": [...]}, float {"f": repr}


def enc(v):
    if isinstance(v, dict):
        return {"d": [[k, enc(x)] for k, x in v.items()]}
    if isinstance(v, (list, tuple)):
        return {"L": [enc(x) for x in v]}
    if v is None or isinstance(v, (bool, int, str)):
        return v
    if isinstance(v, float):
        return {"f": repr(v)}
    return {"py": type(v).__name__}


def dec(w):
    if isinstance(w, dict):
        if "d" in w:
            return {k: dec(x) for k, x in w["d"]}
        if "L" in w:
            return [dec(x) for x in w["L"]]
        if "f" in w:
            return float(w["f"])
        return object()
    return w


def canon_w(w):
    """order-insensitive canonical form of a wire value"""
    if isinstance(w, dict) and "d" in w:
        return {"d": sorted(([k, canon_w(x)] for k, x in w["d"]), key=lambda kv: kv[0])}
    if isinstance(w, dict) and "L" in w:
        return {"L": [canon_w(x) for x in w["L"]]}
    if isinstance(w, dict) and "T" in w:
        return {"T": [canon_w(x) for x in w["T"]]}
    return w


def weq(a, b):
    return jdump(canon_w(a)) == jdump(canon_w(b))


def keys_of(w, acc):
    if isinstance(w, dict) and "d" in w:
        for k, x in w["d"]:
            acc.add(k)
            keys_of(x, acc)
    elif isinstance(w, dict) and "L" in w:
        for x in w["L"]:
            keys_of(x, acc)
    return acc


def only(w, pred):
    """do all scalars (and list-ness) of a wire value satisfy pred"""
    if isinstance(w, dict) and "d" in w:
        return all(only(x, pred) for _, x in w["d"])
    return pred(w)


def is_is(w):
    """ints and strings only (no bool: C13's leaves)"""
    return only(w, lambda x: isinstance(x, str) or (isinstance(x, int) and not isinstance(x, bool)))


def is_15(w):
    """what C15 represents: None, bool, int, str, float; no list"""
    return only(w, lambda x: x is None or isinstance(x, (bool, int, str)) or (isinstance(x, dict) and "f" in x))


# ----------------------------------------------------------------------------------------
# generators

KEYS = ["a", "b", "c", "k", "zip"]
LEAVES_IS = [0, 1, -3, 7, "s", "", "a", "1", "x y"]
LEAVES_ALL = LEAVES_IS + [None, True, False, 1.5, [1], [], [1, "a"], 0.0]
LEAVES_15 = LEAVES_IS + [None, True, False, 1.5, "None", "True", "1.5"]


def rand_dict(rng, keys, depth, leaves, p_sub=0.35, p_key=0.6):
    d = {}
    ks = list(keys)
    rng.shuffle(ks)
    for k in ks:
        if rng.random() < p_key:
            if depth > 1 and rng.random() < p_sub:
                d[k] = rand_dict(rng, keys, depth - 1, leaves, p_sub, p_key)
            else:
                d[k] = copy.deepcopy(rng.choice(leaves))
    return d


def rand_keys(rng):
    return rng.sample(KEYS, rng.randint(2, len(KEYS)))


def names_of(*wires, extra=()):
    acc = set(extra)
    for w in wires:
        keys_of(w, acc)
    return sorted(acc)


def rand_path(rng, keys, d, maxlen=3):
    """a key path, biased towards paths that exist in d"""
    p = []
    cur = d
    for _ in range(rng.randint(0, maxlen)):
        if isinstance(cur, dict) and cur and rng.random() < 0.75:
            k = rng.choice(list(cur))
            cur = cur[k]
        else:
            k = rng.choice(keys)
            cur = cur.get(k, MISSING) if isinstance(cur, dict) else MISSING
        p.append(k)
    return p


def gen_upd(rng):
    keys = rand_keys(rng)
    isonly = rng.random() < 0.5
    leaves = LEAVES_IS if isonly else LEAVES_ALL
    d = rand_dict(rng, keys, 3, leaves)
    o = rand_dict(rng, keys, 3, leaves)
    r = rng.random()
    if r < 0.05:
        o = rng.choice([5, None, [1, 2], 1.5])
    elif r < 0.1:
        d = rng.choice([5, None, [1, 2]])
    wd, wo = enc(d), enc(o)
    return {"b": 1, "op": "upd", "names": names_of(wd, wo), "d": wd, "o": wo, "is": is_is(wd) and is_is(wo)}


def gen_inter(rng):
    keys = rand_keys(rng)
    n = rng.choice([0, 1, 2, 2, 2, 3, 3, 4])
    base = rand_dict(rng, keys, 3, LEAVES_IS, p_key=0.8)
    ds = []
    for _ in range(n):
        d = copy.deepcopy(base)
        for _ in range(rng.randint(0, 3)):            # perturb: so that intersections are non-trivial
            p = rand_path(rng, keys, d, 3) or [rng.choice(keys)]
            cur = d
            for k in p[:-1]:
                if not isinstance(cur.get(k), dict):
                    cur[k] = {}
                cur = cur[k]
            if rng.random() < 0.3:
                cur.pop(p[-1], None)
            else:
                cur[p[-1]] = rng.choice(LEAVES_IS + [{}])
        ds.append(d)
    if ds and rng.random() < 0.06:
        ds[rng.randrange(len(ds))] = rng.choice([5, "s"])
    ws = [enc(d) for d in ds]
    return {"b": 1, "op": "inter", "names": names_of(*ws, extra=keys), "ds": ws,
            "lv": rng.choice([-1, -1, -1, -1, -2, 0, 1, 2, 3])}


def gen_get(rng):
    keys = rand_keys(rng)
    leaves = rng.choice([LEAVES_IS, LEAVES_15, LEAVES_ALL])
    d = rand_dict(rng, keys, 3, leaves, p_key=0.75)
    if rng.random() < 0.04:
        d = rng.choice([5, None, "s"])
    p = rand_path(rng, keys, d if isinstance(d, dict) else {}, 3)
    if rng.random() < 0.6:
        parts = list(p)
        if parts and rng.random() < 0.15:
            parts.insert(rng.randrange(len(parts) + 1), "")      # empty parts are skipped by get_recursively
        key = {"s": ".".join(parts)}
        p = [k for k in ".".join(parts).split(".") if k]
    else:
        key = {"l": list(p)}
    wd = enc(d)
    return {"b": 1, "op": "get", "names": names_of(wd, extra=p), "d": wd, "key": key, "p": p}


def gen_contains(rng):
    keys = rand_keys(rng)
    d = rand_dict(rng, keys, 3, LEAVES_15, p_key=0.75)
    p = rand_path(rng, keys, d, 3)
    r = rng.random()
    cur = d
    for k in p:
        cur = cur.get(k, MISSING) if isinstance(cur, dict) else MISSING
    if r < 0.4 and cur is not MISSING and not isinstance(cur, dict):
        p = p + [str(cur)]                                       # the last part is str() of the scalar
    elif r < 0.5:
        p = p + [rng.choice(["None", "1", "7", "True", "", "s"])]
    s = ".".join(p)
    if rng.random() < 0.05:
        s = rng.choice(["", ".", "a.", ".a"])
    wd = enc(d)
    return {"b": 1, "op": "contains", "names": names_of(wd, extra=s.split(".")), "d": wd, "s": s}


def gen_s2d(rng):
    keys = rand_keys(rng)
    r = rng.random()
    if r < 0.08:
        s = ""
    elif r < 0.16:
        s = rng.choice(["a.", ".a", "a..b", "."])
    else:
        s = ".".join(rng.choice(keys) for _ in range(rng.randint(1, 4)))
    case = {"b": 1, "op": "s2d", "s": s, "p": s.split(".")}
    wv = None
    if rng.random() < 0.65:
        v = rng.choice(LEAVES_ALL + [{"a": 1}, {}, {"b": {"c": "s"}}])
        wv = enc(copy.deepcopy(v))
        case["value"] = wv
    case["names"] = names_of(wv, extra=case["p"] + keys)
    return case


LITS = ["", "_", "x", "run ", "-", "a.b", "1"]


def rand_tpl(rng, keys, d, nmax=3):
    parts = []
    for _ in range(rng.randint(0, nmax)):
        p = rand_path(rng, keys, d, 2) or [rng.choice(keys)]
        parts.append([p, rng.choice(LITS)])
    return {"head": rng.choice(LITS), "parts": parts}


def tpl_str(t):
    return t["head"] + "".join("{{" + ".".join(p) + "}}" + lit for p, lit in t["parts"])


def gen_fmt(rng):
    keys = rand_keys(rng)
    leaves = LEAVES_IS if rng.random() < 0.8 else LEAVES_ALL
    d = rand_dict(rng, keys, 3, leaves, p_key=0.8)
    t = rand_tpl(rng, keys, d)
    wd = enc(d)
    return {"b": 1, "op": "fmt", "names": names_of(wd, extra=keys), "t": t, "d": wd}


def gen_fuw(rng):
    keys = rand_keys(rng)
    d = rand_dict(rng, keys, 3, LEAVES_IS, p_key=0.8)
    p = [rng.choice(keys) for _ in range(rng.randint(1, 3))]
    if rng.random() < 0.5:
        v = {"c": rng.choice([0, 5, -1, "s", "", "plain text"])}
    else:
        t = rand_tpl(rng, keys, d, 2)
        if not t["parts"]:
            t["parts"] = [[[rng.choice(keys)], ""]]
        v = {"t": t}
    wd = enc(d)
    return {"b": 1, "op": "fuw", "names": names_of(wd, extra=keys), "p": p, "v": v, "d": wd}


def gen_nested(rng):
    keys = rand_keys(rng)
    k = rng.choice(keys)
    d = rand_dict(rng, keys, 2, LEAVES_IS, p_key=0.5)
    o = rand_dict(rng, keys, 2, LEAVES_IS, p_key=0.5)
    r = rng.random()
    if r < 0.7:
        d[k] = rng.choice([1, "v", {"a": 1}, {}])
    # a chain other[k][k]... ending in an absent key, a scalar or an empty dictionary
    cur = o
    for _ in range(rng.randint(0, 3)):
        nxt = rand_dict(rng, keys, 1, LEAVES_IS, p_key=0.4)
        nxt.pop(k, None)
        cur[k] = nxt
        cur = nxt
    if rng.random() < 0.25:
        cur[k] = rng.choice([3, "s", ""])
    wd, wo = enc(d), enc(o)
    return {"b": 1, "op": "nested", "names": names_of(wd, wo, extra=keys), "k": k, "d": wd, "o": wo}


def gen_var(rng):
    keys = rand_keys(rng)
    ctx = rand_dict(rng, keys, 2, [0, 1, 7, "s", "", [1, 2], []], p_key=0.5)
    r = rng.random()
    if r < 0.6:
        var = {"name": rng.choice(["v", "x", ""])}
        if rng.random() < 0.4:
            var[rng.choice(keys)] = rng.choice([1, "u", {"a": 2}])
        ctx["variable"] = var
    elif r < 0.7:
        ctx["variable"] = {}
    wc = enc(ctx)
    return {"b": 1, "op": "var", "names": names_of(wc, extra=["name", "type", "compose", "variable"]),
            "ctx": wc, "name": rng.choice(["w", "x", "mean", ""])}


GENS = [("upd", gen_upd, 3), ("inter", gen_inter, 3), ("get", gen_get, 3), ("contains", gen_contains, 2),
        ("s2d", gen_s2d, 1), ("fmt", gen_fmt, 2), ("fuw", gen_fuw, 2), ("nested", gen_nested, 2), ("var", gen_var, 1)]


def gen_cases(ctx):
    rng, big = ctx.rng, ctx.tier == "thorough"
    unit = 8000 if big else 1200
    for _, g, w in GENS:
        for _ in range(unit * w):
            yield g(rng)


# ----------------------------------------------------------------------------------------
# the real code

def _call(thunk):
    try:
        return {"r": enc(thunk())}
    except Exception as e:                                   # noqa: BLE001 (the exception class is the result)
        return {"e": exc_name(e)}


def run_impl(case):
    if not isinstance(case, dict) or case.get("b") != 1:
        return {"skip": True}            # a corpus case of the C07 check proper (same PID)
    import lena.context as lc
    op = case["op"]
    if op == "upd":
        def f():
            d = dec(case["d"])
            lc.update_recursively(d, dec(case["o"]))
            return d
        out = _call(f)
        if "r" in out:
            def g():
                d = dec(out["r"])
                lc.update_recursively(d, dec(case["o"]))
                return d
            out["again"] = _call(g)
        return out
    if op == "inter":
        return _call(lambda: lc.intersection(*[dec(w) for w in case["ds"]], level=case["lv"]))
    if op == "get":
        key = case["key"]["s"] if "s" in case["key"] else list(case["key"]["l"])
        return _call(lambda: lc.get_recursively(dec(case["d"]), key))
    if op == "contains":
        return _call(lambda: lc.contains(dec(case["d"]), case["s"]))
    if op == "s2d":
        if "value" in case:
            return _call(lambda: lc.str_to_dict(case["s"], dec(case["value"])))
        return _call(lambda: lc.str_to_dict(case["s"]))
    if op == "fmt":
        s = tpl_str(case["t"])
        try:
            f = lc.format_context(s)
        except Exception as e:                               # noqa: BLE001
            return {"init": exc_name(e), "str": s}
        out = _call(lambda: f(dec(case["d"])))
        out["init"] = "ok"
        out["str"] = s
        return out
    if op == "fuw":
        v = case["v"]
        value = dec(v["c"]) if "c" in v else tpl_str(v["t"])

        def f():
            d = dec(case["d"])
            lc.format_update_with(".".join(case["p"]), value, d)
            return d
        out = _call(f)
        out["value"] = enc(value)
        return out
    if op == "nested":
        def f():
            d = dec(case["d"])
            lc.update_nested(case["k"], d, dec(case["o"]))
            return d
        return _call(f)
    if op == "var":
        import lena.variables as lv

        def f():
            var = lv.Variable(case["name"], lambda x: x)
            return var((0, dec(case["ctx"])))[1]
        return _call(f)
    return {"skip": True}


# ----------------------------------------------------------------------------------------
# the models

def model_requests(case):
    if not isinstance(case, dict) or case.get("b") != 1:
        return []
    return [{k: v for k, v in case.items() if k != "b"}]


def _short(o):
    s = jdump(o) if not isinstance(o, str) else o
    return s if len(s) < 240 else s[:240] + "..."


def _same(name, got, want, ordered=False):
    """model reply `got` ({"r":..}|{"e":..}) against the real outcome `want`"""
    if got is None:
        return f"{name}: no answer"
    if ("e" in got) != ("e" in want):
        return f"{name}: model {_short(got)} != lena {_short(want)}"
    if "e" in got:
        return None if got["e"] == want["e"] else f"{name}: model raises {got['e']}, lena {want['e']}"
    ok = (jdump(got["r"]) == jdump(want["r"])) if ordered else weq(got["r"], want["r"])
    return None if ok else f"{name}: model {_short(got['r'])} != lena {_short(want['r'])}"


def _status(name, got, want):
    """only the outcome class (value / which exception)"""
    if got is None:
        return f"{name}: no answer"
    if ("e" in got) != ("e" in want) or ("e" in got and got["e"] != want["e"]):
        return f"{name}: model {_short(got)} != lena {_short(want)}"
    return None


def compare(case, res, replies):
    if res.get("skip"):
        return None
    rep = replies[0]
    if "err" in rep:
        return "driver: " + rep["err"]
    op = case["op"]
    want = {k: res[k] for k in ("r", "e") if k in res}
    msgs = []
    if op == "upd":
        msgs.append(_same("C08.updateRecursively (insertion order)", rep["c08"], want, ordered=True))
        msgs.append(_same("C07.updateRecursively", rep["c07"], want))
        if case["is"] and rep["c13"] is not None:
            msgs.append(_same("C13.updL", rep["c13"], want))
    elif op == "inter":
        msgs.append(_same("C07.intersection", rep["c07"], want))
        if rep["c13"] is not None:
            msgs.append(_same("C13.interN", rep["c13"], want))
    elif op == "get":
        msgs.append(_same("C08.getRec", rep["c08"], want))
        if rep["path"] is not None:
            msgs.append(_same("Val.getPath on the slot view", rep["path"], want))
            if is_is(case["d"]):
                msgs.append(_same("C13.getRec", rep["c13"], want))
            else:
                msgs.append(_status("C13.getRec", rep["c13"], want))
            if is_15(case["d"]) and not _has_float(case["d"]):
                msgs.append(_same("C15.getRecGo", rep["c15"], want))
            else:
                msgs.append(_status("C15.getRecGo", rep["c15"], want))
    elif op == "contains":
        if "e" in want:
            msgs.append(f"contains raised {want['e']}")
        else:
            msgs.append(None if rep["c08"] == want["r"] else f"C08.contains: model {rep['c08']} != lena {want['r']}")
            msgs.append(None if rep["c15"] == want["r"] else f"C15.contains: model {rep['c15']} != lena {want['r']}")
    elif op == "s2d":
        msgs.append(_same("C08.strToDict (insertion order)", rep["c08"], want, ordered=True))
        msgs.append(_same("C07.strToDict", rep["c07"], want))
        v = case.get("value", MISSING)
        if rep["c13"] is not None and case["s"] != "" and v is not MISSING and is_is(v) and not isinstance(v, dict):
            msgs.append(_same("C13.single", rep["c13"], want))
    elif op == "fmt":
        if rep["str"] != res["str"]:
            msgs.append(f"Tpl8.str: model {rep['str']!r} != harness {res['str']!r}")
        if rep["init"] != res["init"]:
            msgs.append(f"C08.formatInit: model {rep['init']} != lena {res['init']}")
        elif res["init"] == "ok":
            if rep["c08"] != {"e": "unmodelled"}:
                msgs.append(_same("C08.formatCall", rep["c08"], want))
            if _fields_is(case):
                msgs.append(_same("C13.fmt", rep["c13"], want))
            elif "e" in want:
                msgs.append(_status("C13.fmt", rep["c13"], want))
    elif op == "fuw":
        if not weq(rep["v08"], res["value"]):
            msgs.append(f"SVal8.to08: model {_short(rep['v08'])} != harness {_short(res['value'])}")
        if rep["c08"] != {"e": "unmodelled"}:
            msgs.append(_same("C08.formatUpdateWith (insertion order)", rep["c08"], want, ordered=True))
        v = case["v"]
        if ("c" in v and is_is(v["c"])) or ("t" in v and _fields_is({"t": v["t"], "d": case["d"]})):
            msgs.append(_same("C13.fmtUpdate", rep["c13"], want))
        elif "e" in want:
            msgs.append(_status("C13.fmtUpdate", rep["c13"], want))
    elif op == "nested":
        msgs.append(_same("C07.updateNested", rep["c07"], want))
        msgs.append(_same("C11.updateNested", rep["c11"], want))
    elif op == "var":
        msgs.append(_same("C14.updateContext (fx=true)", rep["c14t"], want))
        msgs.append(_same("C14.updateContext (fx=false)", rep["c14f"], want))
        msgs.append(_same("Flow.variableCall", rep["flow"], want))
    msgs = [m for m in msgs if m]
    return "; ".join(msgs[:3]) if msgs else None


def _has_float(w):
    return not only(w, lambda x: not (isinstance(x, dict) and "f" in x))


def _fields_is(case):
    """every field of the template that names an item names an int or a string (the common domain of fmt)"""
    d = dec(case["d"])
    for p, _ in case["t"]["parts"]:
        v = ref_get(d, p)
        if v is MISSING:
            continue
        if isinstance(v, bool) or not isinstance(v, (int, str)):
            return False
    return True


# ----------------------------------------------------------------------------------------
# direct oracle (independent of the models): laws of C07/C08 that the bridged functions carry

def ref_get(d, path):
    cur = d
    for k in path:
        if not isinstance(cur, dict) or k not in cur:
            return MISSING
        cur = cur[k]
    return cur


def ref_contained(a, b):
    """a ⊑ b at the default level: every key of a is in b with an equal value or, for two dictionaries, a contained one"""
    for k, v in a.items():
        if k not in b:
            return False
        w = b[k]
        if v == w:
            continue
        if isinstance(v, dict) and isinstance(w, dict) and ref_contained(v, w):
            continue
        return False
    return True


def ref_untouched(o, p):
    """walking p in `other` meets an absent key while still inside dictionaries (C07.untouchedL)"""
    cur = o
    for k in p:
        if not isinstance(cur, dict):
            return False
        if k not in cur:
            return True
        cur = cur[k]
    return False


def leaf_paths(d, prefix=()):
    for k, v in d.items():
        yield prefix + (k,)
        if isinstance(v, dict):
            yield from leaf_paths(v, prefix + (k,))


def oracle(case, res):
    if res.get("skip"):
        return None
    op = case["op"]
    if op == "upd" and "r" in res:
        d, o, r = dec(case["d"]), dec(case["o"]), dec(res["r"])
        if not ref_contained(o, r):
            return f"update_recursively: other {o!r} is not contained in the result {r!r}"
        again = res.get("again", {})
        if "r" not in again or not weq(again["r"], res["r"]):
            return f"update_recursively is not idempotent: {res['r']} then {again}"
        for p in leaf_paths(d):
            if ref_untouched(o, p):
                a, b = ref_get(d, p), ref_get(r, p)
                if b is MISSING or not weq(enc(a), enc(b)):
                    return (f"update_recursively changed the item at {list(p)}, which other {o!r} leaves alone: {a!r} -> "
                            + ("absent" if b is MISSING else repr(b)))
    if op == "inter" and "r" in res and case["lv"] < 0:
        r = dec(res["r"])
        for w in case["ds"]:
            if not ref_contained(r, dec(w)):
                return f"intersection {r!r} is not contained in the argument {dec(w)!r}"
    if op == "get":
        d = dec(case["d"])
        if isinstance(d, dict):
            v = ref_get(d, case["p"])
            if v is MISSING:
                if res.get("e") != "LenaKeyError":
                    return f"get_recursively of an absent path {case['p']} gave {res}"
            elif "r" not in res or not weq(res["r"], enc(v)):
                return f"get_recursively({case['key']}) = {res}, the path names {v!r}"
    if op == "contains" and case["s"] != "" and "r" in res:
        d, parts = dec(case["d"]), case["s"].split(".")
        want = ref_get(d, parts) is not MISSING
        if not want:
            x = ref_get(d, parts[:-1])
            want = x is not MISSING and not isinstance(x, dict) and str(x) == parts[-1]
        if res["r"] != want:
            return f"contains(d, {case['s']!r}) = {res['r']}: the path names an item / str() of the scalar before it: {want}"
    if op == "s2d" and "r" in res and "value" in case and case["s"] != "":
        v = ref_get(dec(res["r"]), case["p"])
        if v is MISSING or not weq(enc(v), case["value"]):
            return f"str_to_dict({case['s']!r}, value): the path does not name the value in {res['r']}"
    if op == "fmt" and res.get("init") == "ok":
        d = dec(case["d"])
        vals = [ref_get(d, p) for p, _ in case["t"]["parts"]]
        if any(v is MISSING for v in vals):
            if res.get("e") != "LenaKeyError":
                return f"format_context({res['str']!r}) with an absent field gave {res}"
        else:
            want = case["t"]["head"] + "".join(str(v) + lit for v, (_, lit) in zip(vals, case["t"]["parts"]))
            if res.get("r") != want:
                return f"format_context({res['str']!r})(d) = {res}, literals and str(items): {want!r}"
    if op == "nested" and "r" in res:
        d, o, k = dec(case["d"]), dec(case["o"]), case["k"]
        r = dec(res["r"])
        if k in d:
            depth, cur = 0, o
            while isinstance(cur, dict) and k in cur:
                depth, cur = depth + 1, cur[k]
            got = ref_get(r, [k] * (depth + 2))
            if got is MISSING or not weq(enc(got), enc(d[k])):
                return f"update_nested({k!r}): d[{k!r}] = {d[k]!r} is not at depth {depth + 2} of the result {r!r}"
        elif not weq(enc(r.get(k)), enc(o)):
            return f"update_nested({k!r}) with the key absent from d: result[{k!r}] != other"
    if op == "var" and "r" in res:
        c, r = dec(case["ctx"]), dec(res["r"])
        want = dict(c)
        want["variable"] = {"name": case["name"]}
        if not weq(enc(r), enc(want)):
            return f"untyped Variable({case['name']!r}) on {c!r}: context {r!r}, expected variable = its var_context only"
    return None


def nontrivial(case, res):
    if res.get("skip") or "r" not in res:
        return False
    r = res["r"]
    if isinstance(r, dict) and "d" in r:
        return len(r["d"]) > 0
    return True


def classify(case, res):
    if res.get("skip"):
        return ["foreign-corpus-case"]
    op = case["op"]
    labels = [op, f"{op}:" + (res["e"] if "e" in res else res.get("init", "ok") if res.get("init", "ok") != "ok" else "ok")]
    if op == "inter":
        labels.append(f"inter:lv{case['lv']}")
    if op == "contains" and "r" in res:
        labels.append(f"contains:{res['r']}")
    if op == "upd" and case["is"]:
        labels.append("upd:ints-and-strings")
    return labels


def _smaller(w):
    """wire values with one item of one dictionary (at any depth) removed, or a sub-dictionary replaced by a scalar"""
    if isinstance(w, dict) and "d" in w:
        items = w["d"]
        for i in range(len(items)):
            yield {"d": items[:i] + items[i + 1:]}
        for i, (k, x) in enumerate(items):
            for y in _smaller(x):
                yield {"d": items[:i] + [[k, y]] + items[i + 1:]}


def shrink(case):
    if not isinstance(case, dict) or case.get("b") != 1:
        return
    for f in ("d", "o", "ctx"):
        if f in case:
            for w in _smaller(case[f]):
                c = dict(case)
                c[f] = w
                if case["op"] == "upd":
                    c["is"] = is_is(c["d"]) and is_is(c["o"])
                yield c
    if "ds" in case:
        ds = case["ds"]
        for i in range(len(ds)):
            if len(ds) > 1:
                yield dict(case, ds=ds[:i] + ds[i + 1:])
            for w in _smaller(ds[i]):
                yield dict(case, ds=ds[:i] + [w] + ds[i + 1:])


def signature(case, failure):
    return f"{case.get('op') if isinstance(case, dict) else '?'}:{failure[:60]}"
