"""C03 — Split.run follows its documented block/branch schedule for every branch mix.

Real code: lena.core.Split (run, _fill/_compute/_request/__call__, __init__ with
_get_seq_with_type), lena.flow.Zip.
Model: lean/LenaModel/Model/C03.lean, theorems lean/LenaModel/Props/C03.lean.

Branches are instrumented harness elements (every method invocation is logged, every yielded
value carries the tag of its branch) presented to Split in every form `_get_seq_with_type`
accepts (bare element, explicit FillComputeSeq/FillRequestSeq/Sequence/Source, tuple, lambda),
plus lena.math.Sum as a real fill/compute element.
"""
import itertools

from harness.common import exc_name, canon, jdump

PID = "C03"
TITLE = "Split.run follows its documented block/branch schedule for every branch mix"
LEAN_MODULES = ["LenaModel.Props.C03", "LenaModel.Props.C03X", "LenaModel.Props.C03Zip", "LenaModel.Props.C03R",
                "LenaModel.Props.C03A", "LenaModel.Props.C03G", "LenaModel.Props.C03Cp"]
LEAN_SOURCES = ["LenaModel/Model/C03.lean", "LenaModel/Lemmas/C03.lean", "LenaModel/Props/C03.lean",
                "LenaModel/Model/C03X.lean", "LenaModel/Lemmas/C03X.lean", "LenaModel/Props/C03X.lean",
                "LenaModel/Model/C03Zip.lean", "LenaModel/Props/C03Zip.lean", "LenaModel/Model/C03Spec.lean", "LenaModel/Props/C03R.lean",
                "LenaModel/Model/C03Exc.lean", "LenaModel/Model/C03G.lean", "LenaModel/Props/C03A.lean",
                "LenaModel/Props/C03G.lean", "LenaModel/Props/C03Cp.lean"]
DRIVER = "drivers/C03.lean"
THEOREMS = [
    "Lena.C03.loop_refines_spec",
    "Lena.C03.run_eq_schedule",
    "Lena.C03.run_outputs_eq_schedule",
    "Lena.C03.no_assert_fail",
    "Lena.C03.blocks_flatten",
    "Lena.C03.blocks_sizes",
    "Lena.C03.blocks_large",
    "Lena.C03.projection",
    "Lena.C03.branchTrace_source",
    "Lena.C03.source_first_block",
    "Lena.C03.branchTrace_sequence",
    "Lena.C03.branchTrace_fillCompute",
    "Lena.C03.branchTrace_fillRequest",
    "Lena.C03.branchTrace_closedForm",
    "Lena.C03.stopfill_dropped_life",
    "Lena.C03.stopfill_dropped",
    "Lena.C03.empty_flow_once",
    "Lena.C03.empty_flow_invocations",
    "Lena.C03.projection_fillCompute",
    "Lena.C03.bufsize_independent_fc",
    "Lena.C03.projection_per_value",
    "Lena.C03.bufsize_independent_per_value",
    "Lena.C03.harness_per_value_streaming",
    "Lena.C03.empty_split_id",
    "Lena.C03.methods_available",
    "Lena.C03.call_available",
    "Lena.C03.common_type_source",
    "Lena.C03.zip_yield_ith",
    "Lena.C03.zip_ith",
    "Lena.C03.colAt_eq_none_iff",
    "Lena.C03.colAt_eq_some",
    "Lena.C03.classify_source_iff",
    "Lena.C03.classify_tuple_fc",
    "Lena.C03.splitInit_valid",
    "Lena.C03.splitInit_bad_bufsize",
    "Lena.C03.zipInit_ok_iff",
    "Lena.C03.contribution_causal",
    "Lena.C03.splitFill_stop",
    "Lena.C03.splitFillAll_iff",
    "Lena.C03.tuple_fill_compute",
    "Lena.C03.tuple_fill_request",
    "Lena.C03.tuple_sequence",
    "Lena.C03.runFull_trace",
    "Lena.C03.runFull_seqs",
    "Lena.C03.runObj_eq",
    "Lena.C03.runX_prefix",
    "Lena.C03.bufArgInit_valid",
    "Lena.C03.branch_receives_prefix",
    "Lena.C03.sequence_receives_all",
    "Lena.C03.split_branch_receives",
    "Lena.C03.run_outputs_blockwise",
    "Lena.C03.run_twice",
    "Lena.C03.zip_ctx_ith",
    "Lena.C03.zip_ctx_length",
    "Lena.C03.zip_value_lossless",
    "Lena.C03.zipFields_list_arity",
    "Lena.C03.contribution_blockForm",
    "Lena.C03.finalContribution_finalForm",
    "Lena.C03.run_outputs_blockForm",
    "Lena.C03.runX_raised_cut",
    "Lena.C03.cacheRule_none_iff",
    "Lena.C03.cacheRule_valid",
    "Lena.C03.cacheRule_no_cache",
    "Lena.C03.splitInitC_valid",
    "Lena.C03.common_type_fill_compute_partial",
    "Lena.C03.common_type_fill_compute_full_false",
    "Lena.C03.common_type_fill_request_partial",
    "Lena.C03.common_type_fill_request_full_false",
    "Lena.C03.nested_fill_compute_partial",
    "Lena.C03.nested_fill_request_partial",
    # adversary round: the stop signal is LenaStopFill (and subclasses) only; bufsize=None is one block of any
    # length; Split.run as a generator: alone it is Split.runTrace, and runs of one Split over stateless branches
    # do not interfere under any interleaving
    "Lena.C03.isStopSignal_iff",
    "Lena.C03.lena_errors_are_not_stop_signals",
    "Lena.C03.stop_signal_is_lenaException",
    "Lena.C03.fillBufP_raised_not_stop",
    "Lena.C03.foreign_fill_error_not_finalised",
    "Lena.C03.stop_signal_finalises",
    "Lena.C03.none_sequence_once",
    "Lena.C03.none_fillRequest_once",
    "Lena.C03.large_bufsize_as_none",
    "Lena.C03.gen_alone",
    "Lena.C03.runSched_stateless",
    "Lena.C03.interleaved_runs",
    "Lena.C03.interleaved_runs_outputs",
    "Lena.C03.interleaved_harness",
    "Lena.C03.splitFillAll_append",
    "Lena.C03.copied_fill_compute",
    "Lena.C03.copied_fill_request",
]
# true by definition, model-internal glue, or superseded by a `_partial` name: audited, not counted as obligations
AUX_THEOREMS = [
    "Lena.C03.copy_buf_irrelevant",
    "Lena.C03.classify_explicit",
    "Lena.C03.classify_el",
    "Lena.C03.splitInit_not_list",
    "Lena.C03.blocks_none",
    "Lena.C03.runX_bad_bufsize",
    "Lena.C03.splitRunOps_run",
    "Lena.C03.mkBranches_nodup",
    "Lena.C03.common_type_fill_compute",
    "Lena.C03.common_type_fill_request",
    "Lena.C03.nested_fill_compute",
    "Lena.C03.nested_fill_request",
    "Lena.C03.runOn_container_iterator",
    "Lena.C03.mkHarnessBranches_nodup",
    "Lena.C03.mkOuterBranches_nodup",
    "Lena.C03.mkBranchesX_nodup",
    "Lena.C03.streaming_of_perValue",
    "Lena.C03.isa_refl",
    "Lena.C03.ofName_name",
    "Lena.C03.catchStopFill_stop_iff",
    "Lena.C03.catchStopFill_raised_iff",
    "Lena.C03.catchStopFillName_name",
    "Lena.C03.toX_fill",
    "Lena.C03.fillBufX_events_fill",
    "Lena.C03.blocks_none_length",
    "Lena.C03.genIter_pass",
    "Lena.C03.genIter_block",
    "Lena.C03.genIter_blocks",
    "Lena.C03.genIter_final",
    "Lena.C03.genIter_after_fin",
    "Lena.C03.stepFull_stateless",
    "Lena.C03.finalFull_stateless",
    "Lena.C03.microStep_store_stateless",
    "Lena.C03.shspec_stateless",
    "Lena.C03.storeOf_stateless",
    "Lena.C03.mkStatelessBranches_nodup",
]
CASE_TIMEOUT = 10

KIND = {"src": "source", "fc": "fill_compute", "fr": "fill_request", "sq": "sequence", "sum": "fill_compute"}
PER_VALUE_SQ = ("map", "even", "dup", "running", "lam")


def _kind(sp):
    """the type the property assigns to a branch of a case"""
    if sp["k"] == "nest":
        ks = set(KIND[i["k"]] for i in sp["inner"])
        return "fill_compute" if ks == {"fill_compute"} else "fill_request" if ks == {"fill_request"} else "sequence"
    return KIND[sp["k"]]


# ----------------------------------------------------------------------------------------
# instrumented branch elements (the harness vocabulary; Lean: `BSpec.ops`)

_EXC_CACHE = {}

# exception classes a harness branch can raise from fill() / from inside its generators.  Split.run catches
# LenaStopFill (and, `except` being an isinstance test, its subclasses) around fill() ONLY; everything else —
# also the other LenaException subclasses and LenaException itself — leaves Split.run.
# Lean: `ExcClass` (Model/C03A.lean), same names.
FILL_EXCS = ["ValueError", "ValueError", "LenaValueError", "LenaTypeError", "LenaException", "LenaRuntimeError",
             "LenaKeyError", "LenaIndexError", "LenaAttributeError", "LenaNotImplementedError",
             "LenaZeroDivisionError", "SubLenaException", "Exception", "RuntimeError", "KeyboardInterrupt",
             "LenaStopFill", "SubStopFill"]
GEN_EXCS = ["ValueError", "ValueError", "LenaStopFill", "KeyboardInterrupt", "LenaValueError", "LenaException",
            "SubStopFill", "LenaRuntimeError", "Exception"]
_KNOWN_EXC_NAMES = {"LenaTypeError", "LenaValueError", "LenaKeyError", "LenaStopFill", "LenaIndexError",
                    "LenaAttributeError", "LenaRuntimeError", "LenaZeroDivisionError", "LenaEnvironmentError",
                    "LenaNotImplementedError"}


def _xname(name):
    """the name `harness.common.exc_name` gives an exception of the class called `name`"""
    return name if name in _KNOWN_EXC_NAMES else "Other:" + name


def _boom_exc(name):
    import lena.core
    name = name or "ValueError"
    key = (name, id(lena.core))
    if key not in _EXC_CACHE:
        if name == "SubStopFill":
            cls = type("SubStopFill", (lena.core.LenaStopFill,), {})      # a user-defined stop signal
        elif name == "SubLenaException":
            cls = type("SubLenaException", (lena.core.LenaException,), {})  # a user-defined lena error
        elif name.startswith("Lena"):
            cls = getattr(lena.core, name)
        else:
            cls = {"ValueError": ValueError, "KeyboardInterrupt": KeyboardInterrupt, "Exception": Exception,
                   "RuntimeError": RuntimeError}[name]
        _EXC_CACHE[key] = cls
    return _EXC_CACHE[key]


EXC_NAMES = ["BaseException", "Exception", "KeyboardInterrupt", "ArithmeticError", "LookupError", "OSError",
             "AttributeError", "IndexError", "KeyError", "NotImplementedError", "RuntimeError", "TypeError", "ValueError",
             "ZeroDivisionError", "LenaException", "LenaAttributeError", "LenaEnvironmentError", "LenaIndexError",
             "LenaKeyError", "LenaNotImplementedError", "LenaRuntimeError", "LenaStopFill", "LenaTypeError",
             "LenaValueError", "LenaZeroDivisionError", "SubStopFill", "SubLenaException"]


def _exc_class(name):
    import builtins
    if name.startswith(("Lena", "Sub")):
        return _boom_exc(name)
    return getattr(builtins, name)


def _exc_impl(case):
    """the real classes: direct bases, and what an `except LenaStopFill` / `except LenaException` / `except
    Exception` clause catches (issubclass)"""
    import lena.core
    cls = _exc_class(case["name"])
    bases = ["OSError" if b is OSError else b.__name__ for b in cls.__bases__ if b is not object]
    caught = False
    try:
        try:
            raise cls("x")
        except lena.core.LenaStopFill:
            caught = True
    except BaseException:
        pass
    return {"name": case["name"], "bases": bases, "stop": issubclass(cls, lena.core.LenaStopFill),
            "lena": issubclass(cls, lena.core.LenaException), "exception": issubclass(cls, Exception),
            "caught": caught, "caught_by_name": caught}


def _is_stop_class(name):
    import lena.core
    return issubclass(_boom_exc(name), lena.core.LenaStopFill)


def _boom_iter(res, boom, exc=None):
    """iterator over `res` that raises once `boom` values were yielded (if there are that many): ValueError, or
    LenaStopFill (which Split.run must catch around fill() only), or a BaseException (KeyboardInterrupt)"""
    if boom is None or boom > len(res):
        return iter(res)
    cls = _boom_exc(exc)

    def gen():
        for j, v in enumerate(res):
            if j == boom:
                raise cls("boom")
            yield v
        raise cls("boom")
    return gen()


class SrcEl(object):
    def __init__(self, tag, k, log, boom_gen=None):
        self.tag, self.k, self.log, self.calls = tag, k, log, 0
        self.boom_gen = boom_gen
        self.boom_exc = None

    def __call__(self):
        self.log.append((self.tag, ["call"]))
        c = self.calls
        self.calls += 1
        return _boom_iter([(self.tag, "src", c, j) for j in range(self.k)], self.boom_gen, self.boom_exc)

    def state(self):
        return {"v": [], "n": 0, "calls": self.calls, "total": 0}


class _Filler(object):
    def __init__(self, tag, stop, late, log, boom_fill=None, boom_gen=None):
        self.tag, self.stop, self.late, self.log = tag, stop, late, log
        self.v, self.n, self.calls = [], 0, 0
        self.boom_fill, self.boom_gen = boom_fill, boom_gen
        self.boom_exc = None
        self.boom_fill_exc = None

    def state(self):
        return {"v": list(self.v), "n": self.n, "calls": self.calls, "total": 0}

    def fill(self, x):
        import lena.core
        if self.boom_fill is not None and self.n >= self.boom_fill:
            # the third entry of the log: "this fill signalled LenaStopFill" (an instance of a subclass is one)
            self.log.append((self.tag, ["fill", x, _is_stop_class(self.boom_fill_exc)]))
            raise _boom_exc(self.boom_fill_exc)("boom")
        if self.stop is not None and self.n >= self.stop:
            if self.late:
                self.v.append(x)
            self.log.append((self.tag, ["fill", x, True]))
            raise lena.core.LenaStopFill()
        self.n += 1
        self.v.append(x)
        self.log.append((self.tag, ["fill", x, False]))


class FC(_Filler):
    def __init__(self, tag, stop, late, items, log, boom_fill=None, boom_gen=None):
        _Filler.__init__(self, tag, stop, late, log, boom_fill, boom_gen)
        self.items = items

    def compute(self):
        self.log.append((self.tag, ["compute"]))
        c = self.calls
        self.calls += 1
        res = [(self.tag, "compute", c, tuple(self.v))]
        if self.items:
            res += [(self.tag, "item", x) for x in self.v]
        return _boom_iter(res, self.boom_gen, self.boom_exc)


class FR(_Filler):
    def request(self):
        self.log.append((self.tag, ["request"]))
        c = self.calls
        self.calls += 1
        res = [(self.tag, "request", c, tuple(self.v))]
        self.v = []
        return _boom_iter(res, self.boom_gen, self.boom_exc)


class SQ(object):
    def __init__(self, tag, variant, log, boom_gen=None):
        self.tag, self.variant, self.log = tag, variant, log
        self.calls, self.n, self.v = 0, 0, []
        self.boom_gen = boom_gen
        self.boom_exc = None
        if variant == "cache":
            self.is_cache = True  # what lena.flow.Cache sets: Split then reads the whole flow at once

    def state(self):
        return {"v": list(self.v), "n": self.n, "calls": self.calls, "total": 0}

    def run(self, flow):
        buf = list(flow)
        self.log.append((self.tag, ["run", list(buf)]))
        t, v = self.tag, self.variant
        if v == "map":
            res = [(t, "run", x) for x in buf]
        elif v == "mapEnd":
            res = [(t, "run", x) for x in buf] + [(t, "end", self.calls)]
            self.calls += 1
        elif v == "even":
            res = [(t, "even", x) for x in buf if x % 2 == 0]
        elif v == "sumBlock":
            res = [(t, "sum", self.calls, sum(buf))]
            self.calls += 1
        elif v == "dup":
            res = [y for x in buf for y in ((t, "dup", x), (t, "dup", x))]
        elif v == "running":
            res = []
            for x in buf:
                res.append((t, "idx", self.n, x))
                self.n += 1
        elif v == "cache":
            # like lena.flow.Cache: the first run stores what it receives, later runs replay it
            if self.calls == 0:
                self.v = list(buf)
            res = [(t, "c", x) for x in self.v]
            self.calls += 1
        else:
            raise ValueError(v)
        return _boom_iter(res, self.boom_gen, self.boom_exc)


def _mk_sum(tag, log):
    import lena.math

    class LSum(lena.math.Sum):
        def fill(self, value):
            log.append((tag, ["fill", value, False]))
            return lena.math.Sum.fill(self, value)

        def compute(self):
            log.append((tag, ["compute"]))
            return lena.math.Sum.compute(self)

        def state(self):
            return {"v": [], "n": 0, "calls": 0, "total": self.total}  # the public property of lena.math.Sum
    return LSum()


def _mk_el(sp, tag, log):
    """the element object of a branch (before it is wrapped into the form given to Split)"""
    k = sp["k"]
    bf, bg = sp.get("boom_fill"), sp.get("boom_gen")
    el = None
    if k == "src":
        el = SrcEl(tag, sp["n"], log, bg)
    if k == "fc":
        el = FC(tag, sp["stop"], sp["late"], sp["items"], log, bf, bg)
    if k == "fr":
        el = FR(tag, sp["stop"], sp["late"], log, bf, bg)
    if k == "sq":
        if sp["v"] == "lam":
            return lambda x, tag=tag: (tag, "lam", x)
        el = SQ(tag, sp["v"], log, bg)
    if el is not None:
        el.boom_exc = sp.get("boom_exc")
        if k in ("fc", "fr"):
            el.boom_fill_exc = sp.get("boom_fill_exc")
        return el
    if k == "sum":
        return _mk_sum(tag, log)
    if k == "nest":
        return _mk_nest(sp, tag, log)
    raise ValueError(k)


def _mk_nest(sp, tag, log):
    """a real common-type Split used as an element; its branches carry the tags 100*(tag+1)+j and log under
    their own tags; the calls the enclosing Split makes on the nested Split are logged under `tag`"""
    import lena.core as lc
    base = 100 * (tag + 1)
    inner_els = [_mk_el(isp, base + j, log) for j, isp in enumerate(sp["inner"])]
    inner = [_wrap(isp, el) for isp, el in zip(sp["inner"], inner_els)]
    ns = lc.Split(inner, bufsize=sp.get("bufsize", 1000))
    ns.harness_inner = inner_els
    ns.state = lambda: {"inner": [_state_of(el) for el in inner_els]}
    if hasattr(ns, "fill"):
        orig_fill = ns.fill

        def fill(x):
            try:
                orig_fill(x)
            except lc.LenaStopFill:
                log.append((tag, ["fill", x, True]))
                raise
            log.append((tag, ["fill", x, False]))
        ns.fill = fill
        for name in ("compute", "request"):
            if hasattr(ns, name):
                def gen(orig=getattr(ns, name), name=name):
                    log.append((tag, [name]))
                    return orig()
                setattr(ns, name, gen)
    else:
        # no common fill type: the enclosing Split runs it as a plain Sequence, once per block
        orig_run = ns.run

        def run(flow):
            buf = list(flow)
            log.append((tag, ["run", list(buf)]))
            return orig_run(_ReList(buf))  # a list, as the enclosing Split's Sequence wrapper receives it
        ns.run = run
    return ns


def _ident(x):
    return x


def _pre(x):
    """the callable put before an element in the tuple forms tuple_pre / tuple_pp (Lean: `preFn`)"""
    return x + 10


def _post(v):
    """the callable put after an element in the tuple forms tuple_post / tuple_pp (Lean: `postFn`)"""
    return ("post", v)


def _has_pre(sp):
    return sp.get("form") in ("tuple_pre", "tuple_pp")


def _has_post(sp):
    return sp.get("form") in ("tuple_post", "tuple_pp")


def _wrap(sp, el):
    """present the element to Split in the form named by the case"""
    import lena.core as lc
    form = sp.get("form", "el")
    k = sp["k"]
    if k == "src":
        return lc.Source(el)
    if form == "el" or k == "nest":
        return el
    if form == "tuple":
        return (el,)
    if form == "tuple_pre":
        return (_pre, el)
    if form == "tuple_post":
        return (el, _post)
    if form == "tuple_pp":
        return (_pre, el, _post)
    if k in ("fc", "sum"):
        if form == "seq":
            return lc.FillComputeSeq(el)
        if form == "tuple_id":
            return (_ident, el)
    if k == "fr":
        if form == "seq":
            return lc.FillRequestSeq(el, reset=False, buffer_input=True)
        if form == "tuple_id":
            return (_ident, el)
    if k == "sq":
        if form == "seq":
            return lc.Sequence(el)
    raise ValueError("form %r of %r" % (form, k))


def _build(specs, log):
    return [_wrap(sp, _mk_el(sp, i, log)) for i, sp in enumerate(specs)]


FLOW_KINDS = ["list", "iter", "tuple", "gen", "range"]
MAX_OUT = 30000


class _Endless(Exception):
    """the run yields without end (more than MAX_OUT values; the longest generated flows have 8200 values and at
    most three branches with one or two results per value)"""


MAX_ITERS = 400


def _count_iter(self):
    # a correct Split.run calls iter(flow) once; one that restarts on the container for every block would never end
    self.iters = getattr(self, "iters", 0) + 1
    if self.iters > MAX_ITERS:
        raise _Endless()


class _ReList(list):
    """a list (tests/core/test_split.py hands lists over) that notices being iterated without end"""

    def __iter__(self):
        _count_iter(self)
        return list.__iter__(self)


class _ReTuple(tuple):
    def __iter__(self):
        _count_iter(self)
        return tuple.__iter__(self)


class _ReIterable(object):
    """a re-iterable object that is neither a list nor a tuple (like a range)"""

    def __init__(self, xs):
        self._xs = list(xs)

    def __iter__(self):
        _count_iter(self)
        return iter(self._xs)

    def __len__(self):
        return len(self._xs)


def _as_flow(flow, k):
    """the flow as the k-th kind of argument of Split.run: a list, a one-shot iterator, a tuple, a generator, or
    another re-iterable object"""
    kind = FLOW_KINDS[k % len(FLOW_KINDS)]
    flow = list(flow)
    if kind == "iter":
        return iter(flow)
    if kind == "tuple":
        return _ReTuple(flow)
    if kind == "gen":
        return (x for x in flow)
    if kind == "range":
        return _ReIterable(flow)
    return _ReList(flow)


def _drain(gen, out, on_value=None):
    for v in gen:
        out.append(v)
        if on_value:
            on_value(v)
        if len(out) > MAX_OUT:
            raise _Endless()


def _inv(log, n):
    """per branch: the method invocations it received"""
    return [[ev for (t, ev) in log if t == i and ev[0] != "out"] for i in range(n)]


def _owner(v):
    """the branch a yielded value belongs to, from its tag (elements of a nested Split carry 100*(tag+1)+j)"""
    t = _tag_of(canon(v))
    if t is None:
        return None
    return t // 100 - 1 if t >= 100 else t


def _ptrace(log, n):
    """per branch: its invocations and the values yielded for it, in order"""
    return [[ev for (t, ev) in log if t == i] for i in range(n)]


# ----------------------------------------------------------------------------------------
# the reference schedule: the property statement, executed on fresh branch elements

def _has_cache(sp):
    """a plain-Sequence branch that contains a Cache(-like element), also inside a nested Split run per block"""
    if sp["k"] == "sq":
        return sp.get("v") == "cache"
    if sp["k"] == "nest" and _kind(sp) == "sequence":
        return any(isp["k"] == "sq" and isp.get("v") == "cache" for isp in sp["inner"])
    return False


def _eff_bufsize(specs, bufsize):
    """'Split reads the whole flow at once if a Sequence in it contains a Cache' (Split.__init__)"""
    return None if any(_has_cache(sp) for sp in specs) else bufsize


def _blocks(flow, bufsize):
    if bufsize is None:
        bl = [list(flow)]
    else:
        bl = [list(flow[i:i + bufsize]) for i in range(0, len(flow), bufsize)]
    return [b for b in bl if b]


def ref_run(specs, bufsize, flow):
    """Output of Split.run as the property states it: block by block, inside a block in branch
    order: the complete output of a Source the first time it is reached, the results of a plain
    Sequence run on that block, the request() results of a fill/request branch; after the last
    block the compute() results of the fill/compute branches in branch order; a branch that
    signals LenaStopFill is finalised and dropped; on an empty flow every branch is invoked
    exactly once.  Returns (outputs, per-branch invocation logs)."""
    if not specs:
        return list(flow), []
    log = []
    els = [_mk_el(sp, i, log) for i, sp in enumerate(specs)]
    out = []
    _ref_schedule(specs, els, bufsize, flow, out)
    return out, _inv(log, len(specs))


def _ref_schedule(specs, els, bufsize, flow, out, log=None):
    """the documented schedule on the given element objects; appends to `out` as it goes, so that what was
    yielded before an exception of an element is kept (the exception propagates)"""
    import lena.core
    if not specs:
        out.extend(flow)
        return
    kinds = [_kind(sp) for sp in specs]
    lam = [sp["k"] == "sq" and sp.get("v") == "lam" for sp in specs]
    active = [True] * len(specs)
    blocks = _blocks(flow, _eff_bufsize(specs, bufsize))

    # documented conversion of a tuple: the flow is preprocessed by what stands before the element, the
    # results are postprocessed by what stands after it (FillComputeSeq / FillRequestSeq / Sequence docstrings)
    pre = [_pre if _has_pre(sp) else _ident for sp in specs]
    post = [_post if _has_post(sp) else _ident for sp in specs]

    def fill_block(i, blk):
        for x in blk:
            try:
                els[i].fill(pre[i](x))
            except lena.core.LenaStopFill:
                return True
        return False

    def emit(i, gen, use_post=True):
        # value by value: what was yielded before an exception of the generator stays yielded
        for v in gen:
            out.append(post[i](v) if use_post else v)
            if log is not None:
                log.append((i, ["out", out[-1]]))

    def mark(what):
        if log is not None:
            log.append((None, [what]))

    def run_seq(i, blk):
        blk = [pre[i](x) for x in blk]
        if lam[i]:
            emit(i, (els[i](x) for x in blk))
        else:
            emit(i, els[i].run(_ReList(blk)))

    for blk in blocks:
        mark("block")
        for i, el in enumerate(els):
            if not active[i]:
                continue
            if kinds[i] == "source":
                emit(i, el(), use_post=False)
                active[i] = False
            elif kinds[i] == "fill_compute":
                if fill_block(i, blk):
                    emit(i, el.compute())
                    active[i] = False
            elif kinds[i] == "fill_request":
                stopped = fill_block(i, blk)
                emit(i, el.request())
                if stopped:
                    active[i] = False
            else:
                run_seq(i, blk)
    mark("final")
    for i, el in enumerate(els):
        if not active[i]:
            continue
        if kinds[i] == "source":
            emit(i, el(), use_post=False)
        elif kinds[i] == "fill_compute":
            emit(i, el.compute())
        elif kinds[i] == "fill_request":
            if not blocks:
                emit(i, el.request())
        else:
            if not blocks:
                run_seq(i, [])


# ----------------------------------------------------------------------------------------
# cases

def _bufsizes(n):
    return list(range(1, n + 2)) + [1000, None]


def _base_alphabet(n):
    """the four branch kinds with tagged outputs, LenaStopFill at every possible fill index"""
    al = [{"k": "src", "n": 2}, {"k": "sq", "v": "mapEnd"}]
    for stop in [None] + list(range(0, n + 1)):
        al.append({"k": "fc", "stop": stop, "late": False, "items": False})
        al.append({"k": "fr", "stop": stop, "late": False})
    return al


def _exhaustive_runs(max_len_by_n, spec_every=1):
    """`spec`: the case also asks the driver for the specification-side definitions (closed forms per branch...)
    and records the interleaved per-branch trace of the real run; the replies are big, so the thorough tier
    does it for every `spec_every`-th case"""
    cnt = 0
    for n, m in sorted(max_len_by_n.items()):
        al = _base_alphabet(n)
        flow = list(range(1, n + 1))
        for l in range(0, m + 1):
            for brs in itertools.product(al, repeat=l):
                for cb in (True, False):
                    cnt += 1
                    yield {"op": "run", "brs": [dict(b) for b in brs], "flow": flow, "fk": cnt,
                           "bufsizes": _bufsizes(n), "copy_buf": cb, "spec": cnt % spec_every == 0}


_TUPLE_FORMS = ["tuple", "tuple_pre", "tuple_post", "tuple_pp"]
FORMS = {"src": ["el"], "fc": ["el", "seq", "tuple_id"] + _TUPLE_FORMS, "fr": ["el", "seq", "tuple_id"] + _TUPLE_FORMS,
         "sq": ["el", "seq"] + _TUPLE_FORMS, "sum": ["el", "seq", "tuple_id"] + _TUPLE_FORMS}
SQ_VARIANTS = ["map", "mapEnd", "even", "sumBlock", "dup", "running", "lam", "cache"]


def _rand_spec(rng, n, kinds=("src", "fc", "fr", "sq", "sum"), pp=True):
    k = rng.choice(kinds)
    if k == "src":
        sp = {"k": "src", "n": rng.choice([0, 1, 2, 3])}
    elif k == "fc":
        sp = {"k": "fc", "stop": rng.choice([None, None] + list(range(0, n + 2))), "late": rng.random() < 0.3,
              "items": rng.random() < 0.4}
    elif k == "fr":
        sp = {"k": "fr", "stop": rng.choice([None, None] + list(range(0, n + 2))), "late": rng.random() < 0.3}
    elif k == "sq":
        sp = {"k": "sq", "v": rng.choice(SQ_VARIANTS)}
    else:
        sp = {"k": "sum"}
    if k == "sq" and sp["v"] == "lam":
        forms = ["el"] + _TUPLE_FORMS
    else:
        forms = FORMS[k]
    if not pp:
        # the pre/post-processing tuple forms are exercised through Split.run only
        forms = [f for f in forms if f not in ("tuple_pre", "tuple_post", "tuple_pp")]
    sp["form"] = rng.choice(forms)
    return sp


def _rand_flow(rng, maxn):
    n = rng.randint(0, maxn)
    return [rng.randint(-3, 9) for _ in range(n)]


def _rand_nest(rng, n):
    kinds = ("fc", "sum") if rng.random() < 0.5 else ("fr",)
    stops = rng.random() < 0.4
    inner = []
    for _ in range(rng.randint(1, 3)):
        sp = _rand_spec(rng, n, kinds, pp=False)
        if not stops and "stop" in sp:
            sp["stop"] = None
        inner.append(sp)
    return {"k": "nest", "inner": inner, "bufsize": rng.choice([1, 2, 1000, None])}


def _rand_run(rng, maxbr, maxn, spec_p=1.0):
    flow = _rand_flow(rng, maxn)
    l = rng.randint(0, maxbr)
    brs = [_rand_spec(rng, len(flow)) for _ in range(l)]
    if brs and rng.random() < 0.25:
        brs[rng.randrange(len(brs))] = _rand_nest(rng, len(flow))
    bss = _bufsizes(len(flow))
    if rng.random() < 0.3:
        # block sizes between len+1 and 1000 and above 1000 (threshold-type edits)
        bss = bss + [rng.randint(len(flow) + 2, 999), rng.randint(1001, 5000)]
    return {"op": "run", "brs": brs, "flow": flow, "fk": rng.randrange(5),
            "bufsizes": bss, "copy_buf": rng.random() < 0.5, "spec": rng.random() < spec_p}


BUFARGS = [None, {"int": 1}, {"int": 2}, {"int": 3}, {"int": 1000}, {"int": 0}, {"int": -1}, {"float_int": 2},
           {"float_int": 1}, {"float_int": 0}, {"float_frac": True}, {"bool": True}, {"bool": False}]


def _rand_nest_any(rng, n):
    """a nested Split with any mix of inner kinds: with a common fill type it is used through fill/compute/request,
    otherwise the enclosing Split runs it once per block"""
    r = rng.random()
    if r < 0.25:
        kinds = ("fc", "sum")
    elif r < 0.45:
        kinds = ("fr",)
    else:
        kinds = ("src", "fc", "fr", "sq", "sum")
    inner = [_rand_spec(rng, n, kinds, pp=False) for _ in range(rng.randint(0 if r > 0.9 else 1, 3))]
    return {"k": "nest", "inner": inner, "bufsize": rng.choice([1, 2, 1000, None])}


def _rand_runx(rng, maxbr, maxn):
    """exceptions of branches, the objects after the run, consecutive runs of one Split object, nested Splits run
    per block, bufsize arguments that are not int"""
    flows = [_rand_flow(rng, maxn) for _ in range(rng.choice([1, 1, 2, 3]))]
    n = max(len(f) for f in flows)
    brs = []
    for _ in range(rng.randint(0, maxbr)):
        if rng.random() < 0.2:
            brs.append(_rand_nest_any(rng, n))
            continue
        sp = _rand_spec(rng, n, ("src", "fc", "fr", "sq"))
        r = rng.random()
        if r < 0.2 and sp["k"] in ("fc", "fr"):
            sp["boom_fill"] = rng.randint(0, n + 1)
            sp["boom_fill_exc"] = rng.choice(FILL_EXCS)
        elif r < 0.35 and not (sp["k"] == "sq" and sp["v"] == "lam"):
            sp["boom_gen"] = rng.randint(0, 3)
            sp["boom_exc"] = rng.choice(GEN_EXCS)
        brs.append(sp)
    r = rng.random()
    bufarg = rng.choice(BUFARGS) if r < 0.15 else rng.choice([None, {"int": 1}, {"int": 2}, {"int": 3}, {"int": 1000}])
    return {"op": "runx", "brs": brs, "flows": flows, "bufarg": bufarg, "copy_buf": rng.random() < 0.5,
            "fk": rng.randrange(5)}


ZKEYS = ["a", "b", "zip"]  # sorted key alphabet of the contexts of zipctx cases; "zip" is key number 2


def _rand_ctx(rng, depth=2):
    d = {}
    for k in ZKEYS:
        r = rng.random()
        if k == "zip" and r < 0.85:
            continue
        if r < 0.45:
            continue
        if r < 0.8 or depth <= 1:
            d[k] = rng.choice([0, 1, 1, 2])
        else:
            d[k] = _rand_ctx(rng, depth - 1)
    return d


def _mut_ctx(rng, d):
    d = {k: (dict(v) if isinstance(v, dict) else v) for k, v in d.items()}
    for _ in range(rng.randint(0, 2)):
        k = rng.choice(ZKEYS[:2])
        r = rng.random()
        if r < 0.3:
            d.pop(k, None)
        elif r < 0.7:
            d[k] = rng.choice([0, 1, 2])
        else:
            d[k] = _rand_ctx(rng, 1)
    return d


def _rand_zipctx(rng):
    """Zip over canned results that carry contexts; `fields` in every form"""
    nseq = rng.randint(1, 3)
    base = [_rand_ctx(rng) for _ in range(4)]
    results = []
    for s in range(nseq):
        ln = rng.choice([0, 1, 2, 2, 3])
        results.append([{"d": 10 * s + i, "c": ({} if rng.random() < 0.2 else _mut_ctx(rng, base[i]))}
                        for i in range(ln)])
    r = rng.random()
    if r < 0.5:
        fields = None
    elif r < 0.8:
        fields = {"list": nseq if rng.random() < 0.8 else rng.choice([0, 1, 2, 3, 4])}
    else:
        fields = {"str": nseq if rng.random() < 0.7 else rng.choice([0, 1, 2, 3, 4])}
    return {"op": "zipctx", "results": results, "fields": fields, "kind": rng.choice(["fc", "fr"])}


# ---- real lena accumulators and elements that change what they were filled with (op "realfc") ----------
REAL_FC = ["Count", "Sum", "Mean", "StoreFilled", "StoreFilledFlat", "MutFC", "KeepFC"]
REAL_FR = ["MutFR", "KeepFR"]
REAL_SQ = ["MutSQ", "KeepSQ"]
REAL_MIXED = REAL_FC + REAL_FR + REAL_SQ + REAL_SQ + ["Src"]


def _real_kind(name):
    return ("source" if name == "Src" else "sequence" if name.endswith("SQ") else
            "fill_request" if name.endswith("FR") else "fill_compute")


def _touch(o, name):
    """change, in place, EVERY mutable container reachable from the value: the data part as well as the context,
    at every depth (a list gets a marker appended, a dict a marker under "seen_by")"""
    if isinstance(o, tuple):
        for x in o:
            _touch(x, name)
    elif isinstance(o, list):
        for x in list(o):
            _touch(x, name)
        o.append("seen_by:" + name)
    elif isinstance(o, dict):
        for x in list(o.values()):
            _touch(x, name)
        o["seen_by"] = o.get("seen_by", "") + name


class _MutBase(object):
    """a harness accumulator: Mut* changes, in place, every mutable part of every value it is filled with — the
    context (as lena.flow.Count does with the last one at compute time) and the data (as an element that sorts a
    list of hits does), at every depth; Keep* reports the last value object it was filled with — so a missing or
    shallow copy between two branches changes VALUES"""

    def __init__(self, name, mutate):
        self.name, self.mutate = name, mutate
        self.last, self.n = None, 0

    def fill(self, val):
        self.n += 1
        if self.mutate:
            _touch(val, self.name)
        self.last = val

    def _results(self):
        yield (self.name, self.n, self.last)


class _RunOnly(object):
    """exposes only `run` of a _MutBase (a plain Run element: no fill/compute/request)"""

    def __init__(self, el):
        self.run = el.run


def _mk_real(name, pos):
    import lena.flow
    import lena.math
    if name == "Count":
        return lena.flow.Count()
    if name == "Sum":
        return lena.math.Sum()
    if name == "Mean":
        return lena.math.Mean()
    if name == "StoreFilled":
        return lena.flow.StoreFilled()
    if name == "StoreFilledFlat":
        return lena.flow.StoreFilled(yield_as_a_group=False)
    if name == "Src":
        import lena.core
        return lena.core.Source(lambda pos=pos: iter([("Src%d" % pos, j) for j in range(2)]))
    el = _MutBase("%s%d" % (name, pos), name.startswith("Mut"))
    if name.endswith("SQ"):
        def run(flow, el=el):
            # a run element that touches / hands on the value objects it receives
            for val in flow:
                el.fill(val)
                yield (el.name, val)
        el.run = run
        del_fill = True
        return _RunOnly(el)
    if name.endswith("FC"):
        el.compute = el._results
    else:
        def request(el=el):
            res = list(el._results())
            el.n = 0
            return iter(res)
        el.request = request
    return el


def _rand_realfc(rng):
    """common-type Splits of real accumulators / value-changing elements on values WITH CONTEXT: the common
    methods against run (copy_buf=True: every branch but the last works on its own copy)"""
    r = rng.random()
    kind = "fc" if r < 0.4 else "fr" if r < 0.55 else "mixed" if r < 0.8 else "zipfc" if r < 0.9 else "zipfr"
    names = {"fc": REAL_FC, "fr": REAL_FR, "mixed": REAL_MIXED, "zipfc": ["MutFC", "KeepFC"],
             "zipfr": ["MutFR", "KeepFR"]}[kind]
    n = rng.randint(0, 5)
    brs = [rng.choice(names) for _ in range(rng.randint(1, 4))]
    # the real accumulators need numbers as data; the harness elements take any value: data that is itself
    # mutable (lists, dicts, nested), contexts with nested dictionaries and lists, bare mutable values
    numeric = any(b in ("Sum", "Mean") for b in brs) or rng.random() < 0.3
    flow = []
    for i in range(n):
        r = rng.random()
        data = rng.randint(-3, 9)
        if not numeric:
            q = rng.random()
            if q < 0.35:
                data = [rng.randint(-3, 9) for _ in range(rng.randint(0, 3))]
            elif q < 0.5:
                data = [[data], [i]]
            elif q < 0.65:
                data = {"x": data, "hits": [i]}
        ctx = {"tag": "v%d" % i}
        q = rng.random()
        if q < 0.3:
            ctx["sub"] = {"k": i}
        elif q < 0.45:
            ctx["sub"] = {"deep": {"k": i}, "l": [i]}
        if r < 0.75:
            flow.append([data, ctx])
        elif r < 0.85:
            flow.append([data, {}])
        elif numeric or isinstance(data, int):
            flow.append(data)
        else:
            flow.append({"bare": data})
    return {"op": "realfc", "kind": kind, "brs": brs,
            "flow": flow, "copy_buf": rng.random() < 0.75, "bufsize": rng.choice([1, 2, 3, 1000, None])}


# ---- one Split object, several runs alive at the same time (op "inter") -----------------------------------
# The branches are STATELESS (their methods are functions of their arguments alone), so what every run must yield
# is determined by the statement whatever the order in which the generators are consumed.  Lean: `SSpec`.

class SSrc(object):
    def __init__(self, tag, k):
        self.tag, self.k = tag, k

    def __call__(self):
        return iter([(self.tag, "src", j) for j in range(self.k)])


class SFill(object):
    """fill(x) signals LenaStopFill iff x >= m (a function of the value alone); the results are constant"""

    def __init__(self, tag, m, meth):
        self.tag, self.m = tag, m
        setattr(self, meth, lambda: iter([(self.tag, meth)]))

    def fill(self, x):
        import lena.core
        if self.m is not None and x >= self.m:
            raise lena.core.LenaStopFill()


S_SQ = ("map", "even", "dup", "lam")


def _mk_sel(sp, tag):
    k = sp["k"]
    if k == "src":
        return SSrc(tag, sp["n"])
    if k == "fc":
        return SFill(tag, sp["m"], "compute")
    if k == "fr":
        return SFill(tag, sp["m"], "request")
    if k == "sq" and sp["v"] == "lam":
        return lambda x, tag=tag: (tag, "lam", x)
    if k == "sq" and sp["v"] in S_SQ:
        return SQ(tag, sp["v"], [])
    raise ValueError(sp)


def _rand_sspec(rng):
    k = rng.choice(["src", "fc", "fr", "sq", "fc", "fr"])
    if k == "src":
        sp = {"k": "src", "n": rng.choice([0, 1, 2, 3])}
    elif k in ("fc", "fr"):
        sp = {"k": k, "m": rng.choice([None, None, 0, 3, 5, 8, 12, 15])}
    else:
        sp = {"k": "sq", "v": rng.choice(S_SQ)}
    forms = (["el"] + _TUPLE_FORMS) if (k == "sq" and sp["v"] == "lam") else FORMS[k]
    sp["form"] = rng.choice(forms)
    return sp


def _rand_inter(rng, maxbr, maxn):
    nf = rng.choice([2, 2, 2, 3])
    flows = [_rand_flow(rng, maxn) for _ in range(nf)]
    if rng.random() < 0.2:
        flows[1] = list(flows[0])
    brs = [_rand_sspec(rng) for _ in range(rng.randint(0 if rng.random() < 0.05 else 1, maxbr))]
    # the order in which values are requested from the runs (afterwards the runs are drained one after another)
    total = sum(len(f) for f in flows) * 2 + 6
    r = rng.random()
    if r < 0.4:
        sched = [i % nf for i in range(total)]                       # zip-like
    elif r < 0.55:
        sched = [0] * rng.randint(1, 4) + [1] * 40                   # start one, finish another, come back
    else:
        sched = [rng.randrange(nf) for _ in range(rng.randint(0, total))]
    return {"op": "inter", "brs": brs, "flows": flows, "sched": sched, "copy_buf": rng.random() < 0.5,
            "bufsize": rng.choice([1, 1, 2, 3, 1000, None]), "fk": rng.randrange(5)}


def _inter_impl(case):
    import lena.core
    specs = case["brs"]
    try:
        objs = [_wrap(sp, _mk_sel(sp, i)) for i, sp in enumerate(specs)]
        s = lena.core.Split(objs, bufsize=case["bufsize"], copy_buf=case["copy_buf"])
    except Exception as e:
        return {"e": exc_name(e), "phase": "init"}
    flows = case["flows"]
    gens = [s.run(_as_flow(f, case.get("fk", 0) + j)) for j, f in enumerate(flows)]
    outs = [[] for _ in flows]
    ends = [None] * len(flows)

    def step(k):
        if ends[k] is not None:
            return
        try:
            outs[k].append(next(gens[k]))
        except StopIteration:
            ends[k] = "done"
        except (Exception, _Endless) as e:
            ends[k] = exc_name(e)
        if len(outs[k]) > MAX_OUT:
            ends[k] = "Other:EndlessOutput"
            outs[k] = outs[k][:12]
    for k in case["sched"]:
        if k < len(flows):
            step(k)
    for k in range(len(flows)):
        while ends[k] is None:
            step(k)
    return {"outs": canon(outs), "ends": ends}


def _oracle_inter(case, res):
    """every call of run(flow) yields the documented schedule for ITS flow — also when several generators returned
    by run() of one Split object are alive and consumed alternately (the branches are stateless, so the schedule
    determines the values)"""
    specs = case["brs"]
    what = (f"ONE Split({[_show_s(sp) for sp in specs]}, bufsize={case['bufsize']}, copy_buf={case['copy_buf']}); "
            f"run() on the flows {case['flows']}, values requested in the order {case['sched']} (then the rest)")
    if "e" in res:
        return f"[raised] {what} raised {res['e']} at construction"
    for k, flow in enumerate(case["flows"]):
        exp = []
        _ref_schedule(specs, [_mk_sel(sp, i) for i, sp in enumerate(specs)], case["bufsize"], flow, exp)
        exp = canon(exp)
        if res["ends"][k] != "done" or res["outs"][k] != exp:
            return (f"[reentrant-run] {what}: run {k} yields {res['outs'][k]} (ended: {res['ends'][k]}) but the documented "
                    f"schedule for its flow {flow} gives {exp}")
    return None


def _show_s(sp):
    k, f = sp["k"], sp.get("form", "el")
    if k == "src":
        return f"src{sp['n']}"
    if k in ("fc", "fr"):
        return f"{k}(stops on x>={sp['m']})/{f}"
    return f"sq({sp['v']})/{f}"


def _rand_long(rng):
    """flows longer than the constants of split.py (the default bufsize 1000): block sizes None / 1000 / around the
    length; branches with few results so that the replies stay small"""
    n = rng.choice([999, 1000, 1001, 1024, 1999, 2000, 2001, 2500, rng.randint(1002, 3000), rng.randint(1002, 3000),
                    4100, 8200])
    flow = [rng.randint(-3, 9) for _ in range(n)]
    brs = []
    for _ in range(rng.randint(1, 3) if n <= 3000 else 1):
        k = rng.choice(["fr", "fr", "fc", "sq", "sq", "src", "sum"])
        if k in ("fr", "fc"):
            sp = {"k": k, "stop": rng.choice([None, None, None, n // 2, 1000, 1001, n - 1, n]), "late": False}
            if k == "fc":
                sp["items"] = False
        elif k == "sq":
            sp = {"k": "sq", "v": rng.choice(["sumBlock", "sumBlock", "mapEnd", "even", "running", "cache", "lam"])}
        elif k == "src":
            sp = {"k": "src", "n": 2}
        else:
            sp = {"k": "sum"}
        sp["form"] = rng.choice(["el", "el", "seq"]) if not (k == "sq" and sp["v"] == "lam") and k != "src" else "el"
        brs.append(sp)
    more = [999, 1001, n - 1, n, n + 1, rng.randint(300, n), 2 * n]
    bss = [None, 1000, rng.choice(more)]
    return {"op": "run", "brs": brs, "flow": flow, "fk": rng.randrange(5), "bufsizes": bss,
            "copy_buf": rng.random() < 0.5, "spec": False}


def _rand_blocks(rng, maxn):
    flow = _rand_flow(rng, maxn)
    blocks, i = [], 0
    while i < len(flow):
        j = i + rng.randint(1, 3)
        blocks.append(flow[i:j])
        i = j
    return blocks


def _rand_methods(rng, maxbr, maxn):
    r = rng.random()
    blocks = _rand_blocks(rng, maxn)
    n = sum(len(b) for b in blocks)
    l = rng.randint(0 if r < 0.05 else 1, maxbr)
    if r < 0.4:
        kinds = ("fc", "sum")
    elif r < 0.75:
        kinds = ("fr",)
    elif r < 0.85:
        kinds = ("src",)
    else:
        kinds = ("src", "fc", "fr", "sq", "sum")
    return {"op": "methods", "brs": [_rand_spec(rng, n, kinds, pp=False) for _ in range(l)], "blocks": blocks,
            "copy_buf": rng.random() < 0.5}


# ---- op `copied`: a Split OBJECT that is a copy (copy.deepcopy of the Split, of a container holding it, of an outer
# Split it is a branch of) of a fresh or partly filled Split, driven next to the original

COPY_VIAS = ["deepcopy", "deepcopy", "in_list", "nested", "twice"]


def _rand_copied(rng, maxbr, maxn):
    """every Split object offers the methods with the meaning of ITS branches: the original is filled with `pre`
    (and, fill/request, possibly asked once), copied, then copy and original are filled alternately with different
    values (`rest` / `other`) and asked; or (drive=run) a fresh Split and its copy run on different flows"""
    r = rng.random()
    pre, rest, other = _rand_flow(rng, 3), _rand_flow(rng, maxn - 3), [20 + x for x in _rand_flow(rng, 3)]
    n = len(pre) + max(len(rest), len(other))
    case = {"op": "copied", "copy_buf": rng.random() < 0.5, "pre": pre, "rest": rest, "other": other,
            "via": rng.choice(COPY_VIAS), "pre_request": rng.random() < 0.5}
    if r < 0.75:
        kinds = ("fc", "sum") if rng.random() < 0.5 else ("fr",)
        case["drive"] = "methods"
        l = rng.randint(1, maxbr)
    else:
        kinds = ("src", "fc", "fr", "sq", "sum")
        case["drive"] = "run"
        case["pre"] = []
        case["bufsize"] = rng.choice([None, 1, 2, 3])
        if case["via"] == "nested":
            case["via"] = "deepcopy"
        l = rng.randint(0, maxbr)
    brs = []
    while len(brs) < l:
        sp = _rand_spec(rng, n, kinds, pp=False)
        if not _has_cache(sp):
            brs.append(sp)
    case["brs"] = brs
    return case


def _copy_of(case, s):
    import copy
    via = case["via"]
    if via == "in_list":
        a, b = copy.deepcopy([s, s])
        return a if a is b else None
    if via == "twice":
        return copy.deepcopy(copy.deepcopy(s))
    return copy.deepcopy(s)  # "deepcopy", and "nested" (there `s` is the outer Split)


def _copied_kind(case):
    kinds = {KIND[sp["k"]] for sp in case["brs"]}
    return kinds.pop() if len(kinds) == 1 else None


def _copied_play(case, fill, result, orig, mkcopy):
    """the history of a `copied` case with drive=methods, over abstract objects: fill(o, x) -> True when the
    object signalled LenaStopFill, result(o) -> list.  Filling an object ends at its first stop signal (as in op
    `methods`).  Returns ({"stopped", "outs"} of the copy, the same of the original)."""
    fr = _copied_kind(case) == "fill_request"

    def fill_all(o, xs, h):
        for x in xs:
            if h["stopped"]:
                return
            h["stopped"] = fill(o, x)
    ho = {"stopped": False, "outs": []}
    fill_all(orig, case["pre"], ho)
    asked = fr and case["pre_request"]
    if asked:
        ho["outs"].append(result(orig))
    dup = mkcopy(orig)
    hd = {"stopped": ho["stopped"], "outs": list(ho["outs"])}
    if asked and ho["stopped"]:
        return hd, ho  # as in op `methods`: nothing is done after the request() that follows a stop signal
    rest, other = case["rest"], case["other"]
    for i in range(max(len(rest), len(other))):  # alternately: cross-talk in either direction shows
        fill_all(dup, rest[i:i + 1], hd)
        fill_all(orig, other[i:i + 1], ho)
    hd["outs"].append(result(dup))
    ho["outs"].append(result(orig))
    return hd, ho


def _copied_impl(case):
    import lena.core as lc
    specs = case["brs"]
    log = []
    try:
        s = lc.Split(_build(specs, log), bufsize=case.get("bufsize"), copy_buf=case["copy_buf"])
        if case["via"] == "nested":
            s = lc.Split([s], copy_buf=case["copy_buf"])
    except Exception as e:
        return {"e": exc_name(e), "phase": "init"}
    if case["drive"] == "run":
        try:
            dup = _copy_of(case, s)
        except Exception as e:
            return {"e": exc_name(e), "phase": "copy"}
        res = {}
        for key, o, flow in (("dup", dup, case["rest"]), ("orig", s, case["other"])):
            out = []
            try:
                _drain(o.run(_ReList(flow)), out)
                res[key] = {"out": canon(out)}
            except Exception as e:
                res[key] = {"e": exc_name(e), "out": canon(out)}
        return res
    kind = _copied_kind(case)
    meth = "compute" if kind == "fill_compute" else "request"
    res = {"offered": [hasattr(s, "fill"), hasattr(s, meth)]}
    if not all(res["offered"]):
        return res

    def fill(o, x):
        try:
            o.fill(x)
        except lc.LenaStopFill:
            return True
        return False

    def mkcopy(o):
        d = _copy_of(case, o)
        res["copy_offered"] = [hasattr(d, "fill"), hasattr(d, meth)]
        return d
    try:
        hd, ho = _copied_play(case, fill, lambda o: canon(list(getattr(o, meth)())), s, mkcopy)
    except Exception as e:
        res.update({"e": exc_name(e), "phase": "methods"})
        return res
    res["dup"], res["orig"] = hd, ho
    return res


def _copied_blocks(case, which):
    """the fills of one object of a `copied` case as the blocks of op `methods` (a request() after each block)"""
    tail = case["rest"] if which == "dup" else case["other"]
    if _copied_kind(case) == "fill_request" and case["pre_request"]:
        return [case["pre"], tail]
    return [case["pre"] + tail]


def _copied_what(case):
    w = f"Split({[_show(s) for s in case['brs']]}, copy_buf={case['copy_buf']})"
    if case["via"] == "nested":
        w = f"Split([{w}], copy_buf={case['copy_buf']})"
    return w


def _oracle_copied(case, res):
    specs = case["brs"]
    what = _copied_what(case)
    how = {"deepcopy": "copy.deepcopy(s)", "in_list": "copy.deepcopy([s, s])[0]", "nested": "copy.deepcopy(s)",
           "twice": "copy.deepcopy(copy.deepcopy(s))"}[case["via"]]
    if "e" in res:
        return f"[copied-raised] s = {what}; {how}; {case['drive']}: raised {res['e']} ({res['phase']})"
    if case["drive"] == "run":
        for key, flow in (("dup", case["rest"]), ("orig", case["other"])):
            exp = canon(ref_run(specs, case["bufsize"], flow)[0])
            if res[key] != {"out": exp}:
                return (f"[copied-run] s = {what} (bufsize={case['bufsize']}); d = {how}; d.run({case['rest']}) then "
                        f"s.run({case['other']}): the {'copy' if key == 'dup' else 'original'} yields {res[key]}, "
                        f"the documented schedule of its flow gives {exp}")
        return None
    if res["offered"] != [True, True] or res.get("copy_offered") != [True, True]:
        return (f"[copied-offered] s = {what}: branches of the one type {_copied_kind(case)}; s offers [fill, "
                f"compute/request] = {res['offered']}, the copy {how}: {res.get('copy_offered')}")
    meth = "compute" if _copied_kind(case) == "fill_compute" else "request"
    log = []
    els_d = [_mk_el(sp, i, log) for i, sp in enumerate(specs)]
    els_o = [_mk_el(sp, i, log) for i, sp in enumerate(specs)]
    # the branches of the copy are copies of the original's branches: their own objects with the state the
    # original's had - i.e. the same elements with the same fills replayed
    exp = {}
    for key, els in (("dup", els_d), ("orig", els_o)):
        h = {"stopped": False, "outs": []}
        for blk in _copied_blocks(case, key):
            h["stopped"] = _ref_fill_all(els, blk)
            if meth == "request":
                h["outs"].append(canon([v for el in els for v in el.request()]))
            if h["stopped"]:
                break
        if meth == "compute":
            h["outs"].append(canon([v for el in els for v in el.compute()]))
        exp[key] = h
    for key in ("dup", "orig"):
        if res[key] != exp[key]:
            return (f"[copied-methods] s = {what} filled with {case['pre']}"
                    f"{', request(),' if meth == 'request' and case['pre_request'] else ''} then d = {how}; d filled "
                    f"with {case['rest']}, s with {case['other']} (alternately), then {meth}(): the "
                    f"{'copy d' if key == 'dup' else 'original s'} gives {res[key]}, its branches filled with "
                    f"{_copied_blocks(case, key)} give {exp[key]}")
    return None


def _rand_zip(rng, maxbr, maxn):
    r = rng.random()
    flow = _rand_flow(rng, maxn)
    l = rng.randint(0 if r < 0.05 else 1, maxbr)
    if r < 0.5:
        kinds = ("fc", "sum")
    elif r < 0.85:
        kinds = ("fr",)
    else:
        kinds = ("src", "fc", "fr", "sq", "sum")
    case = {"op": "zip", "brs": [_rand_spec(rng, len(flow), kinds, pp=False) for _ in range(l)], "flow": flow}
    if r < 0.85 and rng.random() < 0.25:
        case["ctx"] = True
    elif r < 0.85 and rng.random() < 0.2:
        # the result generator of one sequence raises after some values (Zip._yield catches StopIteration only)
        cand = [b for b in case["brs"] if b["k"] in ("fc", "fr")]
        if cand:
            b = rng.choice(cand)
            b["boom_gen"] = rng.randint(0, 2)
            b["boom_exc"] = rng.choice(GEN_EXCS)
    return case


CAPS_LETTERS = "fcqrkib"
CAPS_REPR = ["", "f", "fc", "fq", "fcq", "r", "k", "rb", "i", "fcr", "fqk", "c", "q", "rk", "fi", "b"]


def _all_caps():
    res = []
    for r in range(len(CAPS_LETTERS) + 1):
        for c in itertools.combinations(CAPS_LETTERS, r):
            res.append("".join(c))
    return res


def _init_cases(rng, tier):
    cases = []
    explicit = [{"t": "source"}, {"t": "fcseq"}, {"t": "frseq"}, {"t": "seq"}]
    singles = explicit + [{"t": "el", "caps": c} for c in _all_caps()]
    for o in singles:
        for bs in (None, 1, 3):
            cases.append({"op": "init", "objs": [o], "bufsize": bs, "is_list": True})
    for o in explicit + [{"t": "el", "caps": c} for c in CAPS_REPR]:
        for bs in (0, -2):
            cases.append({"op": "init", "objs": [o], "bufsize": bs, "is_list": True})
        cases.append({"op": "init", "objs": [o], "bufsize": 2, "is_list": False})
    # tuples of length 0..2 (3 sampled) over representative capability sets
    cases.append({"op": "init", "objs": [{"t": "tuple", "els": []}], "bufsize": None, "is_list": True})
    for a in CAPS_REPR:
        for bs in (None, 2, 0):
            cases.append({"op": "init", "objs": [{"t": "tuple", "els": [a]}], "bufsize": bs, "is_list": True})
        for b in CAPS_REPR:
            cases.append({"op": "init", "objs": [{"t": "tuple", "els": [a, b]}], "bufsize": None, "is_list": True})
    # pairs of arguments: common type / mixed types
    reps = explicit + [{"t": "el", "caps": c} for c in ("fc", "fq", "r", "k", "")] + \
        [{"t": "tuple", "els": ["k", "fc"]}, {"t": "tuple", "els": ["fq", "r"]}, {"t": "tuple", "els": ["r", "k"]}]
    for a in reps:
        for b in reps:
            cases.append({"op": "init", "objs": [a, b], "bufsize": 1000, "is_list": True})
    # attributes that exist but are not callable; lists of elements; elements / sequences with `is_cache`
    for c in ("F", "Fc", "fC", "FC", "Fq", "fQ", "R", "Rk", "fcR", "I", "kI", "FCQR", "fcQ", "Fcq"):
        cases.append({"op": "init", "objs": [{"t": "el", "caps": c}], "bufsize": 2, "is_list": True})
        cases.append({"op": "init", "objs": [{"t": "tuple", "els": ["k", c, "r"]}], "bufsize": None, "is_list": True})
    for a in CAPS_REPR:
        for b in ("fc", "fq", "r", "k", ""):
            cases.append({"op": "init", "objs": [{"t": "list", "els": [a, b]}], "bufsize": 3, "is_list": True})
    cases.append({"op": "init", "objs": [{"t": "list", "els": []}], "bufsize": 3, "is_list": True})
    for o in ({"t": "el", "caps": "r", "cache": [True]}, {"t": "el", "caps": "fc", "cache": [True]},
              {"t": "el", "caps": "fq", "cache": [True]}, {"t": "el", "caps": "k", "cache": [True]},
              {"t": "seq", "cache": [True]}, {"t": "seq"},
              {"t": "tuple", "els": ["k", "r"], "cache": [False, True]},
              {"t": "tuple", "els": ["r", "fc"], "cache": [True, False]},
              {"t": "tuple", "els": ["fq", "r"], "cache": [False, True]},
              {"t": "tuple", "els": ["k", "r"], "cache": [False, False]},
              {"t": "list", "els": ["k", "fc"], "cache": [True, False]}):
        for bs in (None, 1, 1000, 0):
            cases.append({"op": "init", "objs": [o], "bufsize": bs, "is_list": True})
            cases.append({"op": "init", "objs": [{"t": "el", "caps": "fc"}, o], "bufsize": bs, "is_list": True})
    cases.append({"op": "init", "objs": [], "bufsize": 1000, "is_list": True})
    cases.append({"op": "init", "objs": [], "bufsize": 0, "is_list": True})
    cases.append({"op": "init", "objs": [], "bufsize": None, "is_list": False})
    nrand = 300 if tier == "quick" else 6000
    allc = _all_caps()
    for _ in range(nrand):
        objs = []
        for _ in range(rng.randint(1, 3)):
            r = rng.random()
            if r < 0.25:
                objs.append(dict(rng.choice(explicit)))
            elif r < 0.5:
                objs.append({"t": "el", "caps": rng.choice(allc)})
            else:
                els = [rng.choice(allc if rng.random() < 0.5 else CAPS_REPR) for _ in range(rng.randint(0, 4))]
                if rng.random() < 0.2:
                    els = [e.replace(rng.choice("fcqr"), rng.choice("FCQR")) for e in els]
                o = {"t": "tuple" if rng.random() < 0.8 else "list", "els": els}
                if rng.random() < 0.25:
                    o["cache"] = [rng.random() < 0.4 for _ in els]
                objs.append(o)
        cases.append({"op": "init", "objs": objs, "bufsize": rng.choice([None, None, 1, 2, 1000, 0, -1]),
                      "is_list": rng.random() < 0.9})
    return cases


def _roundrobin(gens):
    """interleave generators (so that any prefix of the stream is a mix of all kinds of cases)"""
    gens = [iter(g) for g in gens]
    while gens:
        alive = []
        for g in gens:
            try:
                yield next(g)
            except StopIteration:
                continue
            alive.append(g)
        gens = alive


def _repeat(n, fn, *a):
    for _ in range(n):
        yield fn(*a)


def gen_cases(ctx):
    """a lazy stream (harness/common.py samples a prefix of the thorough stream when the anchored code changed)"""
    import random
    if ctx.tier == "quick":
        exh = {0: 3, 1: 3, 2: 3, 3: 2, 4: 2}
        n_run, n_meth, n_zip, n_runx, n_zctx, n_real = 900, 500, 400, 900, 400, 500
        n_inter, n_long = 500, 10
        n_copied = 400
        maxbr, maxn = 4, 8
        spec_every, spec_p = 1, 1.0
    else:
        # the property's quantifier for N = 4: every branch list of length 0..4 over the four kinds, every
        # bufsize, both copy_buf, every stop index (lists of length 4 on flows of length 0..3; 0..3 on length 4)
        exh = {0: 4, 1: 4, 2: 4, 3: 4, 4: 3}
        n_run, n_meth, n_zip, n_runx, n_zctx, n_real = 24000, 8000, 6000, 15000, 6000, 12000
        n_inter, n_long = 10000, 150
        n_copied = 8000
        maxbr, maxn = 5, 8
        spec_every, spec_p = 8, 0.3
    ctx.exhaustive = False  # the random part is sampled

    def sub():
        # independent streams, all derived from ctx.rng
        return random.Random(ctx.rng.getrandbits(64))
    streams = [
        _exhaustive_runs(exh, spec_every),
        _repeat(n_run, _rand_run, sub(), maxbr, maxn, spec_p),
        _repeat(n_meth, _rand_methods, sub(), 4, 7),
        _repeat(n_zip, _rand_zip, sub(), 4, 7),
        _repeat(n_runx, _rand_runx, sub(), maxbr, 6),
        _repeat(n_zctx, _rand_zipctx, sub()),
        _repeat(n_real, _rand_realfc, sub()),
        _init_cases(sub(), ctx.tier),
        _repeat(n_inter, _rand_inter, sub(), 4, 6),
        _repeat(n_long, _rand_long, sub()),
        [{"op": "exc", "name": nm} for nm in EXC_NAMES],
        _repeat(n_copied, _rand_copied, sub(), 4, 8),
    ]
    return _roundrobin(streams)


# ----------------------------------------------------------------------------------------
# the real code

def _run_split(specs, flow, bufsize, copy_buf, spec=False, fk=1):
    import lena.core
    log = []
    try:
        objs = _build(specs, log)
        s = lena.core.Split(objs, bufsize=bufsize, copy_buf=copy_buf)
    except Exception as e:
        return {"e": exc_name(e), "phase": "init"}
    out = []
    try:
        _drain(s.run(_as_flow(flow, fk)), out, lambda v: log.append((_owner(v), ["out", v])))
    except _Endless:
        return {"e": "Other:EndlessOutput", "phase": "run", "out": canon(out[:12]), "inv": []}
    except Exception as e:
        return {"e": exc_name(e), "phase": "run", "out": canon(out), "inv": canon(_inv(log, len(specs)))}
    res = {"out": canon(out), "inv": canon(_inv(log, len(specs)))}
    if spec:
        res["ptrace"] = canon(_ptrace(log, len(specs)))
    return res


def _py_bufarg(a):
    if a is None:
        return None
    if "int" in a:
        return a["int"]
    if "float_int" in a:
        return float(a["float_int"])
    if "float_frac" in a:
        return 1.5
    return a["bool"]


def _state_of(el):
    return el.state() if hasattr(el, "state") else None


def _runx_on(split_or_none, specs, els, log, flows, runner):
    """consecutive runs on the same objects; `runner(flow, out)` appends what is yielded to `out` and may raise"""
    runs = []
    for flow in flows:
        start = len(log)
        out = []
        term = "done"
        try:
            runner(flow, out)
        except AssertionError:
            term = "assert"
        except _Endless:
            term = ["raised", None, "Other:EndlessOutput"]
            out = out[:12]
        except (Exception, KeyboardInterrupt) as e:
            last = log[-1][0] if len(log) > start else None
            if last is not None and last >= 100:
                last = last // 100 - 1  # an element of a nested Split: the exception leaves through that branch
            term = ["raised", last, exc_name(e)]
        sub = log[start:]
        runs.append({"out": canon(out), "term": term,
                     "inv": canon([[ev for (t, ev) in sub if t == i] for i in range(len(specs))]),
                     "states": canon([_state_of(el) for el in els])})
        if term != "done":
            break
    return runs


def _runx_impl(case):
    import lena.core
    specs = case["brs"]
    log = []
    try:
        els = [_mk_el(sp, i, log) for i, sp in enumerate(specs)]
        objs = [_wrap(sp, el) for sp, el in zip(specs, els)]
        s = lena.core.Split(objs, bufsize=_py_bufarg(case["bufarg"]), copy_buf=case["copy_buf"])
    except Exception as e:
        return {"init": {"e": exc_name(e)}}

    fk = [case.get("fk", 1)]

    def runner(flow, out):
        fk[0] += 1
        _drain(s.run(_as_flow(flow, fk[0])), out)
    return {"runs": _runx_on(s, specs, els, log, case["flows"], runner)}


def _lazy_identity(s):
    """Observation through the public `run` only: does `s.run(flow)` hand on every value of the flow unchanged (the
    very objects, in order) and one by one, i.e. value k is yielded when exactly k values have been taken from the
    flow?  This is what 'an empty Split yields all values it receives' looks like from outside (the method it is
    implemented by is private and may be called anything).  A Split with branches and bufsize None reads the whole
    flow into its block before a branch runs, so it never is the lazy identity."""
    probe = [[("probe", i)] for i in range(3)]  # fresh mutable objects: identity is meaningful, a deep copy is another object
    pulled = [0]

    def flow():
        for x in probe:
            pulled[0] += 1
            yield x
    out = []
    try:
        for v in s.run(flow()):
            if pulled[0] != len(out) + 1:
                return False
            out.append(v)
    except Exception:
        return False  # a branch that cannot digest the probe values: there are branches, and they are used
    return len(out) == len(probe) and all(a is b for a, b in zip(out, probe))


def _acts_as_empty(make, bufsize_none_make=None):
    """the observable counterpart of the model's `emptyRun` flag (`self.run = self._empty_run` in Split.__init__):
    fresh Splits of the same arguments are the lazy identity, with the bufsize of the case and with bufsize None
    (with a block size of 1 a Split of one pass-through Sequence is indistinguishable from an empty one; with None
    it is not)"""
    try:
        if not _lazy_identity(make()):
            return False
        return True if bufsize_none_make is None else _lazy_identity(bufsize_none_make())
    except Exception:
        return False


def _methods_impl(case):
    import lena.core
    specs, blocks = case["brs"], case["blocks"]
    flow = [x for b in blocks for x in b]
    res = {}

    def build():
        log = []
        return lena.core.Split(_build(specs, log), bufsize=None, copy_buf=case.get("copy_buf", True)), log

    try:
        s, _ = build()
    except Exception as e:
        return {"e": exc_name(e), "phase": "init"}
    res["methods"] = {"fill": hasattr(s, "fill"), "compute": hasattr(s, "compute"),
                      "request": hasattr(s, "request"),
                      "empty_run": _acts_as_empty(lambda: build()[0])}
    try:
        res["call"] = canon(list(s()))
        res["methods"]["callable"] = True
    except lena.core.LenaAttributeError as e:
        res["call"] = {"e": exc_name(e)}
        res["methods"]["callable"] = False
    except Exception as e:
        res["call"] = {"e": exc_name(e)}
        res["methods"]["callable"] = None
    res["fc"] = res["fr"] = None
    try:
        if res["methods"]["fill"] and res["methods"]["compute"]:
            s, _ = build()
            stopped = False
            for x in flow:
                try:
                    s.fill(x)
                except lena.core.LenaStopFill:
                    stopped = True
                    break
            res["fc"] = {"stopped": stopped, "out": canon(list(s.compute()))}
        if res["methods"]["fill"] and res["methods"]["request"]:
            s, _ = build()
            stopped, outs = False, []
            for blk in blocks:
                for x in blk:
                    try:
                        s.fill(x)
                    except lena.core.LenaStopFill:
                        stopped = True
                        break
                outs.append(canon(list(s.request())))
                if stopped:
                    break
            res["fr"] = {"stopped": stopped, "outs": outs}
    except Exception as e:
        return {"e": exc_name(e), "phase": "methods"}
    # the same branches driven by Split.run on the same flow (for "with the same meaning")
    res["run"] = _run_split(specs, flow, None, True)
    # each element filled alone with the whole flow (reference for Lean `Accepts` / `filled`)
    import lena.core as lc
    acc, st = [], []
    log2 = []
    for i, sp in enumerate(specs):
        el = _mk_el(sp, i, log2)
        ok = True
        if hasattr(el, "fill"):
            for x in flow:
                try:
                    el.fill(x)
                except lc.LenaStopFill:
                    ok = False
                    break
        acc.append(ok)
        st.append(canon(_state_of(el)))
    res["accepts"], res["filled"] = acc, st
    return res


class _WithContext(object):
    """wraps a fill/compute or fill/request harness element: every result `v` becomes the pair
    `(v, {"common": 1, "branch": {"t<tag>": 1}})` (a value with context)"""

    def __init__(self, el, tag):
        self._el, self._tag = el, tag
        self.fill = el.fill
        for name in ("compute", "request"):
            if hasattr(el, name):
                setattr(self, name, lambda m=getattr(el, name): self._gen(m))

    def _gen(self, method):
        for v in method():
            yield (v, {"common": 1, "branch": {"t%d" % self._tag: 1}})


def _zip_objs(case, log):
    specs = case["brs"]
    if case.get("ctx"):
        return [_WithContext(_mk_el(sp, i, log), i) for i, sp in enumerate(specs)]
    return _build(specs, log)


def _zip_booms(case):
    return any(sp.get("boom_gen") is not None for sp in case["brs"])


def _zip_impl(case):
    import lena.core
    import lena.flow
    specs, flow = case["brs"], case["flow"]
    log = []
    try:
        z = lena.flow.Zip(_zip_objs(case, log))
    except Exception as e:
        return {"e": exc_name(e), "phase": "init"}
    r = []
    try:
        stopped = False
        for x in flow:
            try:
                z.fill(x)
            except lena.core.LenaStopFill:
                stopped = True
                break
        meth = z.compute if hasattr(z, "compute") else z.request
        _drain(meth(), r)
        r2 = list(meth())
    except (Exception, KeyboardInterrupt) as e:
        if _zip_booms(case):
            return {"stopped": stopped, "r": canon(r), "raised": exc_name(e)}
        return {"e": exc_name(e), "phase": "use"}
    res = {"stopped": stopped, "r": canon(r), "r2": canon(r2)}
    if _zip_booms(case):
        res["raised"] = None
        return res
    if not case.get("ctx"):
        # independent reference for the columns: the same elements, filled alone
        log2 = []
        els = [_mk_el(sp, i, log2) for i, sp in enumerate(specs)]
        _ref_fill_all(els, flow)
        results = [canon(list(el.compute() if hasattr(el, "compute") else el.request())) for el in els]
        maxlen = max([len(x) for x in results] + [0])
        res["cols"] = [([x[i] for x in results] if all(len(x) > i for x in results) else None)
                       for i in range(maxlen + 1)]
    return res


def _enc_ctx(d):
    """a context as the array of its slots over ZKEYS (null = key absent); a non-dict leaf as it is"""
    if not isinstance(d, dict):
        return d
    return [(_enc_ctx(d[k]) if k in d else None) for k in ZKEYS]


class _Canned(object):
    """a fill/compute or fill/request element whose results are given"""

    def __init__(self, items, kind):
        self._items, self.resets = items, 0
        if kind == "fc":
            self.compute = self._gen
        else:
            self.request = self._gen

    def fill(self, val):
        pass

    def reset(self):
        self.resets += 1

    def _gen(self):
        import copy
        for it in self._items:
            yield (it["d"], copy.deepcopy(it["c"])) if it["c"] else it["d"]


def _fields_py(f):
    if f is None:
        return []
    names = ["f%d" % i for i in range(f.get("list", f.get("str")))]
    return names if "list" in f else " ".join(names)


def _zipctx_impl(case):
    import lena.flow
    els = [_Canned(r, case["kind"]) for r in case["results"]]
    try:
        z = lena.flow.Zip(els, name="zipnt", fields=_fields_py(case["fields"]))
    except Exception as e:
        return {"init": {"e": exc_name(e)}}
    res, raised = [], None
    try:
        z.fill(0)
        gen = z.compute() if case["kind"] == "fc" else z.request()
        for val in gen:
            if isinstance(val, tuple) and len(val) == 2 and isinstance(val[1], dict):
                data, ctx = val
                bare = False
            else:
                data, ctx, bare = val, {}, True
            zp = ctx.get("zip")
            item = {"data": canon(list(data)), "bare": bare, "is_namedtuple": hasattr(data, "_fields")}
            if isinstance(zp, tuple):
                item["zip"] = [_enc_ctx(x) for x in zp]
                item["common"] = _enc_ctx({k: v for k, v in ctx.items() if k != "zip"})
            else:
                item["zip"] = None
                item["common"] = _enc_ctx(ctx)
            # each sequence's context recovered with lena's own update_recursively (reference for `ZVal.recover`)
            import copy
            import lena.context
            rec = []
            for jx in range(len(els)):
                c = copy.deepcopy({k: v for k, v in ctx.items() if not (k == "zip" and isinstance(zp, tuple))})
                if isinstance(zp, tuple):
                    lena.context.update_recursively(c, copy.deepcopy(zp[jx]))
                rec.append(_enc_ctx(c))
            item["recovered"] = rec
            res.append(item)
    except Exception as e:
        raised = exc_name(e)
    out = {"r": res, "raised": raised}
    if case["kind"] == "fr":
        try:
            z.reset()
            out["resets"] = [el.resets for el in els]
        except Exception as e:
            out["resets"] = {"e": exc_name(e)}
    return out


def _real_flow(case):
    """a fresh flow for every use: values with context are (data, dict) pairs with their own dict objects"""
    import copy

    def val(v):
        if isinstance(v, dict):
            return copy.deepcopy(v["bare"])     # a value without context that is itself a list / a dict
        if isinstance(v, list):
            return (copy.deepcopy(v[0]), copy.deepcopy(v[1]))
        return v
    return [val(v) for v in case["flow"]]


def _outcome(fn):
    try:
        return {"r": canon(fn())}
    except Exception as e:
        return {"e": exc_name(e)}


def _realfc_impl(case):
    import lena.core as lc
    names, kind, cb, bs = case["brs"], case["kind"], case["copy_buf"], case["bufsize"]

    def branches():
        return [_mk_real(nm, i) for i, nm in enumerate(names)]

    if kind == "mixed":
        return _realfc_mixed(case, branches)
    if kind in ("zipfc", "zipfr"):
        return _realfc_zip(case, branches)

    def blocks(flow):
        return _blocks(flow, bs)

    def via_run():
        return list(lc.Split(branches(), bufsize=bs, copy_buf=cb).run(iter(_real_flow(case))))

    def via_methods():
        s = lc.Split(branches(), bufsize=bs, copy_buf=cb)
        if kind == "fc":
            for v in _real_flow(case):
                s.fill(v)
            return list(s.compute())
        out = []
        bl = blocks(_real_flow(case))
        for blk in bl:
            for v in blk:
                s.fill(v)
            out.extend(s.request())
        if not bl:
            out.extend(s.request())
        return out

    def via_nested():
        inner = lc.Split(branches(), bufsize=bs, copy_buf=cb)
        return list(lc.Split([inner], bufsize=bs, copy_buf=cb).run(iter(_real_flow(case))))

    def alone():
        out = []
        els = branches()
        bl = blocks(_real_flow(case))
        if kind == "fc":
            for el in els:
                for v in _real_flow(case):
                    el.fill(v)
            for el in els:
                out.extend(el.compute())
            return out
        for k in range(max(len(bl), 1)):
            for el in els:
                for v in (blocks(_real_flow(case))[k] if bl else []):
                    el.fill(v)
            for el in els:
                out.extend(el.request())
        return out
    return {"run": _outcome(via_run), "methods": _outcome(via_methods), "nested": _outcome(via_nested),
            "alone": _outcome(alone)}


def _realfc_mixed(case, branches):
    """a Split of any mix of kinds whose branches touch / keep the value objects: run(flow) against the documented
    schedule in which every branch works on its own copy of every block"""
    import copy
    import lena.core as lc
    names, cb, bs = case["brs"], case["copy_buf"], case["bufsize"]

    def via_run():
        out = []
        _drain(lc.Split(branches(), bufsize=bs, copy_buf=cb).run(_as_flow(_real_flow(case), case.get("fk", 0))), out)
        return out

    def alone():
        els = branches()
        kinds = [_real_kind(nm) for nm in names]
        out, active = [], [True] * len(els)
        bl = _blocks(_real_flow(case), bs)
        for blk in bl:
            for i, el in enumerate(els):
                if not active[i]:
                    continue
                mine = copy.deepcopy(blk)
                if kinds[i] == "source":
                    out.extend(el())
                    active[i] = False
                elif kinds[i] == "fill_compute":
                    for v in mine:
                        el.fill(v)
                elif kinds[i] == "fill_request":
                    for v in mine:
                        el.fill(v)
                    out.extend(el.request())
                else:
                    out.extend(el.run(iter(mine)))
        for i, el in enumerate(els):
            if not active[i]:
                continue
            if kinds[i] == "source":
                out.extend(el())
            elif kinds[i] == "fill_compute":
                out.extend(el.compute())
            elif not bl:
                out.extend(el.request() if kinds[i] == "fill_request" else el.run(iter([])))
        return out
    return {"run": _outcome(via_run), "alone": _outcome(alone)}


def _realfc_zip(case, branches):
    """Zip of branches that touch / keep the value objects: Zip.fill gives every sequence its own copy"""
    import lena.flow
    meth = "compute" if case["kind"] == "zipfc" else "request"

    def via_zip():
        z = lena.flow.Zip(branches())
        for v in _real_flow(case):
            z.fill(v)
        return [list(t) for t in getattr(z, meth)()]

    def alone():
        els = branches()
        for el in els:
            for v in _real_flow(case):
                el.fill(v)
        return [list(t) for t in zip(*[list(getattr(el, meth)()) for el in els])]
    return {"run": _outcome(via_zip), "alone": _outcome(alone)}


def _oracle_realfc(case, res):
    """'a Split whose branches share one type offers that type's methods with the same meaning': for every flow,
    `fill` each value then `compute()` (block-wise `fill` then `request()`) yields what `run(flow)` yields, also when
    the Split is nested as a branch of another one; with copy_buf=True (every branch but the last gets its own copy)
    that is what the branches yield when each is driven alone.  copy_buf=False may legitimately interfere: no claim."""
    if case["kind"] in ("zipfc", "zipfr"):
        if res["run"] != res["alone"]:
            return (f"[zip-branches-interfere] Zip([{', '.join(case['brs'])}]) filled with {case['flow']} yields "
                    f"{res['run']}; the tuples of the i-th results of the sequences filled alone (Zip.fill gives "
                    f"each its own copy) are {res['alone']}")
        return None
    if not case["copy_buf"]:
        return None
    what = (f"Split([{', '.join(case['brs'])}], bufsize={case['bufsize']}, copy_buf=True) on the flow "
            f"{case['flow']}")
    if case["kind"] == "mixed":
        if res["run"] != res["alone"]:
            return (f"[branches-interfere] {what}: run(flow) yields {res['run']} but the documented schedule with every "
                    f"branch working on its own copy of each block yields {res['alone']}")
        return None
    how = "fill each value then compute()" if case["kind"] == "fc" else "fill each block then request()"
    if res["methods"] != res["run"]:
        return f"[methods-vs-run] {what}: {how} yields {res['methods']} but run(flow) yields {res['run']}"
    if res["nested"] != res["run"]:
        return f"[nested-vs-run] {what}: nested as the only branch of another Split it yields {res['nested']}, run alone {res['run']}"
    if res["alone"] != res["run"]:
        return f"[branches-interfere] {what}: run(flow) yields {res['run']} but the branches driven alone (own copies) yield {res['alone']}"
    return None


def _caps_el(caps, is_cache=False, log=None):
    """an object with the given attributes: lower case = callable, upper case (F C Q R I) = present but NOT callable
    (the checks of check_sequence_type.py / adapters.py demand callables); is_cache: the attribute of lena.flow.Cache;
    log: every call of a method of the object is recorded there"""
    def ev(name):
        if log is not None:
            log.append(("el", name))
    d = {}
    for up, name in (("F", "fill"), ("C", "compute"), ("Q", "request"), ("R", "run"), ("I", "fill_into")):
        if up in caps:
            d[name] = 1
    if is_cache:
        d["is_cache"] = True
    if "f" in caps:
        d["fill"] = lambda self, v: ev("fill")
    if "c" in caps:
        d["compute"] = lambda self: (ev("compute"), iter(()))[1]
    if "q" in caps:
        d["request"] = lambda self: (ev("request"), iter(()))[1]
    if "r" in caps:
        d["run"] = lambda self, flow: (ev("run"), iter(list(flow)))[1]
    if "k" in caps:
        d["__call__"] = lambda self, v: (ev("call"), v)[1]
    if "i" in caps:
        d["fill_into"] = lambda self, el, v: (ev("fill_into"), el.fill(v))[1]
    if "b" in caps:
        # a public protocol attribute of lena.core.Run adapters in spite of its underscore: lena reads it with
        # hasattr(el, "_can_break_flow") from objects users write
        d["_can_break_flow"] = True
    return type("El_" + (caps or "none"), (object,), d)()


def _mk_obj(o, log=None):
    import lena.core as lc
    t = o["t"]
    if log is None:
        log = []
    if t == "source":
        return lc.Source(SrcEl(0, 1, log))
    if t == "fcseq":
        return lc.FillComputeSeq(FC(0, None, False, False, log))
    if t == "frseq":
        return lc.FillRequestSeq(FR(0, None, False, log), reset=False, buffer_input=True)
    cache = o.get("cache", [])

    def flag(i):
        return bool(cache[i]) if i < len(cache) else False
    if t == "seq":
        return lc.Sequence(SQ(0, "cache" if flag(0) else "map", log))
    if t == "el":
        return _caps_el(o["caps"], flag(0), log)
    if t == "tuple":
        return tuple(_caps_el(c, flag(i), log) for i, c in enumerate(o["els"]))
    if t == "list":
        return [_caps_el(c, flag(i), log) for i, c in enumerate(o["els"])]
    raise ValueError(t)


def _offered(s):
    """which methods a Split offers (public attributes; callable = `s()` does not raise LenaAttributeError)"""
    import lena.core
    m = {"fill": hasattr(s, "fill"), "compute": hasattr(s, "compute"), "request": hasattr(s, "request")}
    try:
        list(s())
        m["callable"] = True
    except lena.core.LenaAttributeError:
        m["callable"] = False
    return m


def _single_kind(o):
    """How Split classifies ONE argument, read off the public interface: a Split of that argument alone has one common
    type and offers that type's methods (fill+compute, fill+request, call; none of them: a plain Sequence).  The list
    Split keeps of these classifications is private."""
    import lena.core
    try:
        m = _offered(lena.core.Split([_mk_obj(o)], bufsize=None))
    except Exception as e:
        return "raised:" + exc_name(e)
    if m["fill"] and m["compute"] and not m["request"] and not m["callable"]:
        return "fill_compute"
    if m["fill"] and m["request"] and not m["compute"] and not m["callable"]:
        return "fill_request"
    if m["callable"] and not (m["fill"] or m["compute"] or m["request"]):
        return "source"
    if not any(m.values()):
        return "sequence"
    return "unclear:" + jdump(m)


def _first_block(case):
    """Public observation of the block size the constructed Split works with (the Cache rule of Split.__init__; the
    attribute that holds it is private): how many values `run` takes from a flow of bufsize+1 values (3 for None)
    before the first branch is touched (any method of any element called) or the first value is yielded."""
    import lena.core
    log = []
    s = lena.core.Split([_mk_obj(o, log) for o in case["objs"]], bufsize=case["bufsize"])
    del log[:]
    n = 3 if case["bufsize"] is None else case["bufsize"] + 1
    st = {"pulled": 0, "first": None}

    def flow():
        for i in range(n):
            if st["first"] is None and log:
                st["first"] = st["pulled"]
            st["pulled"] += 1
            yield i
    gen = s.run(flow())
    try:
        for _ in gen:
            break
    except Exception:
        pass
    if st["first"] is None:
        st["first"] = st["pulled"]
    try:
        gen.close()
    except Exception:
        pass
    return {"n": n, "pulled": st["first"]}


def _init_impl(case):
    import lena.core
    import lena.flow
    res = {}

    def fresh(bufsize):
        objs = [_mk_obj(o) for o in case["objs"]]
        return lena.core.Split(objs if case["is_list"] else tuple(objs), bufsize=bufsize)
    try:
        s = fresh(case["bufsize"])
        m = _offered(s)
        m["empty_run"] = _acts_as_empty(lambda: fresh(case["bufsize"]), lambda: fresh(None))
        res["split"] = {"kinds": [_single_kind(o) for o in case["objs"]], "methods": m,
                        "first_block": _first_block(case)}
    except Exception as e:
        res["split"] = {"e": exc_name(e)}
    import lena.core.check_sequence_type as ct
    objs = [_mk_obj(o) for o in case["objs"]]
    res["is_fc_seq"] = [bool(ct.is_fill_compute_seq(o)) for o in objs]
    res["is_fr_seq"] = [bool(ct.is_fill_request_seq(o)) for o in objs]
    objs = [_mk_obj(o) for o in case["objs"]]
    try:
        z = lena.flow.Zip(objs)
        res["zip"] = {"type": "fill_compute" if hasattr(z, "compute") else
                      ("fill_request" if hasattr(z, "request") else "?")}
    except Exception as e:
        res["zip"] = {"e": exc_name(e)}
    return res


def run_impl(case):
    """the result is kept as one JSON string: the nested lists of a thorough run would need several GB"""
    return {"packed": jdump(_run_impl(case))}


def _unp(res):
    import json
    return json.loads(res["packed"]) if isinstance(res, dict) and "packed" in res else res


def _run_impl(case):
    op = case["op"]
    if op == "run":
        fk = case.get("fk", 1)
        return {"runs": [_run_split(case["brs"], case["flow"], bs, case["copy_buf"], bool(case.get("spec")), fk + j)
                         for j, bs in enumerate(case["bufsizes"])]}
    if op == "methods":
        return _methods_impl(case)
    if op == "copied":
        return _copied_impl(case)
    if op == "runx":
        return _runx_impl(case)
    if op == "zipctx":
        return _zipctx_impl(case)
    if op == "realfc":
        return _realfc_impl(case)
    if op == "inter":
        return _inter_impl(case)
    if op == "exc":
        return _exc_impl(case)
    if op == "zip":
        return _zip_impl(case)
    if op == "init":
        return _init_impl(case)
    raise ValueError(op)


# ----------------------------------------------------------------------------------------
# the model

def _mspec(sp):
    if sp["k"] == "nest":
        return {"k": "nest", "inner": [_mspec(i) for i in sp["inner"]]}
    m = {k: v for k, v in sp.items() if k != "form"}
    if _has_pre(sp):
        m["pre"] = True
    if _has_post(sp):
        m["post"] = True
    return m


def model_requests(case):
    op = case["op"]
    if op == "run":
        return [{"op": "run", "brs": [_mspec(s) for s in case["brs"]], "flow": case["flow"],
                 "bufsizes": case["bufsizes"], "copy_buf": case["copy_buf"], "spec": bool(case.get("spec"))}]
    if op == "methods":
        return [{"op": "methods", "brs": [_mspec(s) for s in case["brs"]], "blocks": case["blocks"]}]
    if op == "copied":
        # a copy is a Split with the state the original had: the model's Split over the same history
        brs = [_mspec(s) for s in case["brs"]]
        if case["drive"] == "run":
            return [{"op": "run", "brs": brs, "flow": flow, "bufsizes": [case["bufsize"]], "copy_buf": case["copy_buf"],
                     "spec": False} for flow in (case["rest"], case["other"])]
        return [{"op": "methods", "brs": brs, "blocks": _copied_blocks(case, key)} for key in ("dup", "orig")]
    if op == "realfc":
        return []  # values are changed in place by the branches: outside the value model (aliasing: C04); oracle only
    if op == "exc":
        return [{"op": "exc", "name": case["name"]}]
    if op == "inter":
        return [{"op": "inter", "brs": [_mspec(s) for s in case["brs"]], "flows": case["flows"], "sched": case["sched"],
                 "bufsize": case["bufsize"], "copy_buf": case["copy_buf"]}]
    if op == "zipctx":
        return [{"op": "zipctx", "n": len(ZKEYS), "zk": ZKEYS.index("zip"), "fields": case["fields"],
                 "kind": case["kind"],
                 "results": [[{"d": it["d"], "c": _enc_ctx(it["c"])} for it in r] for r in case["results"]]}]
    if op == "runx":
        return [{"op": "runx", "brs": [_mspecx(s) for s in case["brs"]], "flows": case["flows"],
                 "bufarg": case["bufarg"], "copy_buf": case["copy_buf"]}]
    if op == "zip":
        if case.get("ctx"):
            return []  # values with context: outside the model (Zip._create_context is C07's algebra); oracle only
        if _zip_booms(case):
            return []  # a raising result generator: the Zip model has no exceptions; oracle only
        return [{"op": "zip", "brs": [_mspec(s) for s in case["brs"]], "flow": case["flow"]}]
    if op == "init":
        return [{"op": "init", "objs": case["objs"], "bufsize": case["bufsize"], "is_list": case["is_list"]}]
    raise ValueError(op)


def _mspecx(sp):
    if sp["k"] == "nest":
        return {"k": "nest", "inner": [_mspec(i) for i in sp["inner"]], "bufsize": sp.get("bufsize", 1000)}
    m = _mspec(sp)
    m.setdefault("boom_fill", None)
    m.setdefault("boom_gen", None)
    for k in ("boom_exc", "boom_fill_exc"):
        if m.get(k) is None:
            m.pop(k, None)
    return m


def _is_lam(sp):
    return sp["k"] == "sq" and sp.get("v") == "lam"


def _cmp_run(specs, r, m, what, flow=None, bufsize=None):
    # the specification side of the theorems (`blocks`, `Split.schedule`) against Python / the real code
    if flow is not None and m.get("blocks") != _blocks(flow, _eff_bufsize(specs, bufsize)):
        return (f"{what}: Lean `blocks` (after `cacheRule`) gives {m.get('blocks')} but the flow is cut into "
                f"{_blocks(flow, _eff_bufsize(specs, bufsize))}")
    if "out" in r and m.get("spec_out") != r["out"]:
        return f"{what}: impl yields {r['out']} vs Lean `Split.schedule` {m.get('spec_out')}"
    if "e" in r:
        return f"{what}: impl raised {r}, model gives {jdump(m)[:300]}"
    if m.get("assert"):
        return f"{what}: model reaches `assert flow_was_empty`"
    if r["out"] != m["out"]:
        return f"{what}: impl yields {r['out']} vs model {m['out']}"
    for i, sp in enumerate(specs):
        if _is_lam(sp):
            continue
        minv = _seen_by_element(sp, m["inv"][i])
        if r["inv"][i] != minv:
            return f"{what}: branch {i} was invoked {r['inv'][i]} vs model {minv}"
    # the specification side, definition by definition, against the real code
    if "spec_fold" in m and m["spec_fold"] != r["out"]:
        return f"{what}: impl yields {r['out']} vs Lean `Split.runSpec` {m['spec_fold']}"
    for i, sp in enumerate(specs):
        if "ptrace" not in m or "ptrace" not in r or not _attributable(sp):
            continue
        mine = r["ptrace"][i]
        got = _seen_by_element(sp, m["ptrace"][i])
        if got != mine:
            return f"{what}: what happens to branch {i} ({_show(sp)}): impl {mine} vs Lean `proj (Split.runTrace)` {got}"
        if not m["spec_agree"][i]:
            return f"{what}: branch {i}: Lean `closedForm` / `branchTrace` differ from `proj (Split.runTrace)` = {got}"
        if m["pout"][i] != [ev[1] for ev in mine if ev[0] == "out"]:
            return f"{what}: values yielded for branch {i}: impl {[ev[1] for ev in mine if ev[0] == 'out']} vs Lean `outputsOf` {m['pout'][i]}"
        recv = [x for ev in mine for x in ([ev[1]] if ev[0] == "fill" else ev[1] if ev[0] == "run" else [])]
        mrecv = [(_pre(x) if _has_pre(sp) else x) for x in m["precv"][i]]
        if mrecv != recv:
            return f"{what}: values given to branch {i}: impl {recv} vs Lean `received` {mrecv}"
        if m.get("pempty") is not None and _seen_by_element(sp, m["pempty"][i]) != mine:
            return f"{what}: empty flow, branch {i}: impl {mine} vs Lean `invocationOf :: outs resultOf` {m['pempty'][i]}"
        if m.get("block_agree") is False:
            return f"{what}: Lean `blockForm`/`finalForm` differ from `contribution`/`finalContribution`"
        for j, ev in enumerate(mine):
            if ev[0] == "fill" and ev[2] and (j + 1 >= len(mine) or mine[j + 1] != m["finaliser"][i]):
                return f"{what}: branch {i}: after the stopping fill comes {mine[j + 1:j + 2]}, Lean `finaliser` is {m['finaliser'][i]}"
    if "pblocks" in m and flow is not None and specs and not any(sp["k"] == "nest" for sp in specs):
        # Lean `blockForm b bl k` / `finalForm b bl` against the reference schedule cut at the block boundaries
        ref_blocks, ref_final = _ref_by_block(specs, bufsize, flow)
        for i, sp in enumerate(specs):
            if not _attributable(sp):
                continue
            got = [_seen_by_element(sp, evs) for evs in m["pblocks"][i]]
            if got != ref_blocks[i]:
                return f"{what}: branch {i} block by block: Lean `blockForm` {got} vs the reference schedule {ref_blocks[i]}"
            if _seen_by_element(sp, m["pfinal"][i]) != ref_final[i]:
                return f"{what}: branch {i} after the last block: Lean `finalForm` {m['pfinal'][i]} vs the reference {ref_final[i]}"
    return None


def _ref_by_block(specs, bufsize, flow):
    """the reference schedule on fresh elements, cut at the block boundaries: per branch the list of what happens
    to it in block 0, 1, …, and in the final pass"""
    log = []
    els = [_mk_el(sp, i, log) for i, sp in enumerate(specs)]
    _ref_schedule(specs, els, bufsize, flow, [], log)
    per_block, cur = [], None
    for t, ev in log:
        if t is None and ev[0] in ("block", "final"):
            cur = [[] for _ in specs]
            per_block.append(cur)
        elif t is not None and cur is not None:
            cur[t].append(ev)
    blocks, final = per_block[:-1], per_block[-1]
    return canon([[blk[i] for blk in blocks] for i in range(len(specs))]), canon(final)


def _attributable(sp):
    """the values yielded for this branch can be recognised by their tags, and its calls are logged"""
    if _is_lam(sp) or sp["k"] == "sum":
        return False
    if sp["k"] == "nest":
        return all(isp["k"] != "sum" for isp in sp["inner"])
    return True


def _seen_by_element(sp, inv):
    """the model records what Split passes to the branch; the instrumented element of a tuple with a
    preprocessing callable logs what reaches it"""
    if not _has_pre(sp):
        return inv
    res = []
    for ev in inv:
        if ev[0] == "fill":
            res.append(["fill", _pre(ev[1]), ev[2]])
        elif ev[0] == "run":
            res.append(["run", [_pre(x) for x in ev[1]]])
        else:
            res.append(ev)
    return res


def _strip_lam_states(specs, states):
    """a lambda has no state to read: take the model's state of a lambda branch out of the comparison"""
    res = []
    for sp, st in zip(specs, states):
        if _is_lam(sp):
            res.append(None)
        elif sp["k"] == "nest":
            res.append({"inner": _strip_lam_states(sp["inner"], st["inner"])})
        else:
            res.append(st)
    return res


def _cmp_runx(case, res, m):
    specs = case["brs"]
    if "init" in res or "init" in m:
        a, b = res.get("init", {}).get("e"), m.get("init", {}).get("e")
        return None if a == b else f"construction: impl {res.get('init')} vs model {m.get('init')}"
    if len(res["runs"]) != len(m["runs"]):
        return f"impl made {len(res['runs'])} runs ({[r['term'] for r in res['runs']]}), model {len(m['runs'])} ({[r['term'] for r in m['runs']]})"
    for k, (r, mr) in enumerate(zip(res["runs"], m["runs"])):
        what = f"run {k} on {case['flows'][k]}"
        if r["out"] != mr["out"]:
            return f"{what}: impl yields {r['out']} vs model {mr['out']}"
        mt = mr["term"]
        it = r["term"]
        if mt == "islice":
            if not (isinstance(it, list) and it[2] == "Other:ValueError" and it[1] is None):
                return f"{what}: model: islice rejects the bufsize (ValueError before any call); impl ended with {it}"
        elif isinstance(mt, list):
            want = _xname(mt[2])
            if not (isinstance(it, list) and it[1] == mt[1] and it[2] == want):
                return f"{what}: impl ended with {it} vs model {mt}"
        elif it != mt:
            return f"{what}: impl ended with {it} vs model {mt}"
        for i, sp in enumerate(specs):
            if _is_lam(sp):
                continue
            minv = _seen_by_element(sp, mr["inv"][i])
            if r["inv"][i] != minv:
                return f"{what}: branch {i} was invoked {r['inv'][i]} vs model {minv}"
        ms = _strip_lam_states(specs, mr["states"])
        if r["states"] != ms:
            return f"{what}: objects afterwards: impl {r['states']} vs model {ms}"
    if m.get("forget_out") is not None and res["runs"] and res["runs"][0]["term"] != ["raised", None, "Other:ValueError"]:
        # Lean `SplitX.forget`: the same branches with their exceptions forgotten yield a continuation of what
        # the real run yielded before the exception (the whole of it when the run ended normally)
        r0, fo = res["runs"][0], m["forget_out"]
        if fo[:len(r0["out"])] != r0["out"] or (r0["term"] == "done" and fo != r0["out"]):
            return f"first run: impl yields {r0['out']} ({r0['term']}); Lean `SplitX.forget` schedule {fo}"
    if m.get("spec_states") is not None and res["runs"] and res["runs"][0]["term"] == "done":
        ms = _strip_lam_states(specs, m["spec_states"])
        if res["runs"][0]["states"] != ms:
            return f"objects after the first run: impl {res['runs'][0]['states']} vs Lean `objAfter` {ms}"
    if m.get("obj_runs") is not None:
        outs = [r["out"] for r in res["runs"]]
        if outs != m["obj_runs"][:len(outs)]:
            return f"impl yields {outs} vs model Split.runObj {m['obj_runs']}"
    return None


def _cmp_copied(case, res, replies):
    import json
    if "e" in res:
        return None  # the oracle reports it
    for key, m in zip(("dup", "orig"), replies):
        if "err" in m:
            return f"model driver error: {m['err']}"
        if "z" in m:
            m = json.loads(m["z"])
        who = "copy" if key == "dup" else "original"
        if case["drive"] == "run":
            mr = m["runs"][0]
            if res[key].get("out") != mr["out"] or "e" in res[key]:
                return f"{who}: impl {res[key]} vs model {mr['out']}"
            continue
        if key not in res:
            return None  # methods not offered: the oracle reports it
        mm = m["fc"] if _copied_kind(case) == "fill_compute" else m["fr"]
        if mm is None:
            return f"model offers no common-type methods: {m['methods']}"
        got = {"stopped": mm["stopped"], "outs": [mm["out"]] if "out" in mm else mm["outs"]}
        if res[key] != got:
            return f"{who}: impl {res[key]} vs model (a Split with the same history) {got}"
    return None


def compare(case, res, replies):
    import json
    op = case["op"]
    res = _unp(res)
    if op == "copied":
        return _cmp_copied(case, res, replies)
    m = replies[0]
    if "err" in m:
        return f"model driver error: {m['err']}"
    if "z" in m:
        m = json.loads(m["z"])
    if op == "run":
        for bs, r, mr in zip(case["bufsizes"], res["runs"], m["runs"]):
            msg = _cmp_run(case["brs"], r, mr, f"bufsize={bs}", case["flow"], bs)
            if msg:
                return msg
        return None
    if op == "runx":
        return _cmp_runx(case, res, m)
    if op == "exc":
        if res != m:
            return f"class {case['name']}: lena/builtins give {res}, Lean `ExcClass` / `catchStopFill` give {m}"
        return None
    if op == "inter":
        if "e" in res:
            return f"impl raised {res}; model {jdump(m)[:300]}"
        if res["ends"] != ["done"] * len(case["flows"]):
            return f"impl: the runs ended {res['ends']}; in the model every run ends normally"
        if res["outs"] != m["outs"]:
            return f"impl yields {res['outs']} vs Lean `interleave` (generator machines on shared objects) {m['outs']}"
        if m["alone"] != m["outs"]:
            return f"Lean: `interleave` {m['outs']} differs from `Split.run` of every flow alone {m['alone']}"
        if case["brs"] and (m["gen"] != m["alone"] or m["micro"] != m["alone"]):
            return (f"Lean: `genIter` alone {m['gen']} / `runSched` {m['micro']} differ from `Split.run` of every "
                    f"flow {m['alone']}")
        return None
    if op == "zipctx":
        if "init" in res or "init" in m:
            a, b = res.get("init", {}).get("e"), m.get("init", {}).get("e")
            return None if a == b else f"construction: impl {res.get('init')} vs model {m.get('init')}"
        got = [{k: v for k, v in it.items() if k not in ("is_namedtuple", "recovered")} for it in res["r"]]
        mr = [{k: v for k, v in it.items() if k != "recovered"} for it in m["r"]]
        if got != mr:
            return f"impl yields {got} vs model {mr}"
        for it, mit in zip(res["r"], m["r"]):
            if it.get("recovered") is not None and it["recovered"] != mit["recovered"]:
                return (f"contexts recovered with lena.context.update_recursively {it['recovered']} vs Lean "
                        f"`ZVal.recover` {mit['recovered']}")
        if (res["raised"] == "Other:TypeError") != m["raised"] or res["raised"] not in (None, "Other:TypeError"):
            return f"impl ended with {res['raised']} vs model raised={m['raised']}"
        return None
    if op == "methods":
        if "e" in res:
            return f"impl raised {res}; model {jdump(m)[:300]}"
        if res["methods"] != m["methods"]:
            return f"methods: impl {res['methods']} vs model {m['methods']}"
        for k in ("call", "fc", "fr"):
            if res[k] != m[k]:
                return f"{k}: impl {res[k]} vs model {m[k]}"
        if "accepts" in m and res.get("accepts") is not None:
            if m["accepts"] != res["accepts"]:
                return f"Lean `Accepts` {m['accepts']} vs the elements filled alone {res['accepts']}"
            for a, ms, rs in zip(res["accepts"], m["filled"], res["filled"]):
                if a and rs is not None and ms != rs:
                    return f"Lean `filled` {ms} vs the element filled alone {rs}"
        return None
    if op == "zip":
        if "e" in res or "e" in m:
            if res.get("e") != m.get("e"):
                return f"impl {res} vs model {m}"
            return None
        if res["stopped"] != m["stopped"] or res["r"] != m["r"]:
            return f"impl {res} vs model {m}"
        if not case.get("ctx") and res.get("r2") != m.get("r2"):
            return f"second compute()/request() of the same Zip: impl {res.get('r2')} vs model {m.get('r2')}"
        # Lean `colAt i` (specification side of zip_ith) against Python's columns of the result lists
        ref_cols = res.get("cols")
        if ref_cols is not None and m.get("cols") != ref_cols:
            return f"Lean `colAt` gives {m.get('cols')}, the columns of the result lists are {ref_cols}"
        return None
    if op == "init":
        for k in ("is_fc_seq", "is_fr_seq"):
            if res[k] != m[k]:
                return f"check_sequence_type.{k.replace('is_fc', 'is_fill_compute').replace('is_fr', 'is_fill_request')}: impl {res[k]} vs model {m[k]}"
        for k in ("split", "zip"):
            a, b = res[k], m[k]
            if "e" in a or "e" in b:
                if a.get("e") != b.get("e"):
                    return f"{k}: impl {a} vs model {b}"
                continue
            if k == "split":
                if a["kinds"] is not None and a["kinds"] != b["kinds"]:
                    return f"split kinds: impl {a['kinds']} vs model {b['kinds']}"
                if a["methods"] != b["methods"]:
                    return f"split methods: impl {a['methods']} vs model {b['methods']}"
                fb = a.get("first_block")
                if fb is not None and b["kinds"] and "bufsize" in b:
                    # an empty Split hands the values on one by one: no blocks to observe
                    exp = fb["n"] if b["bufsize"] is None else min(b["bufsize"], fb["n"])
                    if fb["pulled"] != exp:
                        return (f"block size of the constructed Split (Cache rule): run takes {fb['pulled']} of "
                                f"{fb['n']} values before the first branch is touched, the model's block size "
                                f"{b['bufsize']} means {exp}")
            elif a != b:
                return f"zip: impl {a} vs model {b}"
        return None
    raise ValueError(op)


# ----------------------------------------------------------------------------------------
# the oracle: the property statement on the real code's result

def _tag_of(v):
    if isinstance(v, list) and len(v) == 2 and v[0] == "post":
        return _tag_of(v[1])
    return v[0] if isinstance(v, list) and v and isinstance(v[0], int) and not isinstance(v[0], bool) else None


def _oracle_run(case, res):
    specs, flow = case["brs"], case["flow"]
    per_tag = {}
    for j, (bs, r) in enumerate(zip(case["bufsizes"], res["runs"])):
        fkind = FLOW_KINDS[(case.get("fk", 1) + j) % len(FLOW_KINDS)]
        what = f"Split({[_show(s) for s in specs]}, bufsize={bs}, copy_buf={case['copy_buf']}).run({flow} given as {fkind})"
        if "e" in r:
            return f"[raised] {what} raised {r['e']} ({r['phase']})"
        try:
            exp_out, exp_inv = ref_run(specs, bs, flow)
        except Exception as e:
            if any(sp["k"] == "nest" for sp in specs):
                # the reference drives the real nested Split as an element
                return f"[nested-raised] {what}: the nested Split, used as an element by the reference schedule, raised {exc_name(e)}: {e}"
            raise
        exp_out, exp_inv = canon(exp_out), canon(exp_inv)
        if r["out"] != exp_out:
            return f"[schedule] {what} yields {r['out']} but the documented schedule gives {exp_out}"
        for i, sp in enumerate(specs):
            if _is_lam(sp):
                continue
            if r["inv"][i] != exp_inv[i]:
                return (f"[invocations] {what}: branch {i} ({_show(sp)}) received the calls {r['inv'][i]} but the documented "
                        f"schedule invokes it as {exp_inv[i]}")
        # consequences stated by the property, on the real run itself
        if not flow:
            for i, sp in enumerate(specs):
                if not _is_lam(sp) and len(r["inv"][i]) != 1:
                    return f"[empty-flow-once] {what}: on an empty flow branch {i} must be invoked exactly once, got {r['inv'][i]}"
        for i, sp in enumerate(specs):
            inv = r["inv"][i]
            for j, ev in enumerate(inv):
                if ev[0] == "fill" and ev[2]:
                    rest = inv[j + 1:]
                    fin = "compute" if _kind(sp) == "fill_compute" else "request"
                    if rest != [[fin]]:
                        return (f"[stopfill-dropped] {what}: branch {i} signalled LenaStopFill on {ev[1]} and must then be finalised once "
                                f"([{fin}]) and dropped, but afterwards it received {rest}")
        # a common-type Split used as a branch yields there what it yields when run alone (same bufsize), as long
        # as none of its branches signals LenaStopFill: "offers that type's methods with the same meaning"
        for i, sp in enumerate(specs):
            if sp["k"] != "nest" or any(isp["k"] == "sum" for isp in sp["inner"]):
                continue
            if any(ev[0] == "fill" and ev[2] for ev in r["inv"][i]):
                continue
            base = 100 * (i + 1)
            mine = [v for v in r["out"] if _tag_of(v) is not None and base <= _tag_of(v) < base + 100]
            try:
                alone = _run_alone(sp, i, flow, _eff_bufsize(specs, bs))
            except Exception as e:
                return f"[nested-raised] {what}: the Split nested as branch {i}, run alone with bufsize={bs}, raised {exc_name(e)}: {e}"
            if mine != alone:
                return (f"[nested-same-meaning] {what}: the nested Split (branch {i}) yields {mine} there, but run alone "
                        f"with bufsize={_eff_bufsize(specs, bs)} on the same flow it yields {alone}")
        for i, sp in enumerate(specs):
            if sp["k"] in ("sum", "nest"):
                continue
            if sp["k"] == "fc" or (sp["k"] == "sq" and sp["v"] in PER_VALUE_SQ):
                mine = [v for v in r["out"] if _tag_of(v) == i]
                if i in per_tag and per_tag[i][1] != mine:
                    return (f"[bufsize-dependence] results of branch {i} ({_show(sp)}) depend on bufsize: {per_tag[i][1]} with "
                            f"bufsize={per_tag[i][0]}, {mine} with bufsize={bs} (flow {flow})")
                per_tag.setdefault(i, (bs, mine))
    if not specs:
        for bs, r in zip(case["bufsizes"], res["runs"]):
            if r.get("out") != list(flow):
                return f"[empty-split-identity] an empty Split must be the identity: bufsize={bs} gives {r.get('out')} for {flow}"
    return None


def _oracle_runx(case, res):
    """the documented schedule, on the same kind of (possibly raising) fresh objects, run after run: what was
    yielded before an exception of a branch is the schedule up to there, the exception propagates, and the
    objects are left as the schedule leaves them"""
    specs = case["brs"]
    ba = case["bufarg"]
    what = f"Split({[_show(s) for s in specs]}, bufsize={_py_bufarg(ba)!r}, copy_buf={case['copy_buf']})"
    if ba is not None and ("float_int" in ba or "bool" in ba):
        return None  # a bufsize that is not an int: not in the property's quantifier (model / correspondence only)
    bad = ba is not None and ("float_frac" in ba or ba.get("int", 1) < 1)
    if "init" in res:
        e = res["init"]["e"]
        if bad and e in ("LenaValueError", "LenaTypeError"):
            return None
        return f"[raised] {what} raised {e} at construction"
    if bad:
        return f"[init-bufsize] {what} must be rejected at construction"
    bufsize = None if ba is None else ba["int"]
    log = []
    try:
        els = [_mk_el(sp, i, log) for i, sp in enumerate(specs)]
    except Exception as e:
        return f"[nested-raised] {what}: building a nested Split raised {exc_name(e)}: {e}"

    def runner(flow, out):
        _ref_schedule(specs, els, bufsize, flow, out)
    exp = _runx_on(None, specs, els, log, case["flows"], runner)
    if len(exp) != len(res["runs"]):
        return (f"[exception-schedule] {what}: {len(res['runs'])} runs were made ending {[r['term'] for r in res['runs']]}, "
                f"the schedule makes {len(exp)} ending {[r['term'] for r in exp]}")
    for k, (r, e) in enumerate(zip(res["runs"], exp)):
        w = f"{what}, run {k} on {case['flows'][k]}"
        if r["term"] != e["term"]:
            return f"[exception-schedule] {w} ended with {r['term']}, the documented schedule on the same objects with {e['term']}"
        if r["out"] != e["out"]:
            cat = "schedule" if r["term"] == "done" else "exception-schedule"
            return f"[{cat}] {w} yields {r['out']} (ending {r['term']}) but the documented schedule gives {e['out']}"
        for i, sp in enumerate(specs):
            if not _is_lam(sp) and r["inv"][i] != e["inv"][i]:
                return f"[invocations] {w}: branch {i} ({_show(sp)}) received {r['inv'][i]}, the schedule invokes it as {e['inv'][i]}"
        if r["states"] != e["states"]:
            return f"[objects-after-run] {w}: the branch objects are left as {r['states']}, the schedule leaves {e['states']}"
    return None


def _run_alone(sp, tag, flow, bufsize):
    """the real Split of the inner branches of a nested-Split spec, run alone on the flow"""
    import lena.core as lc
    log = []
    base = 100 * (tag + 1)
    inner = [_wrap(isp, _mk_el(isp, base + j, log)) for j, isp in enumerate(sp["inner"])]
    out = []
    _drain(lc.Split(inner, bufsize=bufsize).run(_ReList(flow)), out)
    return canon(out)


def _ref_fill_all(els, flow):
    """`fill` of a common-type Split / Zip: every branch in order; LenaStopFill leaves at once"""
    import lena.core
    for x in flow:
        for el in els:
            try:
                el.fill(x)
            except lena.core.LenaStopFill:
                return True
    return False


def _oracle_methods(case, res):
    specs, blocks = case["brs"], case["blocks"]
    flow = [x for b in blocks for x in b]
    what = f"Split({[_show(s) for s in specs]})"
    if "e" in res:
        return f"[methods-raised] {what}: {res}"
    kinds = [KIND[sp["k"]] for sp in specs]
    common = kinds[0] if kinds and len(set(kinds)) == 1 else None
    m = res["methods"]
    want = {"fill": common in ("fill_compute", "fill_request"), "compute": common == "fill_compute",
            "request": common == "fill_request", "callable": common == "source", "empty_run": not specs}
    if m != want:
        return f"[methods-offered] {what} with branch types {kinds} offers {m}, expected {want}"
    log = []
    if common == "source":
        exp = canon([v for i, sp in enumerate(specs) for v in _mk_el(sp, i, log)()])
        if res["call"] != exp:
            return f"[call] {what}() yields {res['call']}, the Sources one after another yield {exp}"
        if "out" in res["run"] and res["run"]["out"] != exp:
            return f"[call-vs-run] {what}.run({flow}) yields {res['run']['out']} but {what}() yields {exp}"
    if common == "fill_compute":
        els = [_mk_el(sp, i, log) for i, sp in enumerate(specs)]
        stopped = _ref_fill_all(els, flow)
        exp = canon([v for el in els for v in el.compute()])
        if res["fc"] != {"stopped": stopped, "out": exp}:
            return f"[fill-compute] {what}: fill({flow}) then compute() gives {res['fc']}, the branches give stopped={stopped} {exp}"
        if not stopped and "out" in res["run"] and res["run"]["out"] != exp:
            return f"[fill-compute-vs-run] {what}: fill/compute gives {exp} but run({flow}) gives {res['run']['out']}"
    if common == "fill_request":
        els = [_mk_el(sp, i, log) for i, sp in enumerate(specs)]
        outs, stopped = [], False
        for blk in blocks:
            stopped = _ref_fill_all(els, blk)
            outs.append(canon([v for el in els for v in el.request()]))
            if stopped:
                break
        if res["fr"] != {"stopped": stopped, "outs": outs}:
            return f"[fill-request] {what}: fill/request over blocks {blocks} gives {res['fr']}, the branches give stopped={stopped} {outs}"
    return None


def _oracle_zip(case, res):
    specs, flow = case["brs"], case["flow"]
    what = f"Zip({[_show(s) for s in specs]})"
    kinds = [KIND[sp["k"]] for sp in specs]
    common = kinds[0] if kinds and len(set(kinds)) == 1 else None
    if common not in ("fill_compute", "fill_request"):
        if "e" not in res or res.get("phase") != "init":
            return f"[zip-init] {what} with branch types {kinds} must be rejected at construction, got {res}"
        return None
    if "e" in res:
        return f"[zip-raised] {what}: {res}"
    log = []
    els = [_mk_el(sp, i, log) for i, sp in enumerate(specs)]
    stopped = _ref_fill_all(els, flow)
    if _zip_booms(case):
        # the tuples of the i-th results, up to the shortest — or up to the first exception of a result generator,
        # which is not the end of that sequence's results: it propagates
        its = [(el.compute() if common == "fill_compute" else el.request()) for el in els]
        exp, raised = [], None
        try:
            while True:
                vals = []
                for it in its:
                    vals.append(next(it))
                exp.append(vals)
        except StopIteration:
            pass
        except (Exception, KeyboardInterrupt) as e:
            raised = exc_name(e)
        exp = canon(exp)
        # how many of the tuples are handed out before the exception is laziness (C02), not claimed here
        ok_r = res["r"] == exp if raised is None else res["r"] == exp[:len(res["r"])]
        if res["stopped"] != stopped or not ok_r or res["raised"] != raised:
            return (f"[zip-exception] {what} filled with {flow} yields {res['r']} and ends with {res['raised']}; the tuples of "
                    f"the i-th results are {exp}, ending with {raised} (an exception of a result generator propagates)")
        return None
    results = [list(el.compute() if common == "fill_compute" else el.request()) for el in els]
    exp = canon([list(t) for t in zip(*results)])
    results2 = [list(el.compute() if common == "fill_compute" else el.request()) for el in els]
    exp2 = canon([list(t) for t in zip(*results2)])
    if case.get("ctx"):
        # results with context: the data part of the i-th value is the tuple of the data parts
        got = res["r"]
        if res["stopped"] != stopped or len(got) != len(exp) or any(
                not (isinstance(g, list) and len(g) == 2 and isinstance(g[1], dict) and g[0] == e)
                for g, e in zip(got, exp)):
            return (f"[zip-ith] {what} (results with context) filled with {flow} yields {got}; the data parts must "
                    f"be the tuples of the i-th data {exp} (stopped={stopped})")
        return None
    if "r2" in res and res["r2"] != exp2:
        return f"[zip-again] {what}: a second compute()/request() yields {res['r2']}; the tuples of the i-th results of a second call are {exp2}"
    if res["stopped"] != stopped or res["r"] != exp:
        return f"[zip-ith] {what} filled with {flow} yields {res['r']} (stopped={res['stopped']}); the tuples of the i-th results are {exp} (stopped={stopped})"
    return None


def _dec_ctx(e):
    if not isinstance(e, list):
        return e
    return {k: _dec_ctx(v) for k, v in zip(ZKEYS, e) if v is not None}


def _upd_rec(d, o):
    """reference update_recursively on plain dicts"""
    d = dict(d)
    for k, v in o.items():
        if isinstance(v, dict) and isinstance(d.get(k), dict):
            d[k] = _upd_rec(d[k], v)
        else:
            d[k] = v
    return d


def _oracle_zipctx(case, res):
    """'yields the tuples of their i-th results', for results with context: the data is the tuple of the i-th data
    (a namedtuple when fields were given), up to the shortest, and every i-th context is recoverable from the
    yielded context (common part updated with its entry of context.zip)"""
    results, f = case["results"], case["fields"]
    what = f"Zip over results {results} (fields={_fields_py(f)!r})"
    nseq = len(results)
    nf = 0 if f is None else f.get("list", f.get("str"))
    if "init" in res:
        if f is not None and "list" in f and nf not in (0, nseq) and res["init"]["e"] == "LenaTypeError":
            return None
        return f"[zip-raised] {what} raised {res['init']['e']} at construction"
    if f is not None and "list" in f and nf not in (0, nseq):
        return f"[zip-init] {what}: fields of another length than the sequences must be rejected (LenaTypeError)"
    if nf not in (0, nseq):
        return None  # a string of fields of another length: undefined by the documentation (model only)
    n = min(len(r) for r in results)
    got = res["r"]
    if res["raised"] is not None:
        # TypeError is the code's answer to contexts that already contain "zip" in their common part
        common_has_zip = any(all("zip" in r[i]["c"] for r in results) for i in range(n))
        if res["raised"] == "Other:TypeError" and common_has_zip:
            return None
        return f"[zip-raised] {what} raised {res['raised']} after {len(got)} values"
    if len(got) != n:
        return f"[zip-ith] {what} yields {len(got)} values, the shortest sequence has {n} results"
    for i, g in enumerate(got):
        if g["data"] != [r[i]["d"] for r in results]:
            return f"[zip-ith] {what}: value {i} has data {g['data']}, the tuple of the i-th data is {[r[i]['d'] for r in results]}"
        if bool(nf) != g["is_namedtuple"]:
            return f"[zip-fields] {what}: value {i} is{'' if g['is_namedtuple'] else ' not'} a namedtuple"
        common = _dec_ctx(g["common"])
        for jx, r in enumerate(results):
            rec = common if g["zip"] is None else _upd_rec(common, _dec_ctx(g["zip"][jx]))
            if rec != r[i]["c"]:
                return (f"[zip-context] {what}: value {i} has context common={common}, zip={g['zip'] and [_dec_ctx(x) for x in g['zip']]}; "
                        f"the context of sequence {jx} recovered from it is {rec}, it was {r[i]['c']}")
    if "resets" in res and res["resets"] != [1] * nseq:
        return f"[zip-reset] {what}: reset() must reset every sequence once, got {res['resets']}"
    return None


def _doc_kind(o):
    t = o["t"]
    if t in ("source", "fcseq", "frseq", "seq"):
        return {"source": "source", "fcseq": "fill_compute", "frseq": "fill_request", "seq": "sequence"}[t]
    if t == "list":
        return None
    if t == "el":
        c = o["caps"]
        # "Object contains executable methods" (check_sequence_type docstrings): an attribute that is not callable
        # does not count
        c = "".join(ch for ch in c if ch.islower())
        if "f" in c and "c" in c and "q" in c:
            return None  # both compute and request: which one wins is the code's choice (model), not the property's
        if "f" in c and "c" in c:
            return "fill_compute"
        if "f" in c and "q" in c:
            return "fill_request"
        if "r" in c or "k" in c:
            return "sequence"
        return "error"
    return None  # tuples: decided by the conversion rules (model)


def _oracle_init(case, res):
    sp = res["split"]
    what = f"Split({case['objs']}, bufsize={case['bufsize']})"
    if not case["is_list"]:
        if sp.get("e") != "LenaTypeError":
            return f"[init-not-list] {what} with seqs not a list must raise LenaTypeError, got {sp}"
        return None
    docs = [_doc_kind(o) for o in case["objs"]]
    if None in docs:
        if "e" not in sp and sp.get("kinds") is not None:
            for d, k in zip(docs, sp["kinds"]):
                if d is not None and d != k:
                    return f"[init-kind] {what}: argument classified {k}, expected {d}"
        return None
    bad_bufsize = case["bufsize"] is not None and case["bufsize"] < 1
    if "error" in docs:
        if sp.get("e") != "LenaTypeError":
            return f"[init-unknown-type] {what} has an argument of unknown type and must raise LenaTypeError, got {sp}"
        return None
    if bad_bufsize:
        if sp.get("e") != "LenaValueError":
            return f"[init-bufsize] {what} must raise LenaValueError, got {sp}"
        return None
    if "e" in sp:
        return f"[init-raised] {what} raised {sp}"
    if sp["kinds"] is not None and sp["kinds"] != docs:
        return f"[init-kind] {what} classifies its arguments as {sp['kinds']}, expected {docs}"
    common = docs[0] if docs and len(set(docs)) == 1 else None
    want = {"fill": common in ("fill_compute", "fill_request"), "compute": common == "fill_compute",
            "request": common == "fill_request", "callable": common == "source", "empty_run": not docs}
    if sp["methods"] != want:
        return f"[init-methods] {what} with types {docs} offers {sp['methods']}, expected {want}"
    return None


def oracle(case, res):
    res = _unp(res)
    op = case["op"]
    if op == "run":
        return _oracle_run(case, res)
    if op == "methods":
        return _oracle_methods(case, res)
    if op == "copied":
        return _oracle_copied(case, res)
    if op == "runx":
        return _oracle_runx(case, res)
    if op == "zipctx":
        return _oracle_zipctx(case, res)
    if op == "realfc":
        return _oracle_realfc(case, res)
    if op == "inter":
        return _oracle_inter(case, res)
    if op == "exc":
        # the property names LenaStopFill as the signal: the class itself must be one (the rest of the hierarchy is
        # compared with its Lean transcription)
        if case["name"] == "LenaStopFill" and not res["stop"]:
            return "[stop-signal-class] lena.core.LenaStopFill is not caught by `except LenaStopFill`"
        return None
    if op == "zip":
        return _oracle_zip(case, res)
    if op == "init":
        return _oracle_init(case, res)
    raise ValueError(op)


# ----------------------------------------------------------------------------------------

def _show(sp):
    k = sp["k"]
    f = sp.get("form", "el")
    if k == "src":
        return f"src{sp['n']}"
    boom = "".join(f",{b}={sp[b]}" for b in ("boom_fill", "boom_fill_exc", "boom_gen", "boom_exc") if sp.get(b) is not None)
    if k == "fc":
        return f"fc(stop={sp['stop']}{',late' if sp['late'] else ''}{',items' if sp['items'] else ''}{boom})/{f}"
    if k == "fr":
        return f"fr(stop={sp['stop']}{',late' if sp['late'] else ''}{boom})/{f}"
    if k == "sq":
        return f"sq({sp['v']}{boom})/{f}"
    if k == "nest":
        return "Split[" + ", ".join(_show(i) for i in sp["inner"]) + f"; bufsize={sp.get('bufsize', 1000)}]"
    return f"Sum/{f}"


def nontrivial(case, res):
    res = _unp(res)
    op = case["op"]
    if op == "run":
        return len(case["brs"]) >= 2 and any(r.get("out") for r in res["runs"])
    if op == "runx":
        return "init" in res or any(r["out"] or r["term"] != "done" for r in res["runs"])
    if op == "zipctx":
        return "init" in res or bool(res["r"]) or res["raised"] is not None
    if op == "realfc":
        return len(case["brs"]) >= 2 and bool(case["flow"])
    if op == "inter":
        return "outs" in res and sum(1 for o in res["outs"] if o) >= 2 and len(set(case["sched"])) >= 2
    if op == "methods":
        return bool(res.get("fc") or res.get("fr") or (isinstance(res.get("call"), list) and res["call"]))
    if op == "zip":
        return "e" in res or bool(res.get("r"))
    if op == "copied":
        return bool(case["brs"]) and bool(case["rest"] or case["other"])
    return True


def classify(case, res):
    res = _unp(res)
    op = case["op"]
    if op == "copied":
        if "e" in res:
            return ["copied:error"]
        labels = [f"copied:{case['drive']}", f"copied:via={case['via']}", f"copied:copy_buf={case['copy_buf']}"]
        if case["drive"] == "methods":
            labels.append("copied:" + (_copied_kind(case) or "mixed"))
            labels.append("copied:partly-filled" if case["pre"] else "copied:fresh")
            if res.get("dup", {}).get("stopped"):
                labels.append("copied:stopfill")
        return labels
    if op == "run":
        ks = sorted(set(sp["k"] for sp in case["brs"]))
        labels = [f"run:len={len(case['brs'])}", f"run:flow={min(len(case['flow']), 5)}", "run:kinds=" + "+".join(ks)]
        stops = sum(1 for r in res["runs"] for inv in r.get("inv", []) for ev in inv if ev[0] == "fill" and ev[2])
        labels.append("run:stopfill" if stops else "run:nostop")
        if not case["flow"]:
            labels.append("run:empty-flow")
        if any(sp["k"] == "nest" for sp in case["brs"]):
            labels.append("run:nested-split")
        if len(case["flow"]) > 1000:
            labels.append("run:flow>1000")
        forms = set(sp.get("form", "el") for sp in case["brs"])
        labels += [f"form:{f}" for f in sorted(forms)]
        return labels
    if op == "realfc":
        mut = any(isinstance(v, dict) or (isinstance(v, list) and not isinstance(v[0], int)) for v in case["flow"])
        return ["realfc:" + case["kind"], "realfc:copy_buf=%s" % case["copy_buf"],
                "realfc:" + ("raises" if "e" in res["run"] else "ok"),
                "realfc:" + ("mutable-data" if mut else "int-data")]
    if op == "inter":
        return ["inter:runs=%d" % len(case["flows"]), "inter:" + ("ok" if "outs" in res else "raised")]
    if op == "zipctx":
        if "init" in res:
            return ["zipctx:init-" + res["init"]["e"]]
        return ["zipctx:" + ("raised" if res["raised"] else "ok"),
                "zipctx:fields=" + ("none" if case["fields"] is None else list(case["fields"])[0]),
                "zipctx:zip-key-set" if any(g["zip"] is not None for g in res["r"]) else "zipctx:no-zip-key"]
    if op == "runx":
        if "init" in res:
            return ["runx:init-" + res["init"]["e"]]
        labels = ["runx:runs=%d" % len(res["runs"])]
        t = res["runs"][-1]["term"]
        labels.append("runx:end=" + (t if isinstance(t, str) else t[2]))
        if any(sp["k"] == "nest" and _kind(sp) == "sequence" for sp in case["brs"]):
            labels.append("runx:nested-split-run-per-block")
        if any(sp["k"] == "sq" and sp.get("v") == "cache" for sp in case["brs"]):
            labels.append("runx:cache-like")
        if case["bufarg"] is not None and "int" not in case["bufarg"]:
            labels.append("runx:bufsize-not-int")
        for sp in case["brs"]:
            if sp.get("boom_fill") is not None:
                labels.append("runx:fill-raises:" + ("stop-signal-class" if _is_stop_class(sp.get("boom_fill_exc"))
                                                     else "lena-error" if (sp.get("boom_fill_exc") or "").startswith(("Lena", "SubLena"))
                                                     else "other"))
        return labels
    if op == "methods":
        if "e" in res:
            return ["methods:error"]
        return ["methods:" + ("fc" if res["fc"] else "fr" if res["fr"] else
                              "call" if isinstance(res["call"], list) else "none")]
    if op == "zip":
        if _zip_booms(case) and "e" not in res:
            return ["zip:result-generator-raises:" + str(res.get("raised"))]
        return ["zip:" + (res["e"] if "e" in res else "ok") + (":with-context" if case.get("ctx") else "")]
    if op == "init":
        return ["init:" + (res["split"].get("e") or "ok"), "zipinit:" + (res["zip"].get("e") or "ok")]
    return [op]


def signature(case, failure):
    """one report per kind of failure: the category the oracle message starts with (the shrunk case and the
    full message are in the replay file); a watchdog timeout has no category"""
    import re
    m = re.match(r"\[([\w-]+)\]", failure or "")
    return case["op"] + ":" + (m.group(1) if m else "other")


def shrink(case):
    op = case["op"]
    if op == "copied":
        brs = case["brs"]
        for i in range(len(brs)):
            if len(brs) > 1 or case["drive"] == "run":
                yield dict(case, brs=brs[:i] + brs[i + 1:])
        for k in ("pre", "rest", "other"):
            for i in range(len(case[k])):
                yield dict(case, **{k: case[k][:i] + case[k][i + 1:]})
        if case["via"] != "deepcopy":
            yield dict(case, via="deepcopy")
        if case["pre_request"]:
            yield dict(case, pre_request=False)
        for i, sp in enumerate(brs):
            if sp.get("form", "el") != "el" and sp["k"] != "src":
                yield dict(case, brs=brs[:i] + [dict(sp, form="el")] + brs[i + 1:])
            if sp.get("stop") is not None:
                yield dict(case, brs=brs[:i] + [dict(sp, stop=None)] + brs[i + 1:])
        return
    if op in ("run", "methods", "zip", "runx"):
        brs = case["brs"]
        for i in range(len(brs)):
            yield dict(case, brs=brs[:i] + brs[i + 1:])
    if op == "runx":
        fl = case["flows"]
        for k in range(len(fl)):
            if len(fl) > 1:
                yield dict(case, flows=fl[:k] + fl[k + 1:])
            for i in range(len(fl[k])):
                yield dict(case, flows=fl[:k] + [fl[k][:i] + fl[k][i + 1:]] + fl[k + 1:])
        if case["bufarg"] not in (None, {"int": 1}):
            yield dict(case, bufarg={"int": 1})
            yield dict(case, bufarg=None)
        brs = case["brs"]
        for i, sp in enumerate(brs):
            for b in ("boom_fill", "boom_gen"):
                if sp.get(b) is not None:
                    yield dict(case, brs=brs[:i] + [{k: v for k, v in sp.items() if k != b}] + brs[i + 1:])
                    if sp[b] > 0:
                        yield dict(case, brs=brs[:i] + [dict(sp, **{b: sp[b] - 1})] + brs[i + 1:])
    if op == "run":
        flow = case["flow"]
        if len(case["bufsizes"]) > 1:
            for bs in case["bufsizes"]:
                yield dict(case, bufsizes=[bs])
            for i in range(len(case["bufsizes"])):
                yield dict(case, bufsizes=case["bufsizes"][:i] + case["bufsizes"][i + 1:])
        size = len(flow) // 2
        while size >= 8:
            # long flows: whole chunks first
            for a in range(0, len(flow), size):
                yield dict(case, flow=flow[:a] + flow[a + size:])
            size //= 2
        if len(flow) <= 64:
            for i in range(len(flow)):
                yield dict(case, flow=flow[:i] + flow[i + 1:])
        else:
            for i in (0, len(flow) - 1):
                yield dict(case, flow=flow[:i] + flow[i + 1:])
    if op == "zip":
        flow = case["flow"]
        for i in range(len(flow)):
            yield dict(case, flow=flow[:i] + flow[i + 1:])
    if op == "methods":
        bl = case["blocks"]
        for i in range(len(bl)):
            yield dict(case, blocks=bl[:i] + bl[i + 1:])
            if len(bl[i]) > 1:
                yield dict(case, blocks=bl[:i] + [bl[i][1:]] + bl[i + 1:])
    if op in ("run", "runx"):
        brs = case["brs"]
        for i, sp in enumerate(brs):
            if sp["k"] == "nest":
                inner = sp["inner"]
                for j in range(len(inner)):
                    if len(inner) > 1:
                        yield dict(case, brs=brs[:i] + [dict(sp, inner=inner[:j] + inner[j + 1:])] + brs[i + 1:])
                    for k, v in (("form", "el"), ("late", False), ("items", False), ("stop", None)):
                        if k in inner[j] and inner[j][k] != v:
                            yield dict(case, brs=brs[:i] + [dict(sp, inner=inner[:j] + [dict(inner[j], **{k: v})]
                                                                + inner[j + 1:])] + brs[i + 1:])
    if op in ("run", "methods", "zip", "runx"):
        brs = case["brs"]
        for i, sp in enumerate(brs):
            for k, v in (("form", "el"), ("late", False), ("items", False), ("stop", None)):
                if k in sp and sp[k] != v and not (k == "form" and sp["k"] == "src"):
                    yield dict(case, brs=brs[:i] + [dict(sp, **{k: v})] + brs[i + 1:])
            if isinstance(sp.get("stop"), int) and sp["stop"] > 0:
                yield dict(case, brs=brs[:i] + [dict(sp, stop=sp["stop"] - 1)] + brs[i + 1:])
    if op == "inter":
        brs, fl, sc = case["brs"], case["flows"], case["sched"]
        for i in range(len(brs)):
            yield dict(case, brs=brs[:i] + brs[i + 1:])
        if len(fl) > 2:
            yield dict(case, flows=fl[:-1], sched=[k for k in sc if k < len(fl) - 1])
        for k in range(len(fl)):
            for i in range(len(fl[k])):
                yield dict(case, flows=fl[:k] + [fl[k][:i] + fl[k][i + 1:]] + fl[k + 1:])
        if len(sc) > 1:
            yield dict(case, sched=sc[:len(sc) // 2])
        for i in range(len(sc)):
            yield dict(case, sched=sc[:i] + sc[i + 1:])
        for i, sp in enumerate(brs):
            if sp.get("form", "el") != "el" and sp["k"] != "src":
                yield dict(case, brs=brs[:i] + [dict(sp, form="el")] + brs[i + 1:])
        if case["bufsize"] != 1:
            yield dict(case, bufsize=1)
    if op == "realfc":
        brs, flow = case["brs"], case["flow"]
        for i in range(len(brs)):
            if len(brs) > 1:
                yield dict(case, brs=brs[:i] + brs[i + 1:])
        for i in range(len(flow)):
            yield dict(case, flow=flow[:i] + flow[i + 1:])
        if case["bufsize"] is not None:
            yield dict(case, bufsize=None)
        for i, nm in enumerate(brs):
            for simpler in ("Sum", "Count"):
                if case["kind"] in ("fc", "mixed") and nm not in ("Sum", "Count"):
                    yield dict(case, brs=brs[:i] + [simpler] + brs[i + 1:])
    if op == "zipctx":
        rs = case["results"]
        for i in range(len(rs)):
            if len(rs) > 1:
                yield dict(case, results=rs[:i] + rs[i + 1:])
            for j in range(len(rs[i])):
                yield dict(case, results=rs[:i] + [rs[i][:j] + rs[i][j + 1:]] + rs[i + 1:])
                if rs[i][j]["c"]:
                    yield dict(case, results=rs[:i] + [rs[i][:j] + [dict(rs[i][j], c={})] + rs[i][j + 1:]] + rs[i + 1:])
        if case["fields"] is not None:
            yield dict(case, fields=None)
    if op == "init":
        objs = case["objs"]
        for i in range(len(objs)):
            if len(objs) > 1:
                yield dict(case, objs=objs[:i] + objs[i + 1:])
            o = objs[i]
            if o["t"] == "tuple":
                for j in range(len(o["els"])):
                    yield dict(case, objs=objs[:i] + [dict(o, els=o["els"][:j] + o["els"][j + 1:])] + objs[i + 1:])
            if o["t"] == "el":
                for ch in o["caps"]:
                    yield dict(case, objs=objs[:i] + [dict(o, caps=o["caps"].replace(ch, ""))] + objs[i + 1:])


TRUSTED = [
    "Lean 4.33.0 kernel; axioms limited to propext, Classical.choice, Quot.sound (audited by #print axioms on every run)",
    "hand transcription of lena/core/split.py (run, _fill, _compute, _request, __call__, __init__, _get_seq_with_type), "
    "lena/core/check_sequence_type.py and lena/flow/zip.py (__init__ incl. fields, _fill, _compute/_request, _yield, "
    "_create_data) into LenaModel/Model/C03.lean, C03X.lean (exceptions of branches, objects after the run, bufsize "
    "arguments), C03Exc.lean (class hierarchy of lena/core/exceptions.py, the `except LenaStopFill` clause), C03G.lean "
    "(Split.run as a generator machine on shared branch objects), C03Zip.lean (values with context; _create_context is Lena.C07.zipCreateContext), validated by this "
    "correspondence check; the specification-side definitions (Model/C03Spec.lean, blocks, schedule, life) are executed "
    "by the driver and compared with the real code / Python references as well",
    "the instrumented harness elements (harness/props/c03.py) and their Lean counterparts (BSpec.ops, XSpec.ops), "
    "validated against each other on every case",
    "JSON line protocol encoders (harness/props/c03.py, drivers/C03.lean)",
]
ASSUMPTIONS = [
    "JUDGEMENT (seed round L): 'a Split whose branches share one type offers that type's methods with the same "
    "meaning' is claimed for every Split OBJECT, also one made by copy.deepcopy from a fresh or partly filled Split "
    "(lena makes such copies itself: SplitIntoBins deep-copies its sequence once per bin): fill of the copy fills the "
    "copy's branches, compute()/request() of the copy yield their results, the original is not touched - for both "
    "copy_buf values (the harness elements of op copied never change a value, so copy_buf=False makes no difference "
    "to the values). The branches of a deep copy are taken to be objects of their own in the state the original's "
    "branches had (that is what copy.deepcopy means for the harness elements and lena.math.Sum). Not claimed: "
    "copy.copy (the shallow copy shares the branch objects) and pickle round trips (harness elements are not "
    "importable by name)",
    "a branch is an object whose methods are functions of its own state: two branches do not share an element "
    "object or other state (aliasing between branches: C04)",
    "copy_buf / copy.deepcopy are NOT verified in Lean: in the value model a copy is the same value, so the Lean "
    "theorems hold for both copy_buf values trivially (copy_buf_irrelevant is an AUX theorem) and Split._fill / "
    "Zip._fill are one function there (zipFill := splitFill) although Zip copies every value and Split spares the "
    "last branch; the identity analysis is C04's. The VALUE-level consequences of the copy policy are checked on "
    "the real code by the oracle-only op realfc (common-type, mixed-kind and nested Splits, Zip; elements that "
    "change / keep the objects they are given; claims only for copy_buf=True)",
    "the flow is a finite iterable handed over as a list, tuple, other re-iterable object, iterator or generator "
    "(all generated); `flow = iter(flow)` is transcribed as FlowArg.iter (same content), flows are lists in Lean",
    "generators returned by branch methods are consumed to the end by Split.run unless they raise (finite flows; "
    "laziness is C02); the harness elements compute their results when the method is called (state changes while "
    "a generator is being consumed are outside); an exception of a branch (from fill: any class of the lena "
    "hierarchy incl. LenaException itself and user-defined subclasses of LenaException / LenaStopFill, ValueError, "
    "RuntimeError, Exception, KeyboardInterrupt; from inside a generator: ValueError, Exception, LenaStopFill and a "
    "subclass, LenaValueError, LenaException, LenaRuntimeError, KeyboardInterrupt) is modelled for the branches of the "
    "enclosing Split, not inside a nested Split; StopIteration / GeneratorExit raised by a branch are not generated "
    "(PEP 479 turns them into RuntimeError inside the generator Split.run)",
    "JUDGEMENT (adversary round): only LenaStopFill — as an `except` clause understands it: the class and its "
    "subclasses — is the stop signal; a fill() that raises any other exception (other LenaException subclasses "
    "included) is NOT 'finalised and dropped': the exception leaves Split.run and cuts the schedule there "
    "(theorems foreign_fill_error_not_finalised, runX_prefix, runX_raised_cut)",
    "JUDGEMENT (adversary round): 'for every flow the output of Split.run is …' holds for EVERY call of run, also "
    "while generators returned by earlier calls on the same Split object are still alive and consumed alternately; "
    "the oracle claims this only for STATELESS branches (op inter), where the statement determines the values "
    "whatever the order of consumption; with stateful branches shared between two live runs the outcome depends on "
    "how far each generator has got and is not claimed (Lean: interleaved_runs needs StoreStateless; a stateful "
    "counterexample is an `example` in Props/C03G.lean)",
    "JUDGEMENT (adversary round): bufsize=None means ONE block however long the flow (docstring: 'whole input "
    "flow is materialized in the buffer'); flows up to 3000 (a few up to 8200) values are generated (longer than the default "
    "bufsize 1000, the only size constant in the anchored files); the DEFAULT value of bufsize (1000) is not part "
    "of the statement and is not checked",
    "JUDGEMENT (adversary round): copy_buf=True means every branch but the last works on a DEEP copy of the block "
    "(Split.run docstring) / of the value (Split.fill, Zip.fill): in-place changes of the data part, of the "
    "context, of nested containers and of bare mutable values by one branch are invisible to the others (op realfc: "
    "Mut* elements change every mutable container reachable from a value); flow values do not share mutable "
    "sub-objects with each other (copying a block as a whole vs value by value is not distinguished)",
    "arguments of Split/Zip: a single object, a tuple or a list of elements, or an explicit lena sequence; other "
    "iterables (generators, __getitem__-only objects) are not generated; bufsize is always passed explicitly; meta.alter_sequence is the identity on all "
    "generated arguments (no element has alter_sequence) and is not modelled; whether Split.__call__ raises "
    "LenaAttributeError at the call or at the first next() is not distinguished (observed by consuming the result)",
    "'with the same meaning' (common-type fill/compute, fill/request, nested): proved when no branch signals "
    "LenaStopFill (_partial theorems); the unrestricted statements are false of the code "
    "(common_type_fill_compute_full_false, common_type_fill_request_full_false): run finalises a stopping branch "
    "and goes on, _fill lets LenaStopFill escape to its caller (splitFill_stop says exactly what it leaves)",
    "Zip: valid distinct field names (namedtuple's own ValueError and the pickling hook globals()[name] are outside); "
    "Zip._create_context is C07's model and theorem (Lena.C07.zip_context), imported",
    "LenaSplit._get_context/_set_context (static context: C13), _repr_nested/__repr__/__eq__ are not part of the "
    "statement and not modelled",
    "NO private name of a lena object is read, called or compared (a consistent rename of lena's private "
    "attributes and methods must not change any verdict): every comparison is on yielded values, exceptions, the "
    "public attributes fill/compute/request/run/__call__ (hasattr), invocation logs of the harness elements and "
    "their states (lena.math.Sum through its public property `total`).  The model's private quantities of "
    "Split.__init__ are observed from outside (ops init, methods): emptyRun (`self.run = self._empty_run`) as "
    "'fresh Splits of the same arguments, with the bufsize of the case and with bufsize None, hand on the very "
    "objects of a 3-value probe flow one by one (value k is yielded when exactly k values have been taken)' — so an "
    "empty Split that were the identity but read ahead would be reported as not offering the empty run; the kinds "
    "list (_seq_types) as 'the methods a Split of that one argument offers' (position-dependent misclassification "
    "is visible only through the methods of the whole Split and the run ops); the effective block size (_bufsize, "
    "Cache rule) as 'the number of values run takes from a flow of bufsize+1 values (3 for None) before any method "
    "of any element is called or a value is yielded' (not observable, hence not compared, for an empty Split).  "
    "`_can_break_flow` is set on harness elements: it is the attribute lena's Run adapter asks user elements for "
    "with hasattr(el, \"_can_break_flow\") — a protocol name, public in spite of its underscore",
]
RULE = ("op=run: one case = (branch list, flow, copy_buf) run under EVERY bufsize in {1..len(flow)+1, 1000, None}; "
        "exhaustive over the four branch kinds with tagged outputs and LenaStopFill at every fill index "
        "(quick: lists 0..3 for flows 0..2, 0..2 for flows 3..4; thorough: lists 0..4 for flows 0..3, 0..3 for flows "
        "of length 4), the flow handed over in turn as list / iterator / tuple / generator / other re-iterable, plus seeded random cases (lists 0..4/5, flows 0..8 of random integers, 8 kinds of run "
        "elements incl. a Cache-like one with is_cache (Split then reads the whole flow: Cache rule), lena.math.Sum, late/multi-result variants, every argument form accepted by "
        "_get_seq_with_type incl. tuples with pre-/post-processing callables, a common-type Split nested as a branch); "
        "for the cases flagged spec (all in quick, 1/8 resp. 30% in thorough) also the interleaved per-branch trace "
        "against the Lean closed forms; long flows (999..3000, some 4100 / 8200 values, 10 cases in quick / 150 in thorough) with bufsize None, 1000 and one of "
        "{999, 1001, len-1, len, len+1, random, 2*len}; op=runx: branches raising from fill an exception of one of 16 classes (ValueError, "
        "RuntimeError, Exception, KeyboardInterrupt, LenaException, nine of its subclasses incl. a user-defined one, LenaStopFill and a "
        "user-defined subclass of it — the last two ARE stop signals) or from inside their generators one of 8 classes, "
        "1..3 consecutive runs of one Split object with the element states read back after each run, "
        "nested Splits of any inner mix (run once per block when they have no common fill type), bufsize arguments "
        "that are not int; op=inter: ONE Split object over stateless branches (Source, value-dependent LenaStopFill in "
        "fill/compute and fill/request branches, per-value run elements, every argument form), 2..3 generators run(flow_k) "
        "alive at once and consumed in a random / zip-like / nested order: every run must yield the schedule of its own flow "
        "(oracle) = Lean generator machines on one shared object store = Split.run per flow; op=methods / zip (incl. a "
        "second compute()/request() of the same Zip, and a result generator that raises: oracle only): random common-type "
        "and mixed branch lists; op=zipctx: Zip over canned results with random contexts over {a,b,zip}, fields as "
        "list/str/none of every length, reset(); op=realfc (oracle only): common-type Splits of real lena accumulators (Count, Sum, Mean, StoreFilled) and of harness elements that change IN PLACE every mutable container reachable from a value (data part, context, nested lists/dicts) / keep the value objects they are filled with, on (data, context) values whose data is an int, a list, a nested list or a dict, and on bare mutable values: with copy_buf=True fill-all-then-compute (block-wise fill then request) == run(flow) == the same Split nested in another one == the branches driven alone on their own copies; op=init: attributes present but not callable, lists of elements, is_cache flags, every capability subset as a single argument, tuples over "
        "16 representative capability sets, pairs, random lists, check_sequence_type predicates called directly; "
        "op=copied: a Split OBJECT obtained by copy.deepcopy (of the Split, of a list holding it twice, of an outer Split "
        "it is the branch of, of a copy) from a fresh or partly filled common-type Split (fill/request: possibly asked "
        "once before), both copy_buf values, every argument form, LenaStopFill at random indices; copy and original "
        "are then filled ALTERNATELY with different values and asked: each must give the results of its own branches "
        "over its own history (oracle: fresh reference elements replayed; model: splitFillAll/splitCompute/"
        "splitFrBlocks over the history); drive=run: a fresh Split of any kind mix and its copy run on different flows "
        "(400 cases in quick, 8000 in thorough); "
        "corpus/C03: regression cases. "
        "Non-trivial: >= 2 branches and a non-empty output (run), a non-empty result or an exception (others).")
LEVEL_TEXT = ("Lean 4 theorems about a transcribed model of Split.run (block loop, index loop with in-place deletion, "
              "final pass), Split's common-type methods, _get_seq_with_type and Zip, for ALL branch lists (any "
              "length, any mix of the four kinds, arbitrary stateful branch methods), all finite flows, every bufsize in N+ "
              "or None (copy_buf is not verified in Lean: copies are identities in the value model): the trace of Split.run equals the documented schedule (block by block, branch by "
              "branch, each branch's contribution a function of that branch and the blocks alone), with per-kind "
              "closed forms (whole life of a branch, and block by block: blockForm / finalForm, independent of the loop "
              "body), LenaStopFill finalise-once-and-drop, exactly-once invocation on an empty flow, bufsize "
              "independence for fill/compute and streaming branches, every branch given a prefix of the flow, identity "
              "of the empty Split, common-type __call__ (full), fill/compute and fill/request also nested in another Split (PARTIAL: no branch "
              "signals LenaStopFill; the unrestricted statement is proved false), the Cache rule of __init__, "
              "tuple conversions, the objects left in self._seqs (each determined by its own branch; running a Split "
              "twice), an exception of a branch cutting the schedule right after the raising call without changing what precedes "
              "it (prefix + cut theorems), the class hierarchy of lena's exceptions with the `except LenaStopFill` clause "
              "(exactly LenaStopFill and its subclasses stop a branch; any other exception of fill leaves the branch "
              "un-finalised and ends the run), bufsize=None as one block of any length, Split.run as a GENERATOR MACHINE "
              "with a private frame and shared branch objects (alone it produces Split.runTrace: gen_alone, for arbitrary "
              "stateful branches; under any interleaving of any number of generators of one Split over stateless branches "
              "each yields Split.run of its own flow: interleaved_runs), Zip's i-th "
              "tuples and losslessness on values with context. The model is tied to /repo by a correspondence check on "
              "event traces (outputs, per-branch invocation logs, per-branch interleaved traces, element states) that "
              "enumerates the four kinds x every bufsize x both copy_buf x every LenaStopFill index for branch lists "
              "0..4 and flows 0..4 (thorough; lists 0..3 on flows 0..2 in quick) plus seeded random richer cases, and by "
              "a reference-schedule oracle run on fresh branch objects.")
LEVEL_NOTE = ("Trusted: Lean kernel (+ propext, Classical.choice, Quot.sound), the hand transcription validated by the "
              "correspondence run, the instrumented harness elements and their Lean counterparts, the JSON protocol. "
              "NOT verified here: copy_buf / deepcopy (value identity in the model; value-level consequences checked by the "
              "oracle-only op realfc; identities: C04), branches without shared objects, generators consumed to the end (laziness: C02), Zip's context algebra taken from C07, static "
              "context / repr / equality of LenaSplit left out.")
TECHNIQUE = "Lean 4 proof over hand-written model + correspondence check (event traces) + reference-schedule oracle"
DESIGN_REF = "DESIGN.md section 3, C03"
