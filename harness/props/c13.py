"""C13 — static context seen by an element depends only on what encloses and precedes it.

Real code: lena.core.LenaSequence._set_context/_get_context (Sequence, Source), LenaSplit._set_context/
_get_context, lena.meta.SetContext / StoreContext / UpdateContextFromStatic, lena.output.MakeFilename, Write,
lena.flow.Cache.  Model: lean/LenaModel/Model/C13.lean (multi-pass protocol on values), theorems
lean/LenaModel/Props/C13.lean (lemmas in lean/LenaModel/Lemmas/C13Dict.lean, C13Pass.lean).

A case is {"tree": T, "flow": [ctx, ...], "variants": [T', ...]}:
  T  ::= {"k":"seq","kind":"Sequence"|"Source"|"tuple","c":[T...]} | {"k":"split","c":[T(seq)...]} | leaf
  leaf ::= {"k":"set","key":"a.x","val":1|"s"|"{{a}}_f"} | {"k":"store"} | {"k":"ucfs"}
         | {"k":"mkf","fmt":filename|None[,"dirname":..,"fileext":..,"prefix":..,"suffix":..,"overwrite":bool]}
         | {"k":"write","fmt":..} | {"k":"cache","fmt":..} | {"k":"data"} | {"k":"mut","key":..,"val":..} | {"k":"src"}
         | {"k":"fc"} (a FillCompute element) | {"k":"fr"} (a FillRequest element)
Further kinds of "seq" nodes: "FillComputeSeq" / "FillRequestSeq" (constructed directly; exactly one fc / fr leaf,
only callable or data-less leaves before it), "tuple" with an fc / fr leaf (Split turns it into a FillComputeSeq /
FillRequestSeq), "elem" (a Split branch given as one bare element, which Split wraps into a Sequence); a bare fc / fr
leaf may be a Split branch itself (Split keeps it as it is: it has no static context).
A case may have "precache": true: the tree is constructed once, files are created under the names its Caches
derived, and the tree is constructed again (Split then meets existing caches: `alter_sequence` / Cache hoisting).
The top node is a Sequence or a Source.  A "tuple" node is a Split branch given as a bare tuple (Split wraps
it in a Sequence).  A Source contains exactly one `src` leaf, which is its first data element.
"""
import copy
import itertools
import json
import os
import re
import shutil
import tempfile
import warnings

from harness.common import exc_name

PID = "C13"
TITLE = "Static context seen by an element depends only on what encloses and precedes it"
LEAN_MODULES = ["LenaModel.Props.C13"]
LEAN_SOURCES = ["LenaModel/Model/Val.lean", "LenaModel/Model/C13.lean", "LenaModel/Lemmas/C13Dict.lean",
                "LenaModel/Lemmas/C13Pass.lean", "LenaModel/Lemmas/C13WF.lean", "LenaModel/Lemmas/C13Frame.lean",
                "LenaModel/Lemmas/C13Reuse.lean",
                "LenaModel/Props/C13.lean"]
DRIVER = "drivers/C13.lean"
THEOREMS = [
    # the closed form of the multi-pass protocol and what makes it sound
    "Lena.C13.build_eq_final",
    "Lena.C13.setCtx_final",
    "Lena.C13.loop_final",
    "Lena.C13.fold_mono",
    "Lena.C13.skip_sound",
    "Lena.C13.no_stale_error",
    # sentence 1: seen = prefix fold
    "Lena.C13.seen_is_prefix_fold_node",
    "Lena.C13.seen_is_prefix_fold",
    "Lena.C13.leafFinal_is_setCtx",
    # sentence 2: Split copies and exports the intersection; causality
    "Lena.C13.split_branches_independent",
    "Lena.C13.split_exports_intersection",
    "Lena.C13.interN_is_meet",
    "Lena.C13.causality",
    "Lena.C13.causality_later",
    "Lena.C13.causality_sibling",
    "Lena.C13.get_context_is_fold",
    "Lena.C13.get_context_at",
    "Lena.C13.redelivery_idempotent",
    # … and re-use: a delivery that reaches every element leaves no memory of earlier deliveries
    "Lena.C13.delivery_memoryless",
    "Lena.C13.reuse_memoryless",
    # sentence 3: an unresolved key surfaces, naming the key
    "Lena.C13.surfaced_key_is_missing",
    "Lena.C13.fold_error_origin",
    "Lena.C13.fmt_error_origin",
    "Lena.C13.getRec_error_spec",
    # sentence 3, second half: no leak
    "Lena.C13.no_leak",
    "Lena.C13.mkfCall_frame",
    # the model's == is Python's ==
    "Lena.C13.delivered_wf",
    "Lena.C13.exported_wf",
    # sentence 1 for a subcontext given at once: a dictionary value is merged (update_recursively), never substituted
    "Lena.C13.set_dict_merges",
    "Lena.C13.set_dict_keeps_earlier",
    "Lena.C13.set_dict_is_dotted_key",
    "Lena.C13.set_dict_nest",
]
# true by unfolding a definition of the model / reading aids / model-internal glue: audited, not counted
AUX_THEOREMS = [
    "Lena.C13.ctxAt_split",
    "Lena.C13.ctxAt_child",
    "Lena.C13.foldL_leaves",
    "Lena.C13.split_transparent_branch",
    "Lena.C13.kind_irrelevant",
    "Lena.C13.unresolved_key_surfaces",
    "Lena.C13.getRec_error_mem",
    "Lena.C13.no_leak_without_consumer",
    "Lena.C13.run_reads_only_consumers",
    "Lena.C13.run_values_independent",
    "Lena.C13.tokAt_origin",
    "Lena.C13.singleV_nest",
    "Lena.C13.single_eq_singleV",
]
CASE_TIMEOUT = 20
TRUSTED = [
    "Lean 4.33.0 kernel; axioms limited to propext, Classical.choice, Quot.sound (audited by #print axioms on every run)",
    "hand transcription of LenaSequence.__init__/_set_context/_get_context, LenaSplit._set_context/_get_context, "
    "Source.__init__ (FillComputeSeq / FillRequestSeq: the same LenaSequence protocol since e3ec49d), SetContext, "
    "StoreContext, UpdateContextFromStatic, the _set_context of MakeFilename/Write/Cache, MakeFilename.__call__ (all "
    "five methods, overwrite), Sequence.run/Split.run(bufsize=None) and of update_recursively, intersection(level=-1), "
    "str_to_dict, get_recursively, format_context (parsed templates) into LenaModel/Model/C13.lean, validated by this "
    "correspondence check (state of every object after construction, exported contexts, LenaKeyError keys, run-time flow)",
    "the harness's independent Python prefix fold (Ref), compared with the model's specification fold on every case",
    "JSON line protocol encoders (harness/props/c13.py, drivers/C13.lean); slot-vector encoding of dictionaries over the "
    "case's key alphabet",
]
ASSUMPTIONS = [
    "VALUE MODEL / locality of mutation: the Lean model is a value model; it is adequate as long as no element updates in "
    "place a dictionary it was handed.  lena's own elements do not (SetContext, StoreContext and LenaSplit deep-copy, "
    "_get_context returns deep copies, UpdateContextFromStatic.run and MakeFilename.__call__ copy what they stored).  The "
    "copies themselves are checked by the harness, not proved: (i) hostile probe elements that update the dictionary they "
    "are handed in place AT EVERY LEVEL — every nested dictionary gets a key, every list an item — (at construction: "
    "hset; while the flow runs: hrun) are placed in Split branches, after "
    "StoreContext, after SetContext and after nested sequences, and nothing outside the group of elements that lena hands "
    "the very same object (token model `tokAt`, theorem split_branches_independent) may change; (ii) every dictionary "
    "returned by _get_context() is updated in place at every level (lists are extended) and no element may change; "
    "(iii) id()-classes of the held dictionaries and lists: a StoreContext / SetContext shares with nobody, two elements "
    "share only if `tokAt` gives them one token; (iv) MUTABLE constants: SetContext values that are lists (of scalars, of "
    "lists, of dictionaries) followed by UpdateContextFromStatic and an ordinary run-time element that extends in place "
    "every list of the run-time context (`app`): the state of every element after the run must equal its state before.  "
    "Trees with hostile probes are judged by the oracle only (no model reply).",
    "JUDGEMENT (hostile elements): an element whose _set_context updates its argument in place is not among the leaves "
    "the property quantifies over.  lena hands ONE dictionary object to consecutive elements of a sequence until an "
    "element with _get_context intervenes; UpdateContextFromStatic and MakeFilename keep that object, so a hostile "
    "element directly after them would change what they hold (StoreContext copies for exactly this reason, see its "
    "comment).  That exposure is recorded, not reported: the oracle lets the hostile key appear in elements with the same "
    "token and nowhere else.",
    "JUDGEMENT (MakeFilename): the statement's last sentence names UpdateContextFromStatic as the only door from static to "
    "run-time context, its second sentence names 'the name it derived (MakeFilename fields)'.  The check reads them "
    "together: MakeFilename may write strings it formats from the static context it saw into context.output.{prefix, "
    "suffix, filename, dirname, fileext} and nothing else (theorem mkfCall_frame; oracle 2a: with these five keys erased "
    "the flow equals the flow of the tree in which every MakeFilename was handed the same keys with other values; oracle "
    "2a': the flow is unchanged when every MakeFilename is handed only the static keys that its format strings name).",
    "JUDGEMENT (degenerate Splits): `Split([])` and a Split all of whose branches are bare fill/compute elements have no "
    "branch context to intersect; lena.context.intersection() of nothing is {}, so they export {} and ERASE the static "
    "context for what follows (Sequence(SetContext('a',1), Split([]), StoreContext()): the store sees {}), although "
    "Split([]) 'acts as an empty Sequence' for the flow and a context-less branch is called transparent in split.py.  The "
    "statement says 'exports the intersection of its branches' contexts'; specification (interN [] = {}), Python reference "
    "and model all copy the code here (directed cases degenerate_split_cases).  Reported to the coordinator as an "
    "observation about lena, not as a violation.",
    "JUDGEMENT (which key is named): when several Split branches have an unresolved key the statement does not say which "
    "one is named; the oracle accepts any of them (the model and the reference name the first, as the code does).  "
    "Unresolved keys in the templates of Write / Cache / MakeFilename never surface: the name stays unformatted.",
    "DOMAIN: context leaves of the MODEL are ints and strings; generated SetContext / run-time values are also lists "
    "(mutable), nested lists, lists of dictionaries, floats and None — the model sees each of them as an opaque string "
    "leaf with an injective tag (equality of the tags is Python's == on the pool; no bool, which equals an int), and no "
    "formatting field names a key that holds one (str() of it is outside the model, like that of a dictionary).  "
    "DICTIONARY-valued SetContext values (a subcontext given at once: empty, flat, nested, with opaque leaves, under "
    "dot-less and dotted keys, overlapping what earlier dotted keys set) ARE generated and modelled (`SVal.dictv`, "
    "`singleV`): SetContext(k, {..}) is a recursive update like any other (theorems set_dict_merges, "
    "set_dict_keeps_earlier, set_dict_is_dotted_key); keys inside a dictionary constant contain no dot.  Keys "
    "are strings, nesting depth <= 4 in generated cases (theorems: any "
    "depth).  Rendering a dictionary with str() (a formatting field that names a sub-dictionary) is outside the model: "
    "`Leaf.bad` is a poison leaf, all theorems are statements about the model, and the model is a model of the code only "
    "for programs whose constructed state has `St.noBad` — evaluated by the driver on every case and required to be true; "
    "the generator excludes a field only if an EARLIER SetContext creates a dictionary at its path.  Key numbers >= n are "
    "silently dropped by `single` (the driver numbers keys by the case's alphabet, so this does not occur).",
    "templates are well-formed double-brace templates without format specs / conversions, given to the model parsed (the "
    "scanner of format_context is C08's)",
    "flow values are (data, context) pairs or bare data (int); UpdateContextFromStatic.run raises on bare data (model: "
    "unmodelled), so flows with bare data are run only through trees without UpdateContextFromStatic",
    "run-time elements that update a value's context in place are represented by UpdateContextFromStatic, MakeFilename "
    "and a user mutator element; the oracle requires the state of every element after the run to equal its state before",
    "FillComputeSeq / FillRequestSeq nodes, tuple branches that Split turns into them and bare fill/compute elements are "
    "modelled for static context only (as LenaSequences / as elements without static context); no flow is run through "
    "trees that contain them (fill/compute/request scheduling is C03/C05/C16)",
    "Cache hoisting (Cache.alter_sequence builds a temporary Source over the flattened elements after an existing cache, "
    "which lena.core.meta.alter_sequence then discards) is checked by the oracle on trees constructed a second time with "
    "the cache files present; the temporary pass is not modelled.  Write.run / Cache._load_flow are not executed: the "
    "derived names are read from output_directory / _filename (C18, C19 cover the files)",
    "ORACLE = the statement, with lena's own classes as the meaning of 'the name it derives': names of MakeFilename / Write "
    "/ Cache are compared with those of a FRESH element of the same class handed the reference prefix fold; the flow is "
    "compared with the flow of the same tree whose SetContext elements are inert and whose consumers were handed the "
    "reference prefix fold.  No bookkeeping of MakeFilename is re-implemented in the oracle (ref_mkf_call / ref_run are "
    "used only to validate the model's runRef in the correspondence).",
    "no_leak is proved for programs whose whole fold resolves; for the others the same content is carried by "
    "seen_is_prefix_fold (per consumer whose own prefix resolves) + run_reads_only_consumers + mkfCall_frame, and the "
    "oracle runs the no-leak comparison whenever every UpdateContextFromStatic / MakeFilename has a resolvable prefix",
    "Split is built with bufsize=None (the whole flow is one buffer), Cache with recompute=True and at most one Cache in a "
    "tree whose flow is run (an existing cache file would replace the flow: C18), flow data are ints (Write passes them on)",
    "_set_context(c) on a constructed tree ('redeliver', one or two arbitrary contexts) is compared with setCtx of the "
    "model, which exercises the stale-_static_context and ret/raise branches that nesting alone cannot reach.  "
    "JUDGEMENT (element re-use): the oracle judges a single delivery (= an enclosing sequence) always, and a SECOND "
    "delivery (= the constructed tree is placed into a second enclosing sequence, as lena's own tests do with elements) "
    "only when it reaches every element (`covers` / py_covers: no unresolved key, no element handed an empty context): "
    "then every element must hold the fold started from the last context and derive its names from it "
    "(theorems delivery_memoryless, reuse_memoryless).  When the second delivery does NOT reach an element lena keeps "
    "what the first one left there (skip-while-empty, `return` at an unresolved key, Write/Cache keep a name they cannot "
    "format again): that is the code's documented reliance on nesting ('external context can not delete local keys'), "
    "recorded here, not reported",
    "run-time elements that extend lists in place (`app`) are outside the model: trees that contain one are modelled for "
    "static context only, their flow is judged by the oracle (state before = state after, the differential no-leak run, "
    "and — for trees without MakeFilename — an independent reference run: static context enters only as the recursive "
    "update that UpdateContextFromStatic makes with the prefix fold)",
]
RULE = ("quick: seven directed families (hostile in-place updaters, writing at every level, next to every copy the "
        "statement names; degenerate Splits; ~430 trees with mutable (list-valued) static keys, consumers and a run-time "
        "element that extends lists in place; ~40 trees delivered two different contexts in turn (element re-use); ~900 trees "
        "for DICTIONARY-valued SetContext: every ordered pair of 14 setters of one subtree (dotted keys, dot-less keys with "
        "empty / flat / nested / overlapping dictionaries, scalar, list, None, formatting string), consumers after them, "
        "flat / nested Sequence / Split branch / earlier nested Sequence; (~290 trees for run-time aliasing of static context: nested static key, "
        "UpdateContextFromStatic/MakeFilename, a later in-place update of the run-time context by a user mutator, a second "
        "UpdateContextFromStatic or MakeFilename, three values; ~100 trees for FillComputeSeq / FillRequestSeq nodes, tuple "
        "branches that Split converts into them, branches given as bare elements, and Splits constructed while the caches "
        "of their branches exist; ~350 trees with static keys below `output` followed by MakeFilename prefix / suffix / "
        "filename methods, values with and without a run-time `output` key); all trees with <= 2 leaves over 10 leaf kinds (SetContext constant / formatting / "
        "nested key, StoreContext, UpdateContextFromStatic, MakeFilename, Write, Cache, plain element, run-time mutator), "
        "depth <= 2, Sequence and Source tops; 3000 seeded trees with 3 leaves over 7 leaf kinds; 1500 seeded trees with 3 "
        "leaves over 12 leaf kinds (dictionary constants, fields below them); 1000 seeded trees with 4 "
        "leaves over 8 leaf kinds with list values and list-extending run-time elements; 3000 seeded random trees "
        "of depth <= 3 (Sequence / Source / FillComputeSeq / FillRequestSeq / tuple / bare-element branches, 0-3 Split "
        "branches, 6 keys, 7 formatting fields incl. unresolvable ones, MakeFilename with any legal combination of "
        "filename/dirname/fileext/prefix/suffix/overwrite, 12 % of the SetContext values lists / nested lists / floats / None, "
        "13 % dictionaries, "
        "20 % of the trees re-delivered one or two contexts out of 8, 15 % of the trees with a Cache constructed a second time with "
        "the cache files present) each with two causality variants and a run-time flow out of 7 (1-3 values; none for "
        "trees with fill/compute elements); every element's static state and names are read before and after the run.  "
        "thorough: all trees with <= 3 leaves over the 7 leaf kinds and <= 2 leaves over all 15, 30 000 seeded 4-leaf "
        "trees over the 10 kinds, 10 000 over the 12 dictionary kinds, 10 000 over the 8 list kinds, 30 000 random trees.  Non-trivial: some element saw a non-empty context or derived a "
        "formatted name.")
LEVEL_TEXT = ("Lean 4 theorems about a transcribed VALUE model of the multi-pass static-context protocol (bottom-up "
              "construction, _set_context({}) in every constructor, re-propagation by enclosing sequences, skip-while-empty, "
              "stale _static_context, the two LenaKeyError exits) for all trees of Sequence/Source/Split of any depth and "
              "size in the model's domain (no rendered dictionary): the constructed state equals a closed form defined from "
              "the single top-down prefix fold (build_eq_final), whence seen = prefix fold at every position, causality "
              "(state at a position is a function of its cone), Split exports the intersection (a meet) and hands each "
              "branch its own object (token level), an unresolved key surfaces and is the key at which a formatting field "
              "of some SetContext breaks against its prefix fold, run-time flow = reference flow when the tree resolves, and "
              "MakeFilename can touch nothing but five keys below output.  Copies (aliasing) are NOT proved: they are "
              "checked on the real code with hostile in-place updaters, in-place updates of every _get_context() result and "
              "id()-classes against the token model.  Tied to /repo by a correspondence check on every object of every "
              "generated tree (protocol, closed form, specification, tokens, re-delivery), plus an oracle that evaluates the "
              "property with an independent Python prefix fold, lena's own classes for derived names, a differential "
              "no-leak run, state-before = state-after, and pairwise causality comparison of trees sharing a cone.")
LEVEL_NOTE = ("Trusted: Lean kernel (+ propext, Classical.choice, Quot.sound), the hand transcription validated by the "
              "correspondence run, value semantics of contexts (locality of mutation, checked dynamically, not proved), "
              "dictionary rendering and template scanning outside the model, the JSON protocol.  11 reading aids / "
              "definitional lemmas are listed in AUX_THEOREMS, not in THEOREMS.")
TECHNIQUE = ("Lean 4 proof over hand-written model (closed form of a multi-pass protocol via a monotonicity lemma) + "
             "correspondence check (exhaustive small scopes, seeded random trees) + independent reference-fold oracle")
DESIGN_REF = "DESIGN.md section 3, C13"

# ------------------------------------------------------------------------------------------------
# templates: "lit{{path}}lit..." -> [lit, path, lit, path, ..., lit]  (odd positions are fields)

_FIELD = re.compile(r"\{\{([^{}]*)\}\}")


def parse_template(s):
    """Split a well-formed double-brace template into [lit0, field1, lit1, ...]; None if s has no field."""
    if "{" not in s:
        return None
    parts = _FIELD.split(s)
    assert "{" not in "".join(parts[0::2]) and "}" not in "".join(parts[0::2]), s
    return parts


# ------------------------------------------------------------------------------------------------
# values.  The model's leaves are Python ints and strings ("plain").  Every other constant that a SetContext may be
# given — a list (mutable!), a list of lists, a list holding a dictionary, a float, None — is OPAQUE: the model
# sees it as a string leaf with an injective tag (Python's == on the pool of opaque values is equality of these
# strings), the generator never lets a formatting field name a key that holds one (str() of it is not modelled).

_TAG = "~L~"


def _is_plain(v):
    return (isinstance(v, int) and not isinstance(v, bool)) or isinstance(v, str)


def _encv(x):
    """a context / value in the vocabulary of the model: opaque leaves become tagged strings"""
    if isinstance(x, dict):
        return {k: _encv(v) for k, v in x.items()}
    if _is_plain(x):
        return x
    return _TAG + json.dumps(x, sort_keys=True)


def _grow(x):
    """extend IN PLACE every list reachable from the context x (and mark every dictionary that sits in a list):
    what `context["cuts"].append(...)` in a user's run-time element does"""
    if isinstance(x, dict):
        for v in x.values():
            _grow(v)
    elif isinstance(x, list):
        for v in x:
            if isinstance(v, dict):
                v["rt"] = 1
            else:
                _grow(v)
        x.append("rt")


def _grown(x):
    """the value of x after _grow (x is not touched)"""
    x = copy.deepcopy(x)
    _grow(x)
    return x


def _mark(x, key, item):
    """update IN PLACE every dictionary reachable from x with key: 1 and append item to every list"""
    if isinstance(x, dict):
        for v in list(x.values()):
            _mark(v, key, item)
        x[key] = 1
    elif isinstance(x, list):
        for v in x:
            _mark(v, key, item)
        x.append(item)


def _unmark(x, pred):
    """x without the marks (dictionary keys / list items) that satisfy pred"""
    if isinstance(x, dict):
        return {k: _unmark(v, pred) for k, v in x.items() if not (isinstance(k, str) and pred(k))}
    if isinstance(x, list):
        return [_unmark(v, pred) for v in x if not (isinstance(v, str) and pred(v))]
    return x


class RefKeyError(Exception):
    def __init__(self, comp):
        Exception.__init__(self, comp)
        self.comp = comp


class DictRendered(Exception):
    """a formatting field resolved to a dictionary (outside the generated domain)"""


def ref_get(ctx, path):
    """independent transcription of the documented get_recursively: the missing component is named"""
    parts = [p for p in path.split(".") if p]
    d = ctx
    for p in parts[:-1]:
        if isinstance(d, dict) and p in d and isinstance(d[p], dict):
            d = d[p]
        else:
            raise RefKeyError(p)
    if not parts:
        return d
    if parts[-1] in d:
        return d[parts[-1]]
    raise RefKeyError(parts[-1])


def ref_format(tpl, ctx):
    """format a parsed template against ctx; all fields are looked up before anything is rendered"""
    vals = [ref_get(ctx, f) for f in tpl[1::2]]
    out = [tpl[0]]
    for v, lit in zip(vals, tpl[2::2]):
        if not _is_plain(v):
            raise DictRendered()
        out.append(str(v))
        out.append(lit)
    return "".join(out)


def ref_update(d, other):
    """d updated recursively with other (returns a new dict)"""
    d = dict(d)
    for k, v in other.items():
        if isinstance(v, dict) and isinstance(d.get(k), dict):
            d[k] = ref_update(d[k], v)
        elif isinstance(v, dict):
            d[k] = ref_update({}, v)
        else:
            d[k] = v
    return d


def ref_path_dict(key, val):
    parts = key.split(".")
    d = val
    for p in reversed(parts):
        d = {p: d}
    return d


def ref_inter2(a, b):
    """documented intersection of two dictionaries: items contained in both, recursively"""
    res = {}
    for k, v in a.items():
        if k in b:
            if b[k] == v:
                res[k] = copy.deepcopy(v)
            elif isinstance(v, dict) and isinstance(b[k], dict):
                res[k] = ref_inter2(v, b[k])
    return res


def ref_intersection(ds):
    if not ds:
        return {}
    res = copy.deepcopy(ds[0])
    for d in ds[1:]:
        res = ref_inter2(res, d)
    return res


# ------------------------------------------------------------------------------------------------
# the reference: one top-down prefix fold (the property's own statement)

PROBES = ("store", "ucfs", "mkf", "write", "cache")


def preorder(tree):
    """nodes in document order"""
    out = [tree]
    for c in tree.get("c", ()):
        out.extend(preorder(c))
    return out


MKF_KEYS = ("prefix", "suffix", "filename", "dirname", "fileext")      # the order of MakeFilename._methods


def mkf_methods(node):
    """[(output key, format string)] of a mkf node in the order MakeFilename applies them"""
    out = []
    for key in MKF_KEYS:
        fmt = node.get("fmt") if key == "filename" else node.get(key)
        if fmt is not None:
            out.append((key, fmt))
    return out


def node_templates(node):
    """the format strings of a node (set value, consumer names)"""
    if node["k"] == "set":
        return [node["val"]] if isinstance(node["val"], str) else []
    if node["k"] == "mkf":
        return [f for _, f in mkf_methods(node)]
    if node["k"] in ("write", "cache"):
        return [node["fmt"]]
    return []


class Ref:
    """Expected observations, by pre-order index.  Absent index: undefined by the statement (a formatting key of
    the element's own prefix cannot be resolved)."""

    def __init__(self, tree, start=None):
        self.exp = {}
        self.empty_in = set()       # nodes with _set_context that the fold hands an EMPTY context (lena skips them)
        self.seen_at = {}           # the context handed to Write / Cache nodes
        self.dict_rendered = False
        self.counter = 0
        self.top = None
        try:
            self.top = ("ok", self.fold(tree, copy.deepcopy(start) if start else {}))
        except RefKeyError as e:
            self.top = ("err", e.comp)

    def skip(self, node):
        self.counter += len(preorder(node))

    def fold(self, node, ctx):
        """returns the context after `node`; raises RefKeyError at the first unresolved key in document order"""
        idx = self.counter
        self.counter += 1
        k = node["k"]
        if not ctx and k not in ("data", "src", "mut", "app", "fc", "fr"):
            self.empty_in.add(idx)
        if k == "set":
            val = copy.deepcopy(node["val"])
            tpl = parse_template(val) if isinstance(val, str) else None
            try:
                if tpl is not None:
                    val = ref_format(tpl, ctx)
            except RefKeyError as e:
                self.exp[idx] = {"k": "set", "get": {"e": e.comp}}
                raise
            new = ref_update(ctx, ref_path_dict(node["key"], val))
            self.exp[idx] = {"k": "set", "get": new}
            return new
        if k in ("store", "ucfs"):
            self.exp[idx] = {"k": k, "seen": copy.deepcopy(ctx)}
            return ctx
        if k == "mkf":
            # what it was given, and the output keys it derives from that alone
            self.exp[idx] = {"k": k, "seen": copy.deepcopy(ctx),
                             "name": ref_mkf_call(node, ctx, {}).get("output", {})}
            return ctx
        if k in ("write", "cache"):
            tpl = parse_template(node["fmt"])
            rec = {"k": k}
            self.seen_at[idx] = copy.deepcopy(ctx)
            if tpl is None:
                rec["name"] = node["fmt"]
            else:
                try:
                    rec["name"] = ref_format(tpl, ctx)
                except RefKeyError:
                    # Write and Cache keep the unformatted string
                    rec["name"] = node["fmt"]
            self.exp[idx] = rec
            return ctx
        if k in ("data", "src", "mut", "app", "fc", "fr", "hrun"):
            self.exp[idx] = {"k": "data" if k in ("fc", "fr", "app") else k}
            return ctx
        if k == "hset":
            # a hostile element that updates the dictionary it is given in place: what follows it sees the update
            # (a sequence never hands an empty context to an element)
            self.exp[idx] = {"k": k}
            if not ctx:
                return ctx
            new = copy.deepcopy(ctx)
            _mark(new, "hz%d" % idx, "hz%d" % idx)
            return new
        if k == "seq":
            children = node["c"]
            for i, c in enumerate(children):
                try:
                    ctx = self.fold(c, ctx)
                except RefKeyError as e:
                    for rest in children[i + 1:]:
                        self.skip(rest)
                    self.exp[idx] = {"k": "seq", "get": {"e": e.comp}, "alts": getattr(e, "alts", None) or [e.comp]}
                    raise
            self.exp[idx] = {"k": "seq", "get": copy.deepcopy(ctx)}
            return ctx
        if k == "split":
            outs, err, alts = [], None, []
            for b in node["c"]:
                if b["k"] in ("fc", "fr"):
                    # a branch that is a bare element has no static context at all: it is transparent
                    # ("not intersecting the others with {}", split.py)
                    self.fold(b, copy.deepcopy(ctx))
                    continue
                try:
                    outs.append(self.fold(b, copy.deepcopy(ctx)))
                except RefKeyError as e:
                    # the other branches have their own, resolvable, prefix
                    err = err or e
                    alts.append(e.comp)
            if err is not None:
                # the statement does not say which of several unresolved keys is named: any of them ("alts")
                self.exp[idx] = {"k": "split", "get": {"e": err.comp}, "alts": alts}
                err.alts = getattr(err, "alts", None) or alts
                raise err
            res = ref_intersection(outs)
            self.exp[idx] = {"k": "split", "get": res}
            return res
        raise ValueError(k)


class Unmodelled(Exception):
    """the run-time reference meets a context outside the generated domain"""


def ref_mkf_call(node, seen, c):
    """documented behaviour of MakeFilename(filename, dirname, fileext, prefix, suffix, overwrite) on a value with
    context c (returns the new context).  For each given argument in the order prefix, suffix, filename, dirname,
    fileext: an existing output.filename/dirname/fileext is kept unless overwrite; the string is formatted from the
    static context seen, the run-time context taking precedence key by key, and nothing changes if it cannot be
    formatted; a prefix is prepended before an existing output.prefix and a suffix appended after an existing
    output.suffix unless overwrite; output.prefix / output.suffix are added to a file name and removed."""
    c = copy.deepcopy(c)
    ow = bool(node.get("overwrite"))
    for key, fmt in mkf_methods(node):
        out = c.get("output")
        if out is not None and not isinstance(out, dict):
            if key in ("filename", "dirname", "fileext"):
                raise Unmodelled()
            out = None
        if key in ("filename", "dirname", "fileext") and out is not None and key in out and not ow:
            continue
        full = dict(seen)
        full.update(c)
        tpl = parse_template(fmt)
        try:
            name = fmt if tpl is None else ref_format(tpl, full)
        except RefKeyError:
            continue
        outd = out if out is not None else {}
        if key in ("prefix", "suffix"):
            ex = outd.get(key)
            if ex is not None and not isinstance(ex, str):
                raise Unmodelled()
            if ex and not ow:
                name = name + ex if key == "prefix" else ex + name
        elif key == "filename":
            for k2 in ("prefix", "suffix"):
                if k2 in outd and not isinstance(outd[k2], str):
                    raise Unmodelled()
            pre, suf = outd.get("prefix", ""), outd.get("suffix", "")
            name = pre + name + suf
            if pre:
                del outd["prefix"]
            if suf:
                del outd["suffix"]
        c = ref_update(c, {"output": {key: name}})
    return c


SRC_FLOW = [{"r": 0}, {"r": 1, "a": "src"}]


def ref_run(node, exp, idx, flow):
    """Run-time reference: what comes out for the flow `flow` (list of (data, ctx), ctx None for bare data); static
    context enters only through UpdateContextFromStatic (recursive update with what it saw) and through the names
    MakeFilename derives.  Returns (flow_out, next_idx).  exp: Ref.exp (defined for every consumer)."""
    k = node["k"]
    if k == "ucfs":
        if any(c is None for _, c in flow):
            raise Unmodelled()          # `data, context = val` raises for bare data
        return [(d, ref_update(c, exp[idx]["seen"])) for d, c in flow], idx + 1
    if k == "mkf":
        out = []
        for d, c in flow:
            r = ref_mkf_call(node, exp[idx]["seen"], c if c is not None else {})
            out.append((d, r if (c is not None or r) else None))
        return out, idx + 1
    if k in ("set", "store", "write", "cache", "data", "fc", "fr", "hset", "hrun"):
        return flow, idx + 1
    if k == "mut":
        return [(d, c if c is None else ref_update(c, ref_path_dict(node["key"], copy.deepcopy(node["val"]))))
                for d, c in flow], idx + 1
    if k == "app":
        return [(d, c if c is None else _grown(c)) for d, c in flow], idx + 1
    if k == "src":
        return [(i, copy.deepcopy(c)) for i, c in enumerate(SRC_FLOW)], idx + 1
    if k == "seq":
        idx += 1
        for c in node["c"]:
            flow, idx = ref_run(c, exp, idx, flow)
        return flow, idx
    if k == "split":
        idx += 1
        if not node["c"]:
            return flow, idx
        out = []
        for b in node["c"]:
            o, idx = ref_run(b, exp, idx, copy.deepcopy(flow))
            out.extend(o)
        return out, idx
    raise ValueError(k)


def consumers_defined(tree, exp):
    """every element through which static context can reach the flow has a defined prefix fold"""
    return all(i in exp for i, nd in enumerate(preorder(tree)) if nd["k"] in ("ucfs", "mkf"))


# tokens: which elements are handed the same dictionary object (the Python twin of `tokAt`, Model/C13.lean)

def _has_get(node):
    return node["k"] in ("set", "seq", "split")


def tokens(tree):
    """{path: token} of the dictionary object handed to every node: LenaSequence._set_context passes one object to
    consecutive elements and rebinds it to the copy returned by an element's _get_context(); a Split copies per
    branch"""
    out = {}

    def walk(node, abs_, inc):
        out[abs_] = inc
        if node["k"] == "seq":
            running = inc
            for i, c in enumerate(node["c"]):
                walk(c, abs_ + (i,), running)
                if _has_get(c):
                    running = (abs_ + (i,), 0)
        elif node["k"] == "split":
            for i, b in enumerate(node["c"]):
                walk(b, abs_ + (i,), (abs_ + (i,), 1))
    walk(tree, (), ((), 2))
    return out


# ------------------------------------------------------------------------------------------------
# the real code

class _Src(object):
    """first element of a Source: generates the flow"""

    def __call__(self):
        for i, c in enumerate(SRC_FLOW):
            yield (i, copy.deepcopy(c))


def _ident(val):
    return val


_PRECACHE = [False]


class _FC(object):
    """a FillCompute element (it also has `run`, so that a plain Sequence accepts it)"""

    def __init__(self):
        self._vals = []

    def fill(self, value):
        self._vals.append(value)

    def compute(self):
        for v in self._vals:
            yield v

    def run(self, flow):
        for v in flow:
            yield v


class _FR(object):
    """a FillRequest element"""

    def __init__(self):
        self._vals = []

    def fill(self, value):
        self._vals.append(value)

    def request(self):
        vals, self._vals = self._vals, []
        for v in vals:
            yield v

    def reset(self):
        self._vals = []

    def run(self, flow):
        for v in flow:
            yield v


class _Mutator(object):
    """an ordinary run-time element that updates the run-time context of every value IN PLACE (as
    lena.context.update_recursively(context, "key", value) in a user's callable does)"""

    def __init__(self, key, val):
        self._key, self._val = key, val

    def __call__(self, value):
        import lena.context
        if not (isinstance(value, tuple) and len(value) == 2 and isinstance(value[1], dict)):
            return value            # bare data: nothing to update
        data, context = value
        lena.context.update_recursively(context, lena.context.str_to_dict(self._key, copy.deepcopy(self._val)))
        return (data, context)


class _Appender(object):
    """an ordinary run-time element that extends IN PLACE every list in the run-time context of every value (as
    `context["cuts"].append(cut)` in a user's callable does)"""

    def __call__(self, value):
        if isinstance(value, tuple) and len(value) == 2 and isinstance(value[1], dict):
            _grow(value[1])
        return value


class _HSet(object):
    """a hostile element: its _set_context updates the dictionary it is given IN PLACE (what SetContext did before
    dd35ba0) and keeps it"""

    def __init__(self, tag):
        self._tag = tag

    def _set_context(self, context):
        # at every level: every dictionary gets a key, every list an item
        _mark(context, "hz%d" % self._tag, "hz%d" % self._tag)
        self._context = context

    def __call__(self, value):
        return value


def _marked(x, key):
    return isinstance(x, dict) and key in x


class _HRun(object):
    """a hostile element: it keeps the dictionary it is given and updates it in place later, while the flow runs"""

    def __init__(self, tag):
        self._tag = tag

    def _set_context(self, context):
        self._context = context

    def run(self, flow):
        for val in flow:
            if hasattr(self, "_context") and not _marked(self._context, "hr%d" % self._tag):
                _mark(self._context, "hr%d" % self._tag, "hr%d" % self._tag)
            yield val


_KEYERR = re.compile(r"nested (?:dict|key) (\S+) not found")


def _keyerr(e):
    m = _KEYERR.search(str(e))
    return {"e": m.group(1) if m else "?", "cls": exc_name(e), "msg": str(e)[:200]}


def _get(obj):
    import lena.core
    try:
        return copy.deepcopy(obj._get_context())
    except lena.core.LenaKeyError as e:
        return _keyerr(e)
    except Exception as e:  # any other class is reported as such
        return {"e": "?", "cls": exc_name(e), "msg": str(e)[:200]}


def build(node, objs):
    """construct the real elements bottom-up, remembering them in document order"""
    import lena.core, lena.meta, lena.output, lena.flow
    k = node["k"]
    slot = len(objs)
    objs.append(None)
    if k == "set":
        o = lena.meta.SetContext(node["key"], copy.deepcopy(node["val"]))
    elif k == "store":
        o = lena.meta.StoreContext()
    elif k == "ucfs":
        o = lena.meta.UpdateContextFromStatic()
    elif k == "mkf":
        o = lena.output.MakeFilename(filename=node.get("fmt"), dirname=node.get("dirname"), fileext=node.get("fileext"),
                                     prefix=node.get("prefix"), suffix=node.get("suffix"),
                                     overwrite=bool(node.get("overwrite")))
    elif k == "write":
        o = lena.output.Write(node["fmt"], verbose=False)
    elif k == "cache":
        # recompute=True: an existing cache file (of another Cache of the tree with the same name) is never
        # loaded instead of the flow; that is C18's subject
        # (a "precache" case is about existing caches at construction time and runs no flow: recompute=False)
        o = lena.flow.Cache(node["fmt"], recompute=not _PRECACHE[0])
    elif k == "data":
        o = _ident
    elif k == "fc":
        o = _FC()
    elif k == "fr":
        o = _FR()
    elif k == "mut":
        o = _Mutator(node["key"], node["val"])
    elif k == "app":
        o = _Appender()
    elif k == "hset":
        o = _HSet(slot)
    elif k == "hrun":
        o = _HRun(slot)
    elif k == "src":
        o = _Src()
    elif k == "seq":
        cs = [build(c, objs) for c in node["c"]]
        if node["kind"] == "Sequence":
            o = lena.core.Sequence(*cs)
        elif node["kind"] == "Source":
            o = lena.core.Source(*cs)
        elif node["kind"] == "FillComputeSeq":
            o = lena.core.FillComputeSeq(*cs)
        elif node["kind"] == "FillRequestSeq":
            # the keyword arguments that Split uses when it makes a FillRequestSeq
            o = lena.core.FillRequestSeq(*cs, bufsize=1, reset=False, buffer_input=True)
        elif node["kind"] == "elem":
            o = cs[0]
        else:
            o = tuple(cs)
    elif k == "split":
        slots, cs = [], []
        for c in node["c"]:
            slots.append(len(objs))
            cs.append(build(c, objs))
        # bufsize=None: the whole flow is one buffer (what the model's `run` describes)
        o = lena.core.Split(cs, bufsize=None)
        # a tuple (bare element) branch became a Sequence / FillComputeSeq / FillRequestSeq inside the Split:
        # observe that one
        for b, sl, made in zip(node["c"], slots, o._seqs):
            if b["k"] == "seq" and b["kind"] in ("tuple", "elem"):
                objs[sl] = made
    else:
        raise ValueError(k)
    objs[slot] = o
    return o


def read_state(tree, objs):
    """what every element of the constructed tree holds now"""
    nodes = preorder(tree)
    recs = []
    for node, o in zip(nodes, objs):
        k = node["k"]
        if k == "set":
            recs.append({"k": k, "get": _get(o)})
        elif k == "store":
            recs.append({"k": k, "seen": copy.deepcopy(o.context)})
        elif k == "ucfs":
            recs.append({"k": k, "seen": copy.deepcopy(o._context)})
        elif k == "mkf":
            res = o((0, {}))
            recs.append({"k": k, "seen": copy.deepcopy(getattr(o, "_context", {})),
                         "name": copy.deepcopy(res[1].get("output", {}))})
        elif k == "write":
            recs.append({"k": k, "name": o.output_directory})
        elif k == "cache":
            recs.append({"k": k, "name": o._filename})
        elif k in ("seq", "split"):
            recs.append({"k": k, "get": _get(o)})
        else:
            recs.append({"k": "data" if k in ("fc", "fr", "app") else k})
    return recs


def _held(node, o):
    """the dictionary object an element holds as (a view of) static context, if any"""
    k = node["k"]
    if k == "store":
        return o.context
    if k in ("ucfs", "mkf", "hset", "hrun"):
        return getattr(o, "_context", None)
    if k in ("set", "seq"):
        return getattr(o, "_static_context", None)
    return None


def _dict_ids(d, acc):
    """identities of the mutable containers (dictionaries, lists) reachable from d"""
    if isinstance(d, dict):
        acc.add(id(d))
        for v in d.values():
            _dict_ids(v, acc)
    elif isinstance(d, list):
        acc.add(id(d))
        for v in d:
            _dict_ids(v, acc)


def id_classes(tree, objs):
    """per node: the identities (renumbered) of the dictionaries and lists reachable from what it holds (if that is
    not empty)"""
    ren, out = {}, []
    for node, o in zip(preorder(tree), objs):
        acc = set()
        h = _held(node, o)
        if h:
            _dict_ids(h, acc)
        out.append(sorted(ren.setdefault(i, len(ren)) for i in acc))
    return out


def _scribble(d, depth=0):
    """update a dictionary in place at every level (what a careless caller of _get_context() might do)"""
    if isinstance(d, dict) and depth < 6:
        for v in list(d.values()):
            _scribble(v, depth + 1)
        d["hzg"] = depth
    elif isinstance(d, list) and depth < 6:
        for v in d:
            _scribble(v, depth + 1)
        d.append("hzg")


def _fresh_names(tree, ref):
    """for every MakeFilename / Write / Cache whose prefix resolves: the name that a FRESH element of the same class
    and arguments derives when it is handed the reference prefix fold — the real classes define what 'the name it
    derives from a context' is, the reference fold defines the context"""
    import lena.output, lena.flow
    out = {}
    for idx, node in enumerate(preorder(tree)):
        exp = ref.exp.get(idx)
        if exp is None or node["k"] not in ("mkf", "write", "cache"):
            continue
        objs = []
        o = build(node, objs)
        seen = exp.get("seen") if node["k"] == "mkf" else ref.seen_at.get(idx)
        if seen:
            o._set_context(copy.deepcopy(seen))
        out[idx] = read_state(node, objs)[0].get("name")
    return out


def _sentinel(d):
    return {k: _sentinel(v) if isinstance(v, dict) else "\u00a7" for k, v in d.items()}


def _restrict(seen, node):
    """the part of the static context `seen` that the format strings of the MakeFilename `node` name"""
    out = {}
    for t in node_templates(node):
        for f in (parse_template(t) or [])[1::2]:
            parts = [p for p in f.split(".") if p]
            try:
                v = ref_get(seen, f)
            except RefKeyError:
                continue
            d = out
            for p_ in parts[:-1]:
                d = d.setdefault(p_, {})
            if parts and not isinstance(d.get(parts[-1]), dict):
                d[parts[-1]] = copy.deepcopy(v)
    return out


def _neutral_run(tree, ref, make_flow, seed_mkf=True):
    """the no-leak reference run: the same tree with its SetContext elements replaced by inert ones (every static context is empty),
    in which each UpdateContextFromStatic and MakeFilename is handed, by hand, the reference prefix fold of its
    position in the original tree; then the same flow"""
    def strip(node):
        if "c" in node:
            return dict(node, c=[strip(c) for c in node["c"]])
        # a StoreContext stands for every SetContext: no data, no contribution to the context
        return {"k": "store"} if node["k"] == "set" else node
    t2 = strip(tree)
    objs = []
    top = build(t2, objs)
    for i2, (nd, o) in enumerate(zip(preorder(t2), objs)):
        if nd["k"] in ("ucfs", "mkf"):
            seen = ref.exp[i2]["seen"]
            if nd["k"] == "mkf" and seed_mkf == "fields":
                # only what its format strings name
                seen = _restrict(seen, nd)
            elif nd["k"] == "mkf" and not seed_mkf:
                # the same keys, every scalar replaced: whatever MakeFilename formats is another string, everything
                # else it does (which methods can be formatted, whether a bare value gets a context) is the same
                seen = _sentinel(seen)
            if seen:
                o._set_context(copy.deepcopy(seen))
    gen = top() if tree["kind"] == "Source" else top.run(make_flow())
    return [copy.deepcopy(v) for v in gen]


def _out_pairs(res):
    return [[v[0], v[1]] if isinstance(v, tuple) and len(v) == 2 and isinstance(v[1], dict) else [v, None] for v in res]


def _run_tree(tree, flow_ctxs, redeliver=None, full=True):
    """construct the tree with the real classes, read the state of every element, scribble on what every
    _get_context() returns and read again, run the flow (every value is copied the moment it comes out), read the
    state of every element again; finally call top._set_context(c) for the contexts of `redeliver`"""
    objs = []
    top = build(tree, objs)
    if _PRECACHE[0]:
        # "the second run of the script": files exist under the names the Caches derived; construct again
        for node, o in zip(preorder(tree), objs):
            if node["k"] == "cache" and "{" not in o._filename:
                d = os.path.dirname(o._filename)
                if d:
                    os.makedirs(d, exist_ok=True)
                open(o._filename, "wb").close()
        objs = []
        top = build(tree, objs)
    recs = read_state(tree, objs)
    res = {"nodes": recs, "out": None, "nodes_after": None}
    if not full:
        return res
    res["ids"] = id_classes(tree, objs)
    # what _get_context() returns is the caller's: updating it in place must change nothing
    import lena.core
    for o in objs:
        if hasattr(o, "_get_context"):
            try:
                _scribble(o._get_context())
            except lena.core.LenaKeyError:
                pass
    again = read_state(tree, objs)
    res["nodes_scribbled"] = None if again == recs else again
    if flow_ctxs is not None:
        def make_flow():
            return [(i, copy.deepcopy(c)) if c is not None else i for i, c in enumerate(flow_ctxs)]
        try:
            gen = top() if tree["kind"] == "Source" else top.run(make_flow())
            out = []
            for val in gen:
                out.append(copy.deepcopy(val))
            res["out"] = {"r": _out_pairs(out)}
        except Exception as e:
            res["out"] = {"e": exc_name(e), "msg": str(e)[:200]}
        after = read_state(tree, objs)
        # the state after the run is kept only if it differs from the state before it (memory)
        res["nodes_after"] = None if after == recs else after
        ref = Ref(tree)
        if not any(nd["k"] in ("hset", "hrun") for nd in preorder(tree)) and consumers_defined(tree, ref.exp):
            try:
                res["neutral"] = {"r": _out_pairs(_neutral_run(tree, ref, make_flow))}
            except Exception as e:
                res["neutral"] = {"e": exc_name(e), "msg": str(e)[:200]}
            if res["neutral"] == res["out"]:
                res["neutral"] = "="            # compact
            if any(nd["k"] == "mkf" for nd in preorder(tree)):
                try:
                    res["neutral0"] = {"r": _out_pairs(_neutral_run(tree, ref, make_flow, seed_mkf=False))}
                except Exception as e:
                    res["neutral0"] = {"e": exc_name(e), "msg": str(e)[:200]}
                try:
                    res["neutral1"] = {"r": _out_pairs(_neutral_run(tree, ref, make_flow, seed_mkf="fields"))}
                except Exception as e:
                    res["neutral1"] = {"e": exc_name(e), "msg": str(e)[:200]}
                if res["neutral1"] == res["out"]:
                    res["neutral1"] = "="       # compact
                if "r" in res["neutral0"] and "r" in res["out"] and \
                        _erase_names(res["neutral0"]["r"]) == _erase_names(res["out"]["r"]):
                    res["neutral0"] = "="       # compact
    if not any(nd["k"] in ("hset", "hrun") for nd in preorder(tree)):
        # (compact: only the names that differ from what the element of the tree derived are kept)
        res["fresh_names"] = {str(k): v for k, v in _fresh_names(tree, Ref(tree)).items()
                              if v != recs[k].get("name")}
    if redeliver:
        raised = []
        for c in redeliver:
            try:
                top._set_context(copy.deepcopy(c))
                raised.append(None)
            except lena.core.LenaKeyError as e:
                raised.append(_keyerr(e)["e"])
        res["redelivered"] = {"nodes": read_state(tree, objs), "raised": raised}
        if not any(nd["k"] in ("hset", "hrun") for nd in preorder(tree)):
            res["redelivered"]["fresh_names"] = {str(k): v for k, v in
                                                 _fresh_names(tree, Ref(tree, start=redeliver[-1])).items()}
    return res


def run_impl(case):
    warnings.simplefilter("ignore")
    cwd = os.getcwd()
    tmp = tempfile.mkdtemp(prefix="c13_", dir="/dev/shm" if os.path.isdir("/dev/shm") else None)
    os.chdir(tmp)
    _PRECACHE[0] = bool(case.get("precache"))
    try:
        res = _run_tree(case["tree"], case.get("flow"), case.get("redeliver"))
        if case.get("variants"):
            res["variants"] = [_run_tree(v, None, full=False)["nodes"] for v in case["variants"]]
        return res
    finally:
        os.chdir(cwd)
        shutil.rmtree(tmp, ignore_errors=True)


# ------------------------------------------------------------------------------------------------
# oracle: the statement of the property, evaluated on what the real code did

def cone(tree, path):
    """What encloses and precedes the node at `path` (list of child indices): for every enclosing sequence its
    kind and its earlier children in full, for every enclosing Split nothing but the fact."""
    out = []
    node = tree
    for i in path:
        if node["k"] == "seq":
            out.append(["seq", node["c"][:i]])
        else:
            out.append(["split"])
        node = node["c"][i]
    return out, node


def paths(tree, prefix=()):
    yield prefix
    for i, c in enumerate(tree.get("c", ())):
        for p in paths(c, prefix + (i,)):
            yield p


def _erase_names(pairs):
    """the flow with the five output keys of MakeFilename erased (an empty `output`, an empty context and bare data
    are not distinguished: MakeFilename creates them when it sets a name)"""
    out = []
    for d, c in pairs:
        if c is not None:
            c = copy.deepcopy(c)
            o = c.get("output")
            if isinstance(o, dict):
                for k in MKF_KEYS:
                    o.pop(k, None)
                if not o:
                    del c["output"]
        out.append([d, c or None])
    return out


_HR = re.compile(r"hr\d+$")


def _is_hr(k):
    """a mark left by a hostile run-time element"""
    return bool(_HR.match(k))


def _cmp(kind, idx, node, exp, got, fields=("seen", "name", "get")):
    for field in fields:
        if field in exp:
            e, g = exp[field], got.get(field)
            if field == "get" and isinstance(e, dict) and set(e) == {"e"}:
                keys = exp.get("alts") or [e["e"]]
                if not (isinstance(g, dict) and g.get("cls") == "LenaKeyError"):
                    return (f"node #{idx} {node}: the key '{e['e']}' cannot be resolved in the prefix, "
                            f"_get_context must raise LenaKeyError naming it, got {g}")
                if not any(re.search(r"(?<![\w.])" + re.escape(k) + r"(?![\w.])", g.get("msg", "")) for k in keys):
                    return f"node #{idx} {node}: LenaKeyError does not name a missing key {keys}: {g.get('msg')}"
                continue
            if e != g:
                what = {"seen": "static context received", "name": "derived name", "get": "exported context"}[field]
                return f"node #{idx} {node}: {what} is {g}, prefix fold gives {e}"
    return None


def oracle(case, res):
    tree = case["tree"]
    ref = Ref(tree)
    nodes = preorder(tree)
    recs = res["nodes"]
    hostile = [i for i, nd in enumerate(nodes) if nd["k"] in ("hset", "hrun")]
    toks = tokens(tree) if hostile else {}
    tok_of = [toks.get(p) for p in paths(tree)] if hostile else []
    # (1) prefix fold, Split exports the intersection, unresolved keys surface.  The names of MakeFilename / Write /
    # Cache are compared with what a fresh element of the same class derives from the reference fold.
    fresh = res.get("fresh_names") or {}
    for idx, (node, got) in enumerate(zip(nodes, recs)):
        exp = ref.exp.get(idx)
        if exp is None:
            continue
        if hostile and node["k"] in ("ucfs", "mkf"):
            # an element that was handed the very dictionary a hostile element later updates in place may show the
            # hostile key (lena hands one object to consecutive elements); nothing else may
            mine = ["hz%d" % h for h in hostile if nodes[h]["k"] == "hset" and tok_of[h] == tok_of[idx]]
            g2 = dict(got)
            e2 = dict(exp)
            for fld in ("seen",):
                if isinstance(g2.get(fld), dict):
                    g2[fld] = _unmark(g2[fld], lambda k: k in mine)
                    e2[fld] = _unmark(e2[fld], lambda k: k in mine)
            msg = _cmp("fold", idx, node, e2, g2, fields=("seen",))
        elif node["k"] in ("mkf", "write", "cache") and not hostile:
            msg = _cmp("fold", idx, node, exp, got, fields=("seen",))
            if msg is None and str(idx) in fresh:
                msg = (f"node #{idx} {node}: derived name is {got.get('name')}, a fresh element handed the prefix fold "
                       f"derives {fresh[str(idx)]}")
        else:
            msg = _cmp("fold", idx, node, exp, got, fields=("seen", "get") if hostile else ("seen", "name", "get"))
        if msg:
            return msg
    # (1b) what _get_context() returns belongs to the caller: updating it in place changes nothing
    if res.get("nodes_scribbled") is not None:
        for idx, (node, before, aft) in enumerate(zip(nodes, recs, res["nodes_scribbled"])):
            if before != aft:
                return (f"node #{idx} {node}: updating in place the dictionaries returned by _get_context() changed what "
                        f"it holds: before {before}, after {aft}")
    # (2) no leak: the flow is the one of the tree without its SetContext elements in which every
    # UpdateContextFromStatic / MakeFilename was handed the prefix fold of its position
    got = res.get("out")
    if got is not None and "e" in got and not hostile:
        return f"running the flow raised {got}"
    if got is not None and res.get("neutral") not in (None, "="):
        if res["neutral"] != got:
            return (f"run-time result {got} differs from {res['neutral']}, the result of the same tree without its "
                    f"SetContext elements whose UpdateContextFromStatic / MakeFilename were handed the prefix fold "
                    f"(static context leaked or was lost)")
    # (2a') MakeFilename depends on static context only through the fields its format strings name
    if got is not None and res.get("neutral1") not in (None, "=") and res["neutral1"] != got:
        return (f"run-time result {got} differs from {res['neutral1']}, the result when every MakeFilename is handed "
                f"only the part of the static context that its format strings name (static context leaked through "
                f"MakeFilename)")
    # (2a) frame of MakeFilename: what it derives from static context reaches the run-time contexts only as
    # output.prefix / suffix / filename / dirname / fileext — with those keys erased, the flow is the one of the tree
    # in which every MakeFilename was handed a static context with the same keys and other scalar values
    if got is not None and res.get("neutral0") not in (None, "=") and "r" in got and "r" in res["neutral0"]:
        a, b = _erase_names(got["r"]), _erase_names(res["neutral0"]["r"])
        if a != b:
            return (f"run-time result {got['r']}: outside output.prefix/suffix/filename/dirname/fileext it differs from "
                    f"{res['neutral0']['r']}, the result when every MakeFilename is handed a static context with the same "
                    f"keys and other values (static context leaked through MakeFilename)")
    # (2b) run-time values never leak back: after the run every element holds what it held before
    if res.get("nodes_after") is not None:
        for idx, (node, before, aft) in enumerate(zip(nodes, recs, res["nodes_after"])):
            if hostile:
                # a hostile element that updates at run time the dictionary it was handed: the elements that were
                # handed the same object show it (hr keys), and the sequences whose _static_context it is
                shared = any(nodes[h]["k"] == "hrun" and tok_of[h] == tok_of[idx] for h in hostile)
                if node["k"] in ("seq", "split") and any(nodes[h]["k"] == "hrun" and idx < h < idx + len(preorder(node))
                                                         for h in hostile):
                    # the dictionary that the hostile element rewrites is (part of) what this node exports: the
                    # marks sit inside nested values, which an intersection then drops
                    continue
                if node["k"] in ("seq", "split") or (node["k"] in ("ucfs", "mkf") and shared):
                    before = {k: _unmark(v, _is_hr) for k, v in before.items()}
                    aft = {k: _unmark(v, _is_hr) for k, v in aft.items()}
            if before != aft:
                return (f"node #{idx} {node}: static state changed by running the flow {case.get('flow')}: "
                        f"before {before}, after {aft}")
    # (2c) an enclosing sequence delivers a context: the fold started from it
    if res.get("redelivered") is not None and len(case["redeliver"]) == 1 and not hostile:
        ref2 = Ref(tree, start=case["redeliver"][0])
        for idx, (node, got2) in enumerate(zip(nodes, res["redelivered"]["nodes"])):
            exp = ref2.exp.get(idx)
            if exp is None:
                continue
            msg = _cmp("fold", idx, node, exp, got2, fields=("seen", "get"))
            if msg:
                return f"after _set_context({case['redeliver'][0]}) of the whole tree: " + msg
    # (2c') the constructed tree is placed into a SECOND enclosing sequence (element re-use): a delivery that reaches
    # every element (no formatting key unresolved, no element handed an empty context, which lena skips) leaves no
    # memory of the earlier one — every element holds the fold started from the LAST delivered context, and the
    # names are those that fresh elements derive from it
    if res.get("redelivered") is not None and len(case["redeliver"]) >= 2 and not hostile:
        ref2 = Ref(tree, start=case["redeliver"][-1])
        if ref2.top[0] == "ok" and not ref2.empty_in and not ref2.dict_rendered:
            fresh2 = res["redelivered"].get("fresh_names") or {}
            for idx, (node, got2) in enumerate(zip(nodes, res["redelivered"]["nodes"])):
                exp = ref2.exp.get(idx)
                if exp is None:
                    continue
                msg = _cmp("fold", idx, node, exp, got2, fields=("seen", "get"))
                if msg is None and node["k"] in ("mkf", "write", "cache") and str(idx) in fresh2:
                    tpl = parse_template(node["fmt"]) if node["k"] != "mkf" else None
                    resolvable = True
                    if tpl is not None:
                        try:
                            ref_format(tpl, ref2.seen_at[idx])
                        except (RefKeyError, DictRendered):
                            resolvable = False      # Write / Cache keep the name they had
                    if resolvable and fresh2[str(idx)] != got2.get("name"):
                        msg = (f"node #{idx} {node}: derived name is {got2.get('name')}, a fresh element handed the "
                               f"prefix fold derives {fresh2[str(idx)]}")
                if msg:
                    return (f"after _set_context of the whole tree with {case['redeliver'][0]} and then "
                            f"{case['redeliver'][-1]} (the tree is placed into a second enclosing sequence): " + msg)
    # (2d) without MakeFilename the flow is fully determined by the statement: static context enters the run-time
    # context through UpdateContextFromStatic alone, as a recursive update with the prefix fold of its position
    if got is not None and "r" in got and not hostile and case.get("flow") is not None \
            and not any(nd["k"] == "mkf" for nd in nodes) and consumers_defined(tree, ref.exp):
        try:
            flow = [(i, copy.deepcopy(c)) for i, c in enumerate(case["flow"])]
            want = [[d, c] for d, c in ref_run(tree, ref.exp, 0, flow)[0]]
        except (Unmodelled, DictRendered):
            want = None
        if want is not None and want != [list(x) for x in got["r"]]:
            return (f"run-time result {got['r']} differs from {want}: every UpdateContextFromStatic updates the "
                    f"run-time context recursively with the prefix fold of its position, nothing else reads static "
                    f"context")
    # (3) causality: equal cones => equal observations, across the tree and its variants
    if case.get("variants"):
        table = {}
        for t, rs in [(tree, recs)] + list(zip(case["variants"], res["variants"])):
            for p, got in zip(paths(t), rs):
                cn, node = cone(t, p)
                if node["k"] not in PROBES:
                    continue
                key = repr((cn, node))
                obs = {f: got.get(f) for f in ("seen", "name") if f in got}
                if key in table and table[key][0] != obs:
                    return (f"causality: {node} with the same enclosing/preceding elements saw {table[key][0]} in "
                            f"{table[key][1]} but {obs} in {t}")
                table.setdefault(key, (obs, t))
    return None


# ------------------------------------------------------------------------------------------------
# model side

OUT_KEYS = ["output", "filename", "prefix", "suffix", "dirname", "fileext"]


def _ctx_keys(c, acc):
    if isinstance(c, dict):
        for k, v in c.items():
            acc.add(k)
            _ctx_keys(v, acc)


def alphabet(case):
    """the key alphabet of the case: every key (component) that can occur in a context, sorted"""
    acc = set(OUT_KEYS)
    for node in preorder(case["tree"]):
        if node["k"] in ("set", "mut"):
            acc.update(node["key"].split("."))
            _ctx_keys(node["val"], acc)      # a dictionary constant: SetContext("data", {"detector": "far"})
        for t in node_templates(node):
            for f in (parse_template(t) or [])[1::2]:
                acc.update(p for p in f.split(".") if p)
    for c in (case.get("flow") or []) + SRC_FLOW + (case.get("redeliver") or []):
        _ctx_keys(c, acc)
    return sorted(acc)


def _enc_tpl(tpl, ix):
    out = []
    for i, x in enumerate(tpl):
        out.append(x if i % 2 == 0 else [ix[p] for p in x.split(".") if p])
    return out


def _enc_leaf(node, ix):
    k = node["k"]
    if k == "set":
        v = node["val"]
        tpl = parse_template(v) if isinstance(v, str) else None
        return {"k": "set", "key": [ix[p] for p in node["key"].split(".")], "val": _encv(v) if tpl is None else None,
                "tpl": None if tpl is None else _enc_tpl(tpl, ix)}
    def enc(fmt):
        tpl = parse_template(fmt)
        return _enc_tpl(tpl, ix) if tpl is not None else [fmt]
    if k == "mkf":
        return {"k": k, "methods": [[key, enc(fmt)] for key, fmt in mkf_methods(node)],
                "overwrite": bool(node.get("overwrite"))}
    if k in ("write", "cache"):
        return {"k": k, "tpl": enc(node["fmt"])}
    if k in ("fc", "fr", "app"):
        # (a tree with an `app` element is modelled for static context only: no flow is sent)
        return {"k": "data"}
    if k == "mut":
        return {"k": k, "key": [ix[p] for p in node["key"].split(".")], "val": _encv(node["val"])}
    return {"k": k}


def enc_tree(node, ix):
    if node["k"] == "seq":
        return {"k": "seq", "kind": "Source" if node["kind"] == "Source" else "Sequence",
                "c": [enc_tree(c, ix) for c in node["c"]]}
    if node["k"] == "split":
        return {"k": "split", "c": [enc_tree(c, ix) for c in node["c"]]}
    return _enc_leaf(node, ix)


def has_hostile(tree):
    return any(nd["k"] in ("hset", "hrun") for nd in preorder(tree))


def has_app(tree):
    return any(nd["k"] == "app" for nd in preorder(tree))


def _enc_flow(flow):
    return None if flow is None else [None if c is None else _encv(c) for c in flow]


def model_requests(case):
    if has_hostile(case["tree"]):
        # an element that updates in place the dictionary it is handed is outside the value model (and outside the
        # property's leaves): such trees are judged by the oracle alone
        return []
    names = alphabet(case)
    ix = {nm: i for i, nm in enumerate(names)}
    req = {"op": "build", "names": names, "out": [ix[k] for k in OUT_KEYS], "tree": enc_tree(case["tree"], ix),
           "flow": None if has_app(case["tree"]) else _enc_flow(case.get("flow")), "src": SRC_FLOW}
    if case.get("redeliver"):
        req["redeliver"] = [_encv(c) for c in case["redeliver"]]
    return [req]


def _strip(node, rec):
    """the implementation's record of a node in the vocabulary of the model's reply"""
    rec = dict(rec)
    rec.pop("alts", None)
    if isinstance(rec.get("get"), dict) and "cls" in rec["get"]:
        g = rec["get"]
        rec["get"] = {"e": g["e"]} if g["cls"] == "LenaKeyError" else {"other": g["cls"]}
    elif isinstance(rec.get("get"), dict) and set(rec["get"]) != {"e"}:
        rec["get"] = _encv(rec["get"])
    if isinstance(rec.get("seen"), dict):
        rec["seen"] = _encv(rec["seen"])
    if node["k"] in ("write", "cache"):
        rec["name"] = {"unformatted": True} if rec["name"] == node["fmt"] else rec["name"]
    return rec


def py_covers(tree, ctx):
    """the delivery of ctx to the constructed tree reaches every element: no formatting key of a SetContext, Write
    or Cache is unresolved and no element with _set_context is handed an empty context (the Python twin of `covers`)"""
    ref = Ref(tree, start=ctx)
    if ref.top[0] != "ok" or ref.empty_in:
        return False
    for idx, node in enumerate(preorder(tree)):
        if node["k"] in ("write", "cache"):
            tpl = parse_template(node["fmt"])
            if tpl is not None:
                try:
                    ref_format(tpl, ref.seen_at[idx])
                except RefKeyError:
                    return False
    return True


def _id_check(tree, ids, toks):
    """identity claims: two different elements may hold the same dictionary object (or share a sub-dictionary)
    only if the model hands them the same token — StoreContext and SetContext never share, elements below different
    branches of a Split never share (`split_branches_independent`)"""
    nodes = preorder(tree)
    owner = {}
    for i, cls in enumerate(ids):
        for c in cls:
            owner.setdefault(c, []).append(i)
    for c, who in owner.items():
        for a in who:
            for b in who:
                if a >= b:
                    continue
                ka, kb = nodes[a]["k"], nodes[b]["k"]
                if "store" in (ka, kb) or "set" in (ka, kb):
                    return (f"nodes #{a} {nodes[a]} and #{b} {nodes[b]} hold the same dictionary object: a "
                            f"{'StoreContext' if 'store' in (ka, kb) else 'SetContext'} keeps a private copy")
                if ka in ("ucfs", "mkf") and kb in ("ucfs", "mkf") and toks[a] != toks[b]:
                    return (f"nodes #{a} {nodes[a]} and #{b} {nodes[b]} hold the same dictionary object but the model "
                            f"hands them different objects ({toks[a]} / {toks[b]})")
    return None


def compare(case, res, replies):
    if not replies:
        return None
    m = replies[0]
    if "err" in m:
        return f"model driver error: {m['err']}"
    got = [_strip(n, r) for n, r in zip(preorder(case["tree"]), res["nodes"])]
    if got != m["nodes"]:
        for i, (a, b) in enumerate(zip(got, m["nodes"])):
            if a != b:
                return f"node #{i}: impl {a} vs model (build/setCtx/getCtx) {b}"
        return f"impl has {len(got)} nodes, model {len(m['nodes'])}"
    # the model's specification (fold, ctxAt, leafFinal, cone, runRef, runPlain) against the harness's
    # independent Python reference, and against the model's own protocol (what the theorems state)
    tree = case["tree"]
    ref = Ref(tree)
    want = _encv(ref.top[1]) if ref.top[0] == "ok" else {"e": ref.top[1]}
    if m["fold"] != want:
        return f"model fold {m['fold']} vs reference prefix fold {want}"
    nodes = preorder(tree)
    # closed form (final / histOfCone) against the transcribed protocol: null = equal (build_eq_final, final_at)
    for fld in ("closed", "closed_at"):
        if m.get(fld) is not None:
            for i, (a, b) in enumerate(zip(m[fld], m["nodes"])):
                if a != b:
                    return f"node #{i}: model {fld} form {a} vs model protocol {b} (build_eq_final / final_at)"
            return f"model {fld} form differs from the model protocol in length"
    for i, (node, sp) in enumerate(zip(nodes, m["spec"])):
        if sp == "=":
            sp = m["nodes"][i]
        exp = ref.exp.get(i)
        if (exp is None) != (sp is None):
            return f"node #{i}: model spec (ctxAt) {sp} vs reference fold {exp}: one of them is undefined"
        if sp is None:
            continue
        if _strip(node, exp) != sp:
            return f"node #{i}: model spec (ctxAt/leafFinal/fold) {sp} vs reference fold {_strip(node, exp)}"
        if sp != m["nodes"][i]:
            return f"node #{i}: model spec {sp} vs model protocol {m['nodes'][i]} (seen_is_prefix_fold)"
    if not m.get("no_bad"):
        return "the model's state contains a rendered dictionary (Leaf.bad): the case is outside the model's domain"
    if not m.get("vals_wf"):
        return "a dictionary constant of the program is not a dictionary over the case's alphabet (Tree.valsWF)"
    pytok = tokens(tree)
    for pth, cn, tk in zip(paths(tree), m["cones"], m["toks"]):
        py = [[st[0], len(st[1])] if st[0] == "seq" else ["split"] for st in cone(tree, pth)[0]]
        if py != cn:
            return f"path {pth}: model cone {cn} vs harness cone {py}"
        if [list(pytok[pth][0]), pytok[pth][1]] != tk:
            return f"path {pth}: model token {tk} vs harness token {pytok[pth]}"
    if res.get("ids") is not None:
        msg = _id_check(tree, res["ids"], m["toks"])
        if msg:
            return msg
    if res.get("redelivered") is not None:
        mr = m.get("redelivered") or {}
        gotr = [_strip(nd, r) for nd, r in zip(nodes, res["redelivered"]["nodes"])]
        if mr.get("nodes") != gotr or mr.get("raised") != res["redelivered"]["raised"]:
            for i, (a, b) in enumerate(zip(gotr, mr.get("nodes") or [])):
                if a != b:
                    return f"after _set_context({case['redeliver']}): node #{i}: impl {a} vs model (setCtx) {b}"
            return (f"after _set_context({case['redeliver']}): raised impl {res['redelivered']['raised']} vs model "
                    f"{mr.get('raised')}")
        # the model's `covers` (hypothesis of delivery_memoryless / reuse_memoryless) against the harness's own
        # notion of "the last delivery reaches every element"; the theorem's closed form against the protocol
        if mr.get("covers") != py_covers(tree, case["redeliver"][-1]):
            return (f"after _set_context({case['redeliver']}): model covers {mr.get('covers')} vs harness "
                    f"{py_covers(tree, case['redeliver'][-1])}")
        if mr.get("final_last") is not None:
            return (f"after _set_context({case['redeliver']}): model final t [c] {mr['final_last']} vs model protocol "
                    f"{mr.get('nodes')} (reuse_memoryless)")
    if res.get("out") is not None and not has_app(tree):
        o = res["out"]
        mo = m.get("out") or {}
        if "e" in o:
            return f"run: impl raised {o}, model (run) {mo}"
        got_r = [[x[0], None if x[1] is None else _encv(x[1])] for x in o["r"]]
        if mo.get("r") != got_r:
            return f"run: impl {got_r} vs model (run) {mo}"
        if consumers_defined(tree, ref.exp):
            flow = [(i, copy.deepcopy(c)) for i, c in enumerate(case.get("flow") or [])]
            exp_out = [[d, None if c is None else _encv(c)] for d, c in ref_run(tree, ref.exp, 0, flow)[0]]
            if mo.get("ref") != exp_out:
                return f"run: model runRef {mo.get('ref')} vs reference run {exp_out}"
            if mo.get("ref") != mo.get("r"):
                return f"run: model runRef {mo.get('ref')} vs model run {mo.get('r')} (no_leak)"
        lin = not any(nd["k"] == "src" or (nd["k"] == "split" and nd["c"]) for nd in nodes)
        if mo.get("linear") != lin:
            return f"model linear {mo.get('linear')} is wrong"
        if lin and mo.get("itemwise") != mo.get("r"):
            return f"run: model value-by-value {mo.get('itemwise')} vs model run {mo.get('r')} (run_values_independent)"
        if mo.get("no_consumer") != (not any(nd["k"] in ("ucfs", "mkf") for nd in nodes)):
            return f"model noConsumer {mo.get('no_consumer')} is wrong"
        if mo.get("no_consumer") and mo.get("plain") != mo.get("r"):
            return f"run: model runPlain {mo.get('plain')} vs model run {mo.get('r')} (no_leak_without_consumer)"
    return None


# ------------------------------------------------------------------------------------------------
# generators

KEYS = ["a", "b", "c", "a.x", "a.y", "b.y", "a.x.y", "a.x.z"]
CONSTS = [1, 2, "s", "t", 0, -3]
# constants that are not ints or strings: lists are MUTABLE (whoever shares one with the static context can rewrite it)
OPAQUE = [["trigger"], [1, [2]], [{"n": 1}], 2.5, None]
FIELDS = ["a", "b", "c", "a.x", "b.y", "zz", "a.zz", "a.x.y"]
# DICTIONARY constants: SetContext(key, {...}) gives a subcontext at once.  The update is recursive
# (update_recursively): the dictionary is merged into what earlier elements put below the key, it replaces only a
# scalar.  Empty, flat, nested, with opaque leaves; dot-less and dotted keys that address the subtrees of KEYS/FIELDS.
DICT_SETS = [("a", {}), ("a", {"x": 1}), ("a", {"y": "s"}), ("a", {"x": {"y": 2}}), ("a", {"x": {}, "zz": "t"}),
             ("a", {"x": {"z": 0, "y": "s"}, "y": ["trigger"]}), ("a", {"zz": 1, "y": None}), ("a", {"x": 2, "y": 2}),
             ("a.x", {}), ("a.x", {"y": 1}), ("a.x", {"z": "t", "y": 2}), ("b", {"y": 3}), ("b", {}),
             ("b", {"y": {"w": 1}}), ("c", {"k": 0}), ("b", {"y": "o", "zz": 2.5})]


def _tpl(rng):
    f = rng.choice(FIELDS)
    r = rng.random()
    if r < 0.6:
        return "{{%s}}_f" % f
    if r < 0.8:
        return "{{%s}}" % f
    return "p{{%s}}-{{%s}}" % (f, rng.choice(FIELDS))


def rand_mkf(rng):
    """MakeFilename with a file name only (mostly), or any legal combination of filename / dirname / fileext /
    prefix / suffix (a file name excludes prefix and suffix), sometimes overwriting"""
    r = rng.random()
    if r < 0.6:
        return {"k": "mkf", "fmt": _tpl(rng) if rng.random() < 0.9 else "plain"}
    node = {"k": "mkf", "fmt": None}
    if r < 0.8:
        node["fmt"] = _tpl(rng)
        keys = [k for k in ("dirname", "fileext") if rng.random() < 0.6]
    else:
        keys = [k for k in ("prefix", "suffix", "dirname", "fileext") if rng.random() < 0.5] or ["prefix"]
    for k in keys:
        node[k] = {"prefix": "P", "suffix": "S", "dirname": "D", "fileext": "e"}[k] + (_tpl(rng) if rng.random() < 0.8 else "")
    if rng.random() < 0.25:
        node["overwrite"] = True
    return node


OUT_STATIC_KEYS = ["output.prefix", "output.suffix", "output.filename", "output.dirname", "output.fileext"]


def rand_leaf(rng, pformat=0.3):
    r = rng.random()
    if r < 0.42:
        if rng.random() < 0.12:
            # a static key that MakeFilename's bookkeeping must not take for a run-time one
            return {"k": "set", "key": rng.choice(OUT_STATIC_KEYS), "val": rng.choice(["SP_", "_SS", "st", "s"])}
        if rng.random() < 0.12:
            return {"k": "set", "key": rng.choice(KEYS), "val": copy.deepcopy(rng.choice(OPAQUE))}
        if rng.random() < 0.15:
            key, val = rng.choice(DICT_SETS)
            return {"k": "set", "key": key, "val": copy.deepcopy(val)}
        v = _tpl(rng) if rng.random() < pformat else rng.choice(CONSTS)
        return {"k": "set", "key": rng.choice(KEYS), "val": v}
    if r < 0.58:
        return {"k": "store"}
    if r < 0.68:
        return {"k": "ucfs"}
    if r < 0.78:
        return rand_mkf(rng)
    if r < 0.85:
        return {"k": "write", "fmt": "o_" + _tpl(rng) if rng.random() < 0.9 else "outdir"}
    if r < 0.92:
        return {"k": "cache", "fmt": ("d/" if rng.random() < 0.1 else "") +
                ("c_" + _tpl(rng) + ".pkl" if rng.random() < 0.9 else "c.pkl")}
    if r < 0.95:
        if rng.random() < 0.3:
            return {"k": "app"}
        return {"k": "mut", "key": rng.choice(KEYS),
                "val": copy.deepcopy(rng.choice(OPAQUE)) if rng.random() < 0.15 else rng.choice(CONSTS)}
    if r < 0.975:
        return {"k": rng.choice(["hset", "hrun"])}
    return {"k": "data"}


NO_DATA = ("set", "store")


ANCHOR = {"FillComputeSeq": "fc", "FillRequestSeq": "fr"}


def anchor_of(node):
    """the leaf kind that a sequence node cannot lose: src of a Source, the fill/compute (fill/request) element of a
    FillComputeSeq / FillRequestSeq or of a tuple that Split turns into one"""
    if node["k"] != "seq":
        return None
    if node["kind"] == "Source":
        return "src"
    if node["kind"] in ANCHOR:
        return ANCHOR[node["kind"]]
    if node["kind"] == "tuple":
        for c in node["c"]:
            if c["k"] in ("fc", "fr"):
                return c["k"]
    return None


def _branch_type(b):
    a = anchor_of(b) if b["k"] == "seq" else (b["k"] if b["k"] in ("fc", "fr") else None)
    return a if a in ("fc", "fr") else "other"


def normalise(tree):
    """A Split all of whose branches are of fill/compute (fill/request) type has `fill` and `compute` (`request`)
    itself, so that a tuple containing it would be taken for a FillComputeSeq with that Split as its element: such
    Splits get one more, empty, Sequence branch (in place)."""
    for parent in preorder(tree):
        if parent["k"] == "seq" and parent["kind"] in ("tuple", "FillComputeSeq", "FillRequestSeq"):
            for nd in parent["c"]:
                if nd["k"] == "split" and nd["c"]:
                    types = set(_branch_type(b) for b in nd["c"])
                    if types in ({"fc"}, {"fr"}):
                        nd["c"].append({"k": "seq", "kind": "Sequence", "c": []})
    return tree


def static_only(tree):
    """True if the tree contains a fill/compute or fill/request element: its run-time behaviour (fill, compute,
    request) is the subject of C03/C05/C16; only its static context is checked here"""
    return any(nd["k"] in ("fc", "fr") for nd in preorder(tree))


def rand_seq(rng, depth, kind, nmax=4, pformat=0.3):
    """a sequence node of the given kind with children of depth < depth"""
    if kind == "elem":
        while True:
            leaf = rand_leaf(rng, pformat)
            if leaf["k"] != "data" or rng.random() < 0.3:
                return {"k": "seq", "kind": "elem", "c": [leaf]}
    if kind in ANCHOR or kind == "tuple-fc":
        # only callable or data-less elements can stand before the fill/compute (fill/request) element
        pre = []
        for _ in range(rng.randint(0, 2)):
            leaf = rand_leaf(rng, pformat)
            if leaf["k"] in ("set", "store", "data", "mkf", "mut", "app"):
                pre.append(leaf)
        anchor = {"k": ANCHOR.get(kind) or rng.choice(["fc", "fc", "fr"])}
        post = [rand_tree(rng, depth - 1, pformat) for _ in range(rng.randint(0, nmax))]
        return {"k": "seq", "kind": "tuple" if kind == "tuple-fc" else kind, "c": pre + [anchor] + post}
    n = rng.randint(0, nmax)
    cs = [rand_tree(rng, depth - 1, pformat) for _ in range(n)]
    if kind == "Source":
        # the first data element of a Source is the `src` leaf
        pos = 0
        while pos < len(cs) and cs[pos]["k"] in NO_DATA and rng.random() < 0.7:
            pos += 1
        cs = [c for c in cs[:pos] if c["k"] in NO_DATA] + [{"k": "src"}] + cs[pos:]
    return {"k": "seq", "kind": kind, "c": cs}


def rand_tree(rng, depth, pformat=0.3):
    r = rng.random()
    if depth <= 0 or r < 0.5:
        return rand_leaf(rng, pformat)
    if r < 0.78:
        return rand_seq(rng, depth, "Sequence", pformat=pformat)
    nb = rng.randint(0, 3) if rng.random() < 0.1 else rng.randint(1, 3)
    bs = []
    for _ in range(nb):
        kind = rng.choice(["Sequence", "Sequence", "Sequence", "Sequence", "tuple", "Source", "Source", "elem",
                           "FillComputeSeq", "FillRequestSeq", "tuple-fc", "bare"])
        if kind == "bare":
            bs.append({"k": rng.choice(["fc", "fr"])})
            continue
        b = rand_seq(rng, depth - 1, kind, nmax=3, pformat=pformat)
        if kind == "tuple" and not b["c"]:
            b["kind"] = "Sequence"
        bs.append(b)
    return {"k": "split", "c": bs}


def rand_top(rng, depth=3, pformat=0.3):
    r = rng.random()
    kind = "Source" if r < 0.3 else ("FillComputeSeq" if r < 0.36 else "Sequence")
    t = rand_seq(rng, depth, kind, nmax=5, pformat=pformat)
    return t


def mutate_after(rng, tree, path, pformat):
    """a variant of `tree` that keeps everything enclosing and preceding the node at `path`: later siblings at
    every level and sibling branches of enclosing Splits are replaced / dropped / added"""
    t = copy.deepcopy(tree)
    node = t
    for i in path:
        if node["k"] == "seq":
            keep = node["c"][:i + 1]
            tail = node["c"][i + 1:]
            anc = anchor_of(node)
            if anc and not any(c["k"] == anc for c in keep):
                # the source (fill/compute, fill/request) element comes later: keep the elements up to it (the
                # sequence cannot be constructed without it, and only certain leaves can stand before it)
                j = next(j for j, c in enumerate(tail) if c["k"] == anc)
                keep, tail = keep + tail[:j + 1], tail[j + 1:]
            r = rng.random() if node["kind"] != "elem" else 1.0
            if r < 0.4:
                tail = [rand_tree(rng, 1, pformat) for _ in range(rng.randint(0, 2))]
            elif r < 0.7 and tail:
                tail[rng.randrange(len(tail))] = rand_tree(rng, 1, pformat)
            elif r < 0.85:
                tail = tail + [rand_leaf(rng, pformat)]
            # a Source variant must not get a second source element: data elements after src are fine
            node["c"] = keep + tail
        else:
            for j in range(len(node["c"])):
                if j != i and rng.random() < 0.7:
                    kind = node["c"][j].get("kind", "Sequence")
                    node["c"][j] = rand_seq(rng, 1, kind if kind not in ("tuple", "elem") else "Sequence", nmax=3,
                                            pformat=pformat)
            if rng.random() < 0.3:
                node["c"].append(rand_seq(rng, 1, "Sequence", nmax=2, pformat=pformat))
        node = node["c"][i]
    return t


def _dict_paths(c, prefix, acc):
    """the paths of c at which a formatting field would render something that is not an int or a string"""
    if isinstance(c, dict):
        acc.add(prefix)
        for k, v in c.items():
            _dict_paths(v, (prefix + "." + k) if prefix else k, acc)
    elif not _is_plain(c):
        acc.add(prefix)


def _renders_dict(tree, flow=None):
    """True if some formatting field of the tree could resolve to a dictionary in some pass of the real
    protocol, or when `flow` is run (outside the generated domain: the model does not describe `str(dict)`).
    Conservative and syntactic: a field that is a proper prefix of a SetContext key, or (for MakeFilename, which
    also formats from the run-time context) a dictionary-valued path of a flow context."""
    dicts, mkf_fields = set(), set()
    for nd in preorder(tree):
        # in every pass an element sees only what precedes it in document order: a field can resolve to a
        # dictionary only if an EARLIER SetContext (or hostile element) made one at that path
        for t in node_templates(nd):
            for f in (parse_template(t) or [])[1::2]:
                f = ".".join(p for p in f.split(".") if p)
                if f == "" or f in dicts:
                    return True
                if nd["k"] == "mkf":
                    mkf_fields.add(f)
        if nd["k"] == "set":
            parts = nd["key"].split(".")
            for i in range(1, len(parts)):
                dicts.add(".".join(parts[:i]))
            if not (_is_plain(nd["val"])):
                # an opaque value (list, float, None): str() of it is not modelled; a dictionary constant: the
                # key and every dictionary / opaque value inside it
                _dict_paths(nd["val"], nd["key"], dicts)
    if flow is not None:
        rt = set()
        for c in list(flow) + SRC_FLOW:
            _dict_paths(c, "", rt)
        rt.discard("")
        rt.add("output")
        rt |= dicts                     # an UpdateContextFromStatic may bring any static dictionary into the flow
        for nd in preorder(tree):
            if nd["k"] == "mut":          # a run-time mutator creates the dictionaries above its key
                parts = nd["key"].split(".")
                for i in range(1, len(parts)):
                    rt.add(".".join(parts[:i]))
                if not _is_plain(nd["val"]):
                    rt.add(nd["key"])
        if mkf_fields & rt:
            return True
        try:
            ref = Ref(tree)
            if consumers_defined(tree, ref.exp):
                ref_run(tree, ref.exp, 0, [(i, copy.deepcopy(c)) for i, c in enumerate(flow)])
        except (DictRendered, Unmodelled):
            return True
    return False


FLOWS = [[{"r": 0}], [{"r": 0}, {"a": "rt", "r": 1}], [], [{"output": {"filename": "given"}}, {"b": {"y": 7}}],
         [{"output": {"prefix": "P_", "suffix": "_S", "x": 1}, "c": "rc"}, {"output": {"suffix": ""}, "a": {"x": 5}}],
         [{}, {}, {}], [{"r": 0}, {"c": "rc"}, {"r": 2}],
         [{}, {"output": {"prefix": "R_", "suffix": "_R"}}, {"c": "rc"}],
         [None, {"a": {"x": {"z": 3}}}, None], [None, {}, {"r": 1}],
         [{"c": ["c0"]}, {}, {"a": {"x": [0]}, "r": 2}]]


REDELIVER = [{"a": 5}, {"zz": "q"}, {"a": {"x": 7}, "c": 0}, {"b": "o"}, {"a": {"zz": 1}},
             {"a": 6, "b": "p"}, {"zz": "r", "a": {"x": 8}}, {"a": 7, "b": "o", "c": ["k"]}]


def _redeliver_ok(tree, ctxs):
    """no formatting field of the tree names a dictionary of the delivered contexts (dictionary rendering)"""
    dp = set()
    for c in ctxs:
        _dict_paths(c, "", dp)
    for nd in preorder(tree):
        for t in node_templates(nd):
            for f in (parse_template(t) or [])[1::2]:
                if ".".join(p for p in f.split(".") if p) in dp:
                    return False
    return True


def _flow_for(tree, flow):
    """the flow to run through the tree, or None: two Caches could write the same file (C18's subject), or the
    flow would make an element render a dictionary"""
    if sum(1 for nd in preorder(tree) if nd["k"] == "cache") > 1 or static_only(tree):
        return None
    if any(c is None for c in flow) and any(nd["k"] == "ucfs" for nd in preorder(tree)):
        # UpdateContextFromStatic.run unpacks `data, context = val`: bare data cannot pass it
        flow = [c for c in flow if c is not None]
    if _renders_dict(tree, flow):
        return None
    return flow


def rand_case(rng, depth=3, pformat=0.3, nvariants=2):
    for _ in range(50):
        tree = normalise(rand_top(rng, depth, pformat))
        if _renders_dict(tree):
            continue
        case = {"tree": tree, "flow": _flow_for(tree, rng.choice(FLOWS))}
        if rng.random() < 0.15 and any(nd["k"] == "cache" for nd in preorder(tree)):
            # the second run of the script: the caches exist when the tree is constructed
            case["precache"], case["flow"] = True, None
        ps = [p for p in paths(tree) if cone(tree, p)[1]["k"] in PROBES]
        vs = []
        if ps and nvariants and not has_hostile(tree):
            for _ in range(nvariants):
                v = normalise(mutate_after(rng, tree, rng.choice(ps), pformat))
                # (a hostile element may legitimately reach the elements that were handed the same dictionary: the
                # causality comparison is made between trees of the property's own leaves)
                if not _renders_dict(v) and not has_hostile(v):
                    vs.append(v)
        case["variants"] = vs
        if rng.random() < 0.2 and not has_hostile(tree):
            # an enclosing sequence delivers a context to the whole tree (twice: any two contexts, also ones that no
            # nesting could produce — that exercises the stale-_static_context branches of the transcription)
            rd = [copy.deepcopy(rng.choice(REDELIVER)) for _ in range(1 if rng.random() < 0.6 else 2)]
            if _redeliver_ok(tree, rd):
                case["redeliver"] = rd
        return case
    raise RuntimeError("generator: could not avoid dictionary rendering")


# exhaustive part: all trees over a small leaf alphabet

EX_LEAVES = [
    {"k": "set", "key": "a", "val": 1},
    {"k": "set", "key": "b", "val": "{{a}}_f"},
    {"k": "set", "key": "a.x", "val": 2},
    {"k": "store"},
    {"k": "ucfs"},
    {"k": "mkf", "fmt": "{{a}}_n"},
    {"k": "data"},
]
EX_LEAVES_MORE = [
    {"k": "write", "fmt": "o_{{b}}"},
    {"k": "cache", "fmt": "c_{{a}}.pkl"},
    {"k": "mut", "key": "a.y", "val": 7},
]
# leaves for dictionary constants (sampled scope, together with EX_LEAVES)
EX_DICT_LEAVES = [
    {"k": "set", "key": "a", "val": {"x": 5}},
    {"k": "set", "key": "a", "val": {}},
    {"k": "set", "key": "a", "val": {"y": {"z": 1}}},
    {"k": "set", "key": "c", "val": "{{a.x}}_g"},
    {"k": "write", "fmt": "o_{{a.x}}"},
]
# leaves for mutable constants (sampled scope)
MUT_LEAVES = [
    {"k": "set", "key": "c", "val": ["trigger"]},
    {"k": "set", "key": "a.y", "val": [1, [2]]},
    {"k": "set", "key": "a", "val": 1},
    {"k": "store"},
    {"k": "ucfs"},
    {"k": "app"},
    {"k": "mut", "key": "c", "val": [{"n": 1}]},
    {"k": "mkf", "fmt": "{{a}}_n"},
]


def seqtype_cases():
    """Directed family for the other LenaSequences and the other ways to give a Split branch: a nested Sequence with
    a SetContext, a later SetContext, probes after it, placed after (and, where allowed, data-less elements before)
    the fill/compute or fill/request element of a FillComputeSeq, a FillRequestSeq, a tuple branch that Split
    converts, and bare-element branches; stand-alone, as the only branch of a Split that starts a Sequence, next to a
    plain branch, and below a SetContext."""
    out = []
    probes = [[{"k": "ucfs"}], [{"k": "store"}, {"k": "mkf", "fmt": "{{a}}_{{b}}", "dirname": "D{{b}}"}],
              [{"k": "write", "fmt": "o_{{a}}"}, {"k": "cache", "fmt": "c_{{b}}.pkl"}]]
    for anchor, kinds in (("fc", ("FillComputeSeq", "tuple")), ("fr", ("FillRequestSeq", "tuple"))):
        for kind in kinds:
            for pr in probes:
                for pre in ([], [{"k": "set", "key": "c", "val": 0}, {"k": "data"}]):
                    body = pre + [{"k": anchor}, {"k": "seq", "kind": "Sequence", "c": [{"k": "set", "key": "b", "val": 2}]},
                                  {"k": "set", "key": "a", "val": 1}] + pr
                    node = {"k": "seq", "kind": kind, "c": body}
                    tops = [[{"k": "split", "c": [node]}],
                            [{"k": "split", "c": [node, {"k": "seq", "kind": "Sequence", "c": [{"k": "store"}]}]}, {"k": "store"}],
                            [{"k": "set", "key": "z", "val": 5}, {"k": "split", "c": [node]}, {"k": "ucfs"}]]
                    if kind != "tuple":
                        out.append({"tree": copy.deepcopy(node), "flow": None, "variants": []})
                    for cs in tops:
                        out.append({"tree": {"k": "seq", "kind": "Sequence", "c": copy.deepcopy(cs)}, "flow": None,
                                    "variants": []})
    # branches given as bare elements
    for leaf in ({"k": "store"}, {"k": "ucfs"}, {"k": "set", "key": "b", "val": 2}, {"k": "mkf", "fmt": "{{a}}"},
                 {"k": "write", "fmt": "o_{{a}}"}):
        for other in ({"k": "fc"}, {"k": "seq", "kind": "Sequence", "c": [{"k": "set", "key": "b", "val": 2}]},
                      {"k": "seq", "kind": "elem", "c": [{"k": "data"}]}):
            t = {"k": "seq", "kind": "Sequence", "c": [
                {"k": "set", "key": "a", "val": 1},
                {"k": "split", "c": [{"k": "seq", "kind": "elem", "c": [copy.deepcopy(leaf)]}, copy.deepcopy(other)]},
                {"k": "store"}]}
            out.append({"tree": t, "flow": _flow_for(t, FLOWS[1]), "variants": []})
    # existing caches when the tree is constructed (Cache hoisting in Split)
    for cs in ([{"k": "set", "key": "a", "val": 1}, {"k": "cache", "fmt": "c_{{a}}.pkl"}, {"k": "store"},
                {"k": "set", "key": "b", "val": 2}, {"k": "ucfs"}],
               [{"k": "cache", "fmt": "c.pkl"}, {"k": "seq", "kind": "Sequence", "c": [{"k": "set", "key": "b", "val": 2}]},
                {"k": "set", "key": "a", "val": 1}, {"k": "mkf", "fmt": "{{a}}_{{b}}"}]):
        for kind in ("Sequence", "tuple"):
            t = {"k": "seq", "kind": "Sequence", "c": [{"k": "split", "c": [{"k": "seq", "kind": kind, "c": copy.deepcopy(cs)}]},
                                                       {"k": "store"}]}
            out.append({"tree": t, "flow": None, "variants": [], "precache": True})
    return out


def hostile_cases():
    """Directed family for the copies the statement and its mechanism name: a hostile element (one that updates in
    place the dictionary it is handed, at construction or while the flow runs) is placed where only a missing copy
    could let it reach another element: in a Split branch next to a branch with probes and after probes of the
    enclosing sequence (LenaSplit copies per branch), after a StoreContext (it copies), directly after a SetContext
    and after a nested Sequence (their _get_context returns copies), below nested keys of depth 1-3 (deep copies)."""
    out = []
    for key in ("a", "a.x", "a.x.y"):
        head = [{"k": "set", "key": key, "val": 1}]
        probes = [{"k": "ucfs"}, {"k": "store"}, {"k": "mkf", "fmt": "n_{{%s}}" % key}]
        for h in ("hset", "hrun"):
            H = {"k": h}
            shapes = [
                head + probes + [{"k": "split", "c": [{"k": "seq", "kind": "Sequence", "c": [H, {"k": "store"}]},
                                                      {"k": "seq", "kind": "Sequence", "c": [{"k": "ucfs"}, {"k": "store"}]}]},
                                 {"k": "store"}],
                head + [{"k": "split", "c": [{"k": "seq", "kind": "Sequence", "c": [{"k": "ucfs"}]},
                                             {"k": "seq", "kind": "tuple", "c": [H]}]}, {"k": "ucfs"}],
                head + [{"k": "store"}, H, {"k": "store"}],
                head + [H, {"k": "store"}],
                [{"k": "seq", "kind": "Sequence", "c": head + [{"k": "ucfs"}]}, H, {"k": "ucfs"}],
                [{"k": "seq", "kind": "Sequence", "c": head + [{"k": "seq", "kind": "Sequence", "c": [{"k": "store"}]}]}, H],
                head + [{"k": "ucfs"}, {"k": "set", "key": "b", "val": 2}, H, {"k": "mkf", "fmt": "{{b}}"}],
            ]
            for cs in shapes:
                for kind, flow in (("Sequence", FLOWS[5]), ("Source", [])):
                    t = {"k": "seq", "kind": kind, "c": ([{"k": "src"}] if kind == "Source" else []) + copy.deepcopy(cs)}
                    out.append({"tree": t, "flow": flow, "variants": []})
    return out


def degenerate_split_cases():
    """Splits without any branch that has static context: `Split([])`, only bare fill/compute elements (see the
    recorded judgement in ASSUMPTIONS: they export the empty intersection {})"""
    out = []
    for bs in ([], [{"k": "fc"}], [{"k": "fc"}, {"k": "fr"}], [{"k": "fc"}, {"k": "seq", "kind": "Sequence", "c": []}]):
        for pre in ([], [{"k": "set", "key": "a", "val": 1}]):
            t = {"k": "seq", "kind": "Sequence", "c": pre + [{"k": "split", "c": copy.deepcopy(bs)}, {"k": "store"}, {"k": "ucfs"}]}
            out.append({"tree": t, "flow": _flow_for(t, FLOWS[1]), "variants": []})
    return out


def output_cases():
    """Directed family for static keys below `output`: SetContext("output.prefix"/"suffix"/"filename"/…) followed by
    MakeFilename(prefix=…) / MakeFilename(suffix=…) / MakeFilename(filename=…) in sequence (with and without
    overwrite, with and without an UpdateContextFromStatic in between, flat and in a Split branch), run with values
    with and without a run-time `output` key: the prefix/suffix bookkeeping of MakeFilename reads the run-time context
    only, so a static output.prefix may enter the run-time context through UpdateContextFromStatic alone."""
    out = []
    statics = [[{"k": "set", "key": "output.prefix", "val": "SP_"}],
               [{"k": "set", "key": "output.suffix", "val": "_SS"}],
               [{"k": "set", "key": "output.prefix", "val": "SP_"}, {"k": "set", "key": "output.suffix", "val": "_SS"},
                {"k": "set", "key": "a", "val": 1}],
               [{"k": "set", "key": "output.filename", "val": "sf"}, {"k": "set", "key": "output.dirname", "val": "sd"}]]
    chains = [[{"k": "mkf", "fmt": None, "prefix": "P{{a}}_"}],
              [{"k": "mkf", "fmt": None, "suffix": "_S"}, {"k": "mkf", "fmt": "hist"}],
              [{"k": "mkf", "fmt": None, "prefix": "run_", "suffix": "_log"}, {"k": "mkf", "fmt": "h{{a}}", "dirname": "D"}],
              [{"k": "mkf", "fmt": None, "prefix": "run_", "overwrite": True}, {"k": "mkf", "fmt": "hist", "fileext": "e"}],
              [{"k": "mkf", "fmt": "hist", "dirname": "D", "fileext": "e"}]]
    for st in statics:
        for ch in chains:
            for mid in ([], [{"k": "ucfs"}], [{"k": "store"}]):
                body = st + mid + ch
                for cs in (body, [{"k": "split", "c": [{"k": "seq", "kind": "Sequence", "c": body},
                                                       {"k": "seq", "kind": "tuple", "c": [{"k": "data"}]}]}],
                           st + [{"k": "seq", "kind": "Sequence", "c": mid + ch}]):
                    for kind, flow in (("Sequence", FLOWS[7]), ("Source", [])):
                        t = {"k": "seq", "kind": kind, "c": ([{"k": "src"}] if kind == "Source" else []) + copy.deepcopy(cs)}
                        if not _renders_dict(t):
                            out.append({"tree": t, "flow": _flow_for(t, flow), "variants": []})
    return out


def alias_cases():
    """Directed family for run-time aliasing of static context: a nested static key, a consumer that keeps what
    it was given (UpdateContextFromStatic, MakeFilename), a later element that updates the run-time context in
    place below the same parent (a user mutator, a second UpdateContextFromStatic after another SetContext,
    MakeFilename writing output.filename), run with three values whose contexts lack the key; in a flat
    sequence, with the consumer or the mutator in a nested Sequence, and inside a Split branch."""
    out = []
    for par, k1, k2 in (("a", "a.x", "a.y"), ("b", "b.y", "b.z"), ("output", "output.x", "output.y")):
        consumers = [[{"k": "ucfs"}], [{"k": "mkf", "fmt": "{{%s}}_n" % k1}, {"k": "ucfs"}],
                     [{"k": "store"}, {"k": "ucfs"}, {"k": "mkf", "fmt": "m_{{%s}}" % k1}]]
        mutators = [[{"k": "mut", "key": k2, "val": 9}], [{"k": "mut", "key": k1, "val": "w"}],
                    [{"k": "set", "key": k2, "val": 2}, {"k": "ucfs"}],
                    [{"k": "mkf", "fmt": "f_{{%s}}" % k1}, {"k": "mut", "key": k2, "val": 0}]]
        for cons in consumers:
            for mut in mutators:
                head = [{"k": "set", "key": k1, "val": "far"}]
                shapes = [head + cons + mut,
                          head + [{"k": "seq", "kind": "Sequence", "c": cons}] + mut,
                          head + cons + [{"k": "seq", "kind": "Sequence", "c": mut}],
                          [{"k": "split", "c": [{"k": "seq", "kind": "Sequence", "c": head + cons + mut},
                                                {"k": "seq", "kind": "tuple", "c": [{"k": "store"}]}]}]]
                for cs in shapes:
                    for kind, flow in (("Sequence", FLOWS[5]), ("Source", [])):
                        t = {"k": "seq", "kind": kind, "c": ([{"k": "src"}] if kind == "Source" else []) + copy.deepcopy(cs)}
                        if not _renders_dict(t):
                            out.append({"tree": t, "flow": _flow_for(t, flow), "variants": []})
    return out


def mutable_cases():
    """Directed family for MUTABLE constants in the static context (a list, a list in a list, a dictionary in a list;
    flat and nested keys): a consumer that keeps what it was given (UpdateContextFromStatic, StoreContext,
    MakeFilename), then an ordinary run-time element that extends in place every list of the run-time context
    (`context["cuts"].append(..)`), again a consumer; with the SetContext, the consumer or the run-time element in
    a nested Sequence or in a Split branch; three values.  Only a deep copy keeps the static context (what every
    element saw, what every sequence exports) apart from the run-time contexts made from it; every dictionary
    returned by _get_context() is also extended in place at every level, lists included."""
    out = []
    for val in (["trigger"], [1, [2]], [{"n": 1}]):
        for key in ("c", "a.x.y"):
            head = [{"k": "set", "key": key, "val": val}]
            consumers = [[{"k": "ucfs"}], [{"k": "store"}, {"k": "ucfs"}], [{"k": "mkf", "fmt": "n_{{b}}"}, {"k": "ucfs"}]]
            tails = [[{"k": "app"}], [{"k": "app"}, {"k": "set", "key": "b", "val": 2}, {"k": "ucfs"}, {"k": "app"}],
                     [{"k": "mut", "key": "a.y", "val": [0]}, {"k": "app"}, {"k": "store"}]]
            for cons in consumers:
                for tail in tails:
                    shapes = [head + cons + tail,
                              [{"k": "seq", "kind": "Sequence", "c": head}] + cons + tail,
                              head + [{"k": "seq", "kind": "Sequence", "c": cons}] + tail,
                              [{"k": "split", "c": [{"k": "seq", "kind": "Sequence", "c": head + cons + tail},
                                                    {"k": "seq", "kind": "tuple", "c": cons + [{"k": "app"}]}]},
                               {"k": "store"}]]
                    for cs in shapes:
                        for kind, flow in (("Sequence", FLOWS[5]), ("Sequence", FLOWS[10]), ("Source", [])):
                            t = {"k": "seq", "kind": kind, "c": ([{"k": "src"}] if kind == "Source" else []) + copy.deepcopy(cs)}
                            if not _renders_dict(t):
                                out.append({"tree": t, "flow": _flow_for(t, flow), "variants": []})
    return out


SAME_SUBTREE = [("a.x", 1), ("a.y", "s"), ("a", {"x": 2}), ("a", {"y": "t", "zz": 0}), ("a", {}), ("a", 5),
                ("a.x", {"y": 1}), ("a.x.y", 3), ("a", {"x": {"y": 4, "z": 5}}), ("a", {"x": {}}), ("a.y", [1]),
                ("a", {"y": None}), ("a.x", {}), ("a", "{{b}}_f")]


def dictval_cases():
    """Directed family for SetContext values that are DICTIONARIES (a subcontext given at once): every ordered pair
    of setters that address the same subtree — dotted keys with scalars, dot-less and dotted keys with empty / flat /
    nested / partially overlapping dictionaries, a scalar, a list, None, a formatting string at the same key — then
    the consumers (StoreContext, UpdateContextFromStatic, Write / Cache / MakeFilename with fields below the key where
    they resolve to scalars); flat with a StoreContext in between, the second setter in a nested Sequence, in a Split
    branch next to a branch that sees the first only (the Split exports the intersection), the first in an earlier
    nested Sequence.  The update of a SetContext is recursive whatever its value: the later element sees the fold."""
    out = []
    tprobes = [{"k": "write", "fmt": "o_{{a.x}}_{{a.y}}"}, {"k": "cache", "fmt": "c_{{a.x.y}}.pkl"},
               {"k": "mkf", "fmt": "{{a.zz}}_{{a.y}}"}, {"k": "write", "fmt": "w_{{a.x.z}}"},
               {"k": "set", "key": "c", "val": "{{a.x}}"}, {"k": "mkf", "fmt": "m{{a}}"}]

    def mk(kind, cs):
        return {"k": "seq", "kind": kind, "c": ([{"k": "src"}] if kind == "Source" else []) + copy.deepcopy(cs)}
    for k1, v1 in SAME_SUBTREE:
        for k2, v2 in SAME_SUBTREE:
            F = {"k": "set", "key": k1, "val": v1}
            S = {"k": "set", "key": k2, "val": v2}
            head = [{"k": "set", "key": "b", "val": 7}]
            base = head + [F, S]
            P = [{"k": "store"}, {"k": "ucfs"}]
            for tp in tprobes:
                # a template probe is used where no field of it resolves to a dictionary / list / None
                if not _renders_dict(mk("Sequence", base + P + [tp])):
                    P = P + [tp]
            shapes = [("Sequence", head + [F, {"k": "store"}, S] + P),
                      ("Source", head + [F, {"k": "ucfs"}, S] + P),
                      ("Sequence", head + [F, {"k": "seq", "kind": "Sequence", "c": [S] + P}, {"k": "store"}]),
                      ("Sequence", head + [F, {"k": "split", "c": [{"k": "seq", "kind": "Sequence", "c": [S] + P},
                                                                  {"k": "seq", "kind": "tuple", "c": [{"k": "store"}]}]},
                                           {"k": "store"}]),
                      ("Sequence", [{"k": "seq", "kind": "Sequence", "c": head + [F]}, S] + P)]
            for kind, cs in shapes:
                t = mk(kind, cs)
                if not _renders_dict(t):
                    out.append({"tree": t, "flow": _flow_for(t, [] if kind == "Source" else FLOWS[1]), "variants": []})
    return out


def reuse_cases():
    """Directed family for element re-use: a constructed tree is placed into an enclosing sequence and then into a
    second one (`_set_context` of the whole tree with two contexts in turn), the contexts giving DIFFERENT values to
    the key that the tree's formatting SetContext / Write / Cache / MakeFilename name.  When the second delivery
    reaches every element, nothing may remember the first."""
    out = []
    bodies = [[{"k": "set", "key": "b", "val": "{{a}}_f"}, {"k": "store"}, {"k": "ucfs"}],
              [{"k": "write", "fmt": "o_{{a}}"}, {"k": "cache", "fmt": "c_{{a}}.pkl"}, {"k": "mkf", "fmt": "{{a}}_n"}],
              [{"k": "seq", "kind": "Sequence", "c": [{"k": "set", "key": "c", "val": "{{a}}"}]}, {"k": "store"},
               {"k": "write", "fmt": "o_{{c}}"}],
              [{"k": "split", "c": [{"k": "seq", "kind": "Sequence", "c": [{"k": "set", "key": "c", "val": "p{{a}}-{{a}}"},
                                                                            {"k": "cache", "fmt": "c_{{c}}.pkl"}]},
                                    {"k": "seq", "kind": "tuple", "c": [{"k": "store"}]}]}, {"k": "ucfs"}],
              [{"k": "set", "key": "a.x", "val": 1}, {"k": "mkf", "fmt": None, "prefix": "P{{b}}_", "dirname": "D{{b}}"},
               {"k": "set", "key": "c", "val": "{{b}}"}, {"k": "store"}],
              [{"k": "set", "key": "zz", "val": {"y": 1}}, {"k": "store"}, {"k": "set", "key": "c", "val": "{{b}}_{{zz.y}}"},
               {"k": "set", "key": "zz", "val": {"w": {}}}, {"k": "ucfs"}, {"k": "write", "fmt": "o_{{zz.y}}_{{b}}"}]]
    pairs = [[{"a": 5}, {"a": 6, "b": "p"}], [{"a": 6, "b": "p"}, {"a": 7, "b": "o", "c": ["k"]}],
             [{"a": 5}, {"zz": "q"}], [{"a": 7, "b": "o", "c": ["k"]}, {"a": 5}], [{"b": "o"}, {"a": 6, "b": "p"}]]
    for body in bodies:
        for rd in pairs:
            for kind, flow in (("Sequence", FLOWS[1]), ("Source", [])):
                t = {"k": "seq", "kind": kind, "c": ([{"k": "src"}] if kind == "Source" else []) + copy.deepcopy(body)}
                if not _renders_dict(t) and _redeliver_ok(t, rd):
                    out.append({"tree": t, "flow": _flow_for(t, flow), "variants": [], "redeliver": copy.deepcopy(rd)})
    return out


def _forests(n, depth, leaves):
    """all lists of trees with exactly n leaves in total, nesting depth <= depth (depth 0: leaves only).
    Containers: Sequence, and Split of 1..2 Sequence branches (every branch non-empty)."""
    if n == 0:
        yield []
        return
    for first in range(1, n + 1):
        for t in _trees(first, depth, leaves):
            for rest in _forests(n - first, depth, leaves):
                yield [t] + rest


def _trees(n, depth, leaves):
    if n == 1:
        for l in leaves:
            yield l
    if depth <= 0:
        return
    # a nested Sequence with n leaves
    for cs in _forests(n, depth - 1, leaves):
        yield {"k": "seq", "kind": "Sequence", "c": cs}
    # a Split with one or two Sequence branches
    if depth >= 2:
        for cs in _forests(n, depth - 2, leaves):
            yield {"k": "split", "c": [{"k": "seq", "kind": "Sequence", "c": cs}]}
        for n1 in range(1, n):
            for c1 in _forests(n1, depth - 2, leaves):
                for c2 in _forests(n - n1, depth - 2, leaves):
                    yield {"k": "split", "c": [{"k": "seq", "kind": "Sequence", "c": c1},
                                               {"k": "seq", "kind": "Sequence", "c": c2}]}


def exhaustive_cases(nmax, depth, leaves, source=False):
    for n in range(0, nmax + 1):
        for cs in _forests(n, depth, leaves):
            t = {"k": "seq", "kind": "Sequence", "c": cs}
            if not _renders_dict(t):
                yield {"tree": t, "flow": _flow_for(t, FLOWS[1])}
            if source:
                t = {"k": "seq", "kind": "Source", "c": [{"k": "src"}] + cs}
                if not _renders_dict(t):
                    yield {"tree": t, "flow": _flow_for(t, [])}




def _fill(shape, it):
    """the tree `shape` (leaves are None) with its leaves taken from the iterator `it`, in document order"""
    if shape is None:
        return next(it)
    return dict(shape, c=[_fill(c, it) for c in shape["c"]])


def sampled_cases(rng, n, depth, leaves, count):
    """`count` seeded draws from the scope of exhaustive_cases(n, depth, leaves, source=True) with exactly n leaves"""
    shapes = list(_forests(n, depth, [None]))
    made = 0
    while made < count:
        shape = rng.choice(shapes)
        it = iter([rng.choice(leaves) for _ in range(n)])
        cs = [_fill(t, it) for t in shape]
        if rng.random() < 0.5:
            t = {"k": "seq", "kind": "Sequence", "c": cs}
            flow = FLOWS[1]
        else:
            t = {"k": "seq", "kind": "Source", "c": [{"k": "src"}] + cs}
            flow = []
        if not _renders_dict(t):
            made += 1
            yield {"tree": t, "flow": _flow_for(t, flow)}


def gen_cases(ctx):
    """A generator (cases are produced lazily).  quick: the directed families (aliasing, sequence types, output keys, hostile probes, degenerate Splits), every tree with <= 2 leaves over the
    10-leaf alphabet, 4000 seeded draws from the trees with 3 leaves over the 7-leaf alphabet (depth <= 2, Sequence and
    Source tops), 3000 random trees of depth <= 3 with causality variants.  thorough: all trees with <= 3 leaves over the 7
    leaf kinds and with <= 2 leaves over all 10, 30 000 seeded draws from the trees with 4 leaves over the 10 kinds,
    30 000 random trees (the parent process holds cases, results and model replies: about 4 GB)."""
    rng = ctx.rng
    yield from alias_cases()
    yield from seqtype_cases()
    yield from output_cases()
    yield from hostile_cases()
    yield from degenerate_split_cases()
    yield from mutable_cases()
    yield from reuse_cases()
    yield from dictval_cases()
    if ctx.tier == "quick":
        yield from exhaustive_cases(2, 2, EX_LEAVES + EX_LEAVES_MORE, source=True)
        yield from sampled_cases(rng, 3, 2, EX_LEAVES, 3000)
        yield from sampled_cases(rng, 3, 2, EX_LEAVES + EX_DICT_LEAVES, 1500)
        yield from sampled_cases(rng, 4, 2, MUT_LEAVES, 1000)
        n_rand = 3000
    else:
        yield from exhaustive_cases(3, 2, EX_LEAVES, source=True)
        yield from exhaustive_cases(2, 2, EX_LEAVES + EX_LEAVES_MORE + EX_DICT_LEAVES, source=True)
        yield from sampled_cases(rng, 4, 2, EX_LEAVES + EX_LEAVES_MORE, 30000)
        yield from sampled_cases(rng, 4, 2, EX_LEAVES + EX_DICT_LEAVES, 10000)
        yield from sampled_cases(rng, 4, 2, MUT_LEAVES, 10000)
        n_rand = 30000
    for i in range(n_rand):
        pformat = (0.0, 0.3, 0.6)[i % 3]
        yield rand_case(rng, depth=3, pformat=pformat)


def nontrivial(case, res):
    return any(("seen" in r and r["seen"]) or (r.get("name") and "{" not in r["name"]) for r in res["nodes"])


def classify(case, res):
    labels = []
    nodes = preorder(case["tree"])
    labels.append("top:" + case["tree"]["kind"])
    labels.append("nodes:%d" % min(len(nodes), 20))
    kinds = set(n["k"] for n in nodes)
    for k in sorted(kinds):
        labels.append("has:" + k)
    if case.get("flow") is not None:
        labels.append("flow:%d values" % len(case["flow"]))
    if any(n["k"] == "set" and isinstance(n["val"], str) and "{" in n["val"] for n in nodes):
        labels.append("has:formatting")
    if any(n["k"] == "set" and isinstance(n["val"], dict) for n in nodes):
        labels.append("has:dictionary value")
    top = res["nodes"][0].get("get")
    labels.append("top:keyerror" if isinstance(top, dict) and "cls" in top else "top:ok")
    if any(isinstance(r.get("get"), dict) and "cls" in r["get"] for r in res["nodes"][1:]):
        labels.append("inner:keyerror")
    return labels


def signature(case, failure):
    import hashlib
    return hashlib.sha1(repr(case["tree"]).encode()).hexdigest()[:16]


def _shrink_tree(t):
    """smaller trees: drop a child, hoist a child's children, simplify a leaf"""
    if "c" in t:
        for i in range(len(t["c"])):
            c = t["c"][i]
            if c["k"] in ("src", "fc", "fr") or (t["k"] == "seq" and t["kind"] == "elem"):
                continue
            yield dict(t, c=t["c"][:i] + t["c"][i + 1:])
        for i, c in enumerate(t["c"]):
            if t["k"] == "seq" and c["k"] == "seq" and c["kind"] == "Sequence" and t["kind"] != "elem" \
                    and not (anchor_of(t) in ("fc", "fr") and not any(x["k"] == anchor_of(t) for x in t["c"][:i])):
                yield dict(t, c=t["c"][:i] + c["c"] + t["c"][i + 1:])
            for s in _shrink_tree(c):
                yield dict(t, c=t["c"][:i] + [s] + t["c"][i + 1:])
    elif t["k"] == "set" and isinstance(t["val"], str) and "{" in t["val"]:
        yield dict(t, val=1)
    elif t["k"] == "set" and isinstance(t["val"], dict):
        for k in t["val"]:
            yield dict(t, val={k2: v for k2, v in t["val"].items() if k2 != k})
        for k, v in t["val"].items():
            if isinstance(v, dict):
                yield dict(t, val=dict(t["val"], **{k: 1}))
    elif t["k"] == "mkf" and any(t.get(k) for k in ("dirname", "fileext", "prefix", "suffix", "overwrite")):
        yield {"k": "mkf", "fmt": t.get("fmt") or "plain"}


def shrink(case):
    if case.get("variants"):
        for i in range(len(case["variants"])):
            yield dict(case, variants=case["variants"][:i] + case["variants"][i + 1:])
    for t in _shrink_tree(case["tree"]):
        if not _renders_dict(t):
            yield dict(case, tree=t, flow=None if case.get("flow") is None else _flow_for(t, case["flow"]))
    for i, v in enumerate(case.get("variants") or []):
        for s in _shrink_tree(v):
            if not _renders_dict(s):
                yield dict(case, variants=case["variants"][:i] + [s] + case["variants"][i + 1:])
    if case.get("flow"):
        yield dict(case, flow=case["flow"][:-1])
    if case.get("flow") is not None:
        yield dict(case, flow=None)
    if case.get("precache"):
        yield dict(case, precache=False)
