"""Bridge check: the independent Lean transcriptions of Sequence.run / the stream stages / the iterators agree with each
other AND with the real code.

`lean/LenaModel/Bridge/Flow.lean` proves, for all inputs, that the transcriptions of `Sequence.__init__/run`,
`Run._call_run/_fc_run`, `Filter.run`, `Slice.run`, `Count.run`, `RunIf.run`, `End.run`, `Reverse.run` made for C01
(streams, history-indexed accumulators), C05 (its own streams, state-machine accumulators), C02 (generator machines and
their list semantics), C17 (Slice on lists) and C10 (the RunIf loop) agree under explicit translation maps.  This module
is the executable side: on every generated case the driver `drivers/BridgeFlow.lean` evaluates ALL transcriptions that
have the program in their vocabulary —

    c05   Lena.C05.driveSeq args flow                       (what drivers/C05.lean computes)
    c01   Lena.Bridge.Flow.drive1 (specs1 args) flow       (what drivers/C01.lean computes, on the translated program)
    c02   Lena.C02.seqDen / the generator machines Lena.C02.seqRun … take, on `stages2 args` and the flow as C02 values
    c17   Lena.C17.sliceRun, for a program that is one Slice

— together with the Boolean side conditions `commonLB args` and `floatSafeB args flow` of `driveSeq_agree_checked`, and
`compare` demands:  c01 == real (always: C01's model covers the whole vocabulary used here);  c05 == real whenever both
side conditions hold (an instance of `driveSeq_agree_checked`; when one fails the two models legitimately differ and the
difference is only counted);  c02.den == c02.machine == real values with a normal end (instances of
`crosscheck_drive1_c02`);  c17 == real.  The oracle (independent of every model) is the property statement of C01 on the
real code: Sequence.run equals the hand-chained composition of the elements' own transformations.

PID is "C01" (the property whose check is meant to carry these theorems); EVIDENCE_NAME keeps C01's evidence file.
"""
from __future__ import annotations

from harness.props import c01 as C01

PID = "C01"
EVIDENCE_NAME = "bridge_flow"
TITLE = ("Bridge: the independent transcriptions of Sequence.run, Run, Filter, Slice, Count, RunIf (C01, C02, C05, C10, C17) "
         "agree")
LEAN_MODULES = ["LenaModel.Bridge.Flow"]
LEAN_SOURCES = ["LenaModel/Bridge/Flow.lean"]
DRIVER = "drivers/BridgeFlow.lean"
THEOREMS = [
    # 1. streams C01 <-> C05
    "Lena.Bridge.Flow.mapS_agree",
    "Lena.Bridge.Flow.filterS_agree",
    "Lena.Bridge.Flow.bindS_agree",
    "Lena.Bridge.Flow.runIfS_agree",
    "Lena.Bridge.Flow.reverseS_agree",
    "Lena.Bridge.Flow.endS_agree",
    "Lena.Bridge.Flow.negMode_agree",
    "Lena.Bridge.Flow.sliceS_agree",
    "Lena.Bridge.Flow.isliceS_agree",
    "Lena.Bridge.Flow.countS_agree",
    "Lena.Bridge.Flow.composeS_agree",
    # 2. _fc_run, Sequence.__init__/run C01 <-> C05
    "Lena.Bridge.Flow.fcSpec_agree",
    "Lena.Bridge.Flow.fcLoop_agree",
    "Lena.Bridge.Flow.accElement_backed",
    "Lena.Bridge.Flow.synElement_backed",
    "Lena.Bridge.Flow.convert_agree",
    "Lena.Bridge.Flow.convertData_agree",
    "Lena.Bridge.Flow.mkSequence_agree",
    "Lena.Bridge.Flow.mkSequence_agree_eq",
    # 3. the vocabularies, end to end on the driver functions
    "Lena.Bridge.Flow.spec_histFree",
    "Lena.Bridge.Flow.seq_histFree",
    "Lena.Bridge.Flow.spec_agree",
    "Lena.Bridge.Flow.specs_agree",
    "Lena.Bridge.Flow.driveSeq_agree",
    "Lena.Bridge.Flow.driveSeq_agree_no_num",
    "Lena.Bridge.Flow.driveSeq_agree_checked",
    "Lena.Bridge.Flow.commonLB_sound",
    "Lena.Bridge.Flow.floatSafeB_sound",
    # 4. C02 machines / list semantics <-> streams
    "Lena.Bridge.Flow.mapS_den",
    "Lena.Bridge.Flow.filterS_den",
    "Lena.Bridge.Flow.islice_den",
    "Lena.Bridge.Flow.negslice_den",
    "Lena.Bridge.Flow.countS_den",
    "Lena.Bridge.Flow.runIfS_den",
    "Lena.Bridge.Flow.stage_den",
    "Lena.Bridge.Flow.pipeline_den",
    "Lena.Bridge.Flow.machines_yield_stream_prefix",
    "Lena.Bridge.Flow.machines_yield_stream_prefix_c05",
    # 5. Slice: C17 <-> streams
    "Lena.Bridge.Flow.sliceS_sliceRun",
    "Lena.Bridge.Flow.sliceS5_sliceRun",
    "Lena.Bridge.Flow.sliceT_observe",
    "Lena.Bridge.Flow.c05_sliceS_ofList",
    "Lena.Bridge.Flow.c02_negslice_den",
    # 6. RunIf: C10 <-> C02 <-> C01
    "Lena.Bridge.Flow.runIf_c10_c02",
    "Lena.Bridge.Flow.runIf_c10_c01",
    "Lena.Bridge.Flow.c01_runIf_term_determined_by_selected",
    "Lena.Bridge.Flow.c01_runIf_unselected_id",
    # 7. concrete vocabularies C02 <-> Flow
    "Lena.Bridge.Flow.markCount_emb",
    "Lena.Bridge.Flow.fn2_emb",
    "Lena.Bridge.Flow.pred2_emb",
    # 8. transfers C01 <-> C05
    "Lena.Bridge.Flow.c01_seq_eq_fill",
    "Lena.Bridge.Flow.c05_seq_append",
    # 9. the _Fill chain C02 <-> C05
    "Lena.Bridge.Flow.fillChain_agree",
    "Lena.Bridge.Flow.stRel_init",
    # 10. what this cross-check executes
    "Lena.Bridge.Flow.stage2_rel",
    "Lena.Bridge.Flow.stages2_rel",
    "Lena.Bridge.Flow.crosscheck_c02_c01",
    "Lena.Bridge.Flow.drive1_stages1of",
    "Lena.Bridge.Flow.crosscheck_drive1_c02",
]
TRUSTED = [
    "Lean 4.33.0 kernel; axioms limited to propext, Classical.choice, Quot.sound (audited by #print axioms on every run)",
    "the translation maps of LenaModel/Bridge/Flow.lean (to5/to1/stage5, attr1, spec1, vToValue, fn2/pred2/stages2, pre5): "
    "they are definitions, the agreement theorems are stated through them and this check evaluates the models through them",
    "the models related (Model/C01Stream.lean, C01.lean, C05.lean, C02.lean, C17.lean, C10.lean, Flow.lean): each validated "
    "by its own property check; here additionally against each other and against the real code on the same cases",
    "JSON line protocol encoders (harness/props/bridge_flow.py reusing harness/props/c01.py, drivers/BridgeFlow.lean)",
]
ASSUMPTIONS = [
    "finite flows handed over as iterators; the consumer drains the result",
    "common domain of C01/C05: no RunIf(5, ...)/dup (C05 only), no nested Sequence/Split/Run(el)/Source (C01 only), only "
    "stateless run/call elements inside a RunIf (C05's RunIf model runs a fresh inner sequence per selected value), no "
    "float reaching a Sum/Mean (C05's accumulators raise TypeError there, C01's keep a float total)",
    "common domain of C02 with C01/C05: callables inc/neg/ident, all selectors, Slice, Count, RunIf around stateless "
    "elements of these kinds; flows of (int, {name: int}) pairs; no exceptions (C02 has none), no pull counts (C01/C05 "
    "have none)",
    "C10's RunIf loop is related at theorem level only (its Item type carries identity tokens that the flows of this "
    "check do not have)",
]
RULE = ("exhaustive: every ordered pair of 30 representative element descriptions of the common vocabulary on two flows, "
        "every representative alone on an empty / one-value / pair flow, every Slice of C01's slice table alone on flows of "
        "length 0..7 (C17 list transcription included), every single C02-representable element and every ordered pair of "
        "them on a pair flow (machines included). sampled (seeded; quick 3000, thorough 120000): programs of length 0..6 "
        "over the common vocabulary (RunIf nested to depth 2, with stateless inner elements and — 10% — a Count among them; 12% "
        "programs designed to leave the common domain: Mean before Sum, Count inside RunIf), flows of length 0..8 of "
        "ints, strings, lists and (data, context) pairs; half of the samples use only C02-representable elements on pair "
        "flows. Non-trivial: at least two data elements and a value yielded or an exception.")
CASE_TIMEOUT = 10

# ----------------------------------------------------------------------------------------
# running the real code (through C01's vocabulary builder: one implementation of the element factories)


def _mine(case):
    """cases of this module carry "bridge": "flow"; anything else (the corpus of C01, replayed because PID is C01) is
    passed through"""
    return case.get("bridge") == "flow"


def run_impl(case):
    import lena.core
    if not _mine(case):
        return {"skip": True}
    args, flow = case["args"], case["flow"]
    seq, err = C01._construct(lambda: lena.core.Sequence(*[C01.build(s) for s in args]))
    if err:
        return {"run": err, "ref": {"skip": "constructor raised"}}
    return {"run": _strip(C01.observe(lambda: seq.run(C01.make_flow(flow, None)))),
            "ref": C01.reference(args, flow, None)}


def _strip(o):
    """C05's outcome has no 'eager' flag: an exception of the call run(flow) is seen as one before the first value"""
    if "r" in o:
        return {"r": o["r"], "t": o["t"]}
    return o


def model_requests(case):
    if not _mine(case):
        return []
    return [{"op": "seq", "args": case["args"], "flow": case["flow"]}]


def _mv(j):
    """a model reply value in the encoding of C01.enc; {"q":[n,d]} is the float float(n)/float(d), {"q":[0,0]} is 'some
    float' (arithmetic the models do not compute)"""
    if isinstance(j, list):
        return [_mv(x) for x in j]
    if isinstance(j, dict):
        if "q" in j:
            n, d = j["q"]
            return {"f": "?"} if d == 0 else {"f": repr(float(n) / float(d))}
        if "t" in j:
            return {"t": [_mv(x) for x in j["t"]]}
        if "d" in j:
            return {"d": {k: _mv(v) for k, v in j["d"].items()}}
    return j


def _same(m, r):
    """model value (after _mv) against real value: equal, where 'some float' matches any float"""
    if isinstance(m, dict) and m.get("f") == "?":
        return isinstance(r, dict) and "f" in r
    if isinstance(m, list) and isinstance(r, list):
        return len(m) == len(r) and all(_same(a, b) for a, b in zip(m, r))
    if isinstance(m, dict) and isinstance(r, dict):
        return m.keys() == r.keys() and all(_same(m[k], r[k]) for k in m)
    return type(m) is type(r) and m == r


def _canon(m):
    if m is None:
        return None
    if "r" in m:
        return {"r": _mv(m["r"]), "t": m["t"]}
    return m


def compare(case, res, replies):
    if not _mine(case):
        return None
    m = replies[0]
    if "err" in m:
        return f"model driver error: {m['err']}"
    real = res["run"]
    c01, c05 = _canon(m["c01"]), _canon(m["c05"])
    if not _same(c01, real):
        return f"impl {real} vs C01 transcription (drive1 ∘ specs1) {c01}"
    if m["common"] and m["floatsafe"]:
        if not _same(c05, real):
            return (f"impl {real} vs C05 transcription (driveSeq) {c05} although commonLB and floatSafeB hold "
                    f"(instance of driveSeq_agree_checked broken: C01 gives {c01})")
    c02 = m.get("c02")
    if c02 is not None:
        den, mach = _mv(c02["den"]), _mv(c02["machine"])
        if "e" in real or real["t"] is not None:
            return f"the program has a C02 counterpart (no exceptions there) but impl gives {real}"
        if den != real["r"]:
            return f"impl {real['r']} vs C02 list semantics seqDen {den}"
        if mach != real["r"] or c02["ending"] != "exhausted":
            return f"impl {real['r']} vs C02 generator machines {mach} ending {c02['ending']}"
    c17 = _canon(m.get("c17"))
    if c17 is not None and not _same(c17, real):
        return f"impl {real} vs C17 list transcription sliceRun {c17}"
    return None


def oracle(case, res):
    """the statement of C01 on the real code: Sequence.run = the elements' own transformations chained by hand"""
    if not _mine(case):
        return None
    real, ref = res["run"], res["ref"]
    if "skip" in ref or "e" in real:
        return None
    if ref["t"] is None:
        if real["t"] is not None or real["r"] != ref["r"]:
            return (f"Sequence.run gives {real} but feeding each element's transformation with the output of the previous "
                    f"one gives {ref['r']}; elements {case['args']} flow {case['flow']}")
    elif real["t"] is None:
        return (f"the composition of the elements' transformations raises {ref['t']} after {ref['r']} but Sequence.run "
                f"completed with {real['r']}; elements {case['args']} flow {case['flow']}")
    return None


# ----------------------------------------------------------------------------------------
# generators

FNS2 = ["inc", "neg", "ident"]                                        # the callables C02 has too
PAIR_FLOW = [{"t": [1, {"d": {}}]}, {"t": [4, {"d": {"a": 5}}]}, {"t": [7, {"d": {}}]}, {"t": [-2, {"d": {"b": 0}}]},
             {"t": [6, {"d": {}}]}]

REPS = (
    [{"k": "call", "f": f} for f in ("inc", "neg", "wrap", "boom", "ident")]
    + [{"k": "var", "name": "x", "f": "inc"}]
    + [{"k": "filter", "p": p} for p in ("even", "lt5", "pos")]
    + [{"k": "slice", "args": a} for a in ([2], [0], [1, 4], [0, 5, 2], [-1], [1, -1], [-2, None], [-3, -1], [-3, 2])]
    + [{"k": "count", "name": "n"}, {"k": "reverse"}, {"k": "end"}]
    + [{"k": "acc", "a": "sum"}, {"k": "acc", "a": "mean"}, {"k": "acc", "a": "store", "group": True},
       {"k": "acc", "a": "store", "group": False}, {"k": "acc", "a": "count", "name": "n"}]
    + [{"k": "runif", "p": "even", "inner": [{"k": "call", "f": "inc"}, {"k": "call", "f": "wrap"}]},
       {"k": "runif", "p": "pos", "inner": [{"k": "filter", "p": "lt5"}, {"k": "slice", "args": [1]}]},
       {"k": "syn", "run": 2, "call": False, "fill": 0, "compute": 0, "nodata": False},
       {"k": "syn", "run": 0, "call": False, "fill": 2, "compute": 2, "nodata": False},
       {"k": "junk", "v": "int"}, {"k": "setctx"}]
)

REPS2 = (
    [{"k": "call", "f": f} for f in FNS2]
    + [{"k": "filter", "p": p} for p in C01.PREDS]
    + [{"k": "slice", "args": a} for a in ([2], [0], [1, 4], [0, 5, 2], [None, None, 2], [-1], [1, -1], [-2, None],
                                             [-3, -1], [-3, 2], [-4, -1, 2])]
    + [{"k": "count", "name": "n"}, {"k": "count", "name": "a"}]
    + [{"k": "runif", "p": "even", "inner": [{"k": "call", "f": "inc"}]},
       {"k": "runif", "p": "lt5", "inner": [{"k": "filter", "p": "pos"}, {"k": "call", "f": "neg"}]},
       {"k": "runif", "p": "pos", "inner": [{"k": "slice", "args": [0]}]},
       {"k": "runif", "p": "all", "inner": [{"k": "runif", "p": "even", "inner": [{"k": "call", "f": "neg"}]}]}]
)


def gen_pair_value(rng):
    ctx = {k: rng.choice(C01.INTS) for k in rng.sample(C01.KEYS + ["n"], rng.randint(0, 2))}
    return {"t": [rng.choice(C01.INTS), {"d": ctx}]}


def gen_inner(rng, depth, c02_only, stateful):
    out = []
    for _ in range(rng.choice([0, 1, 1, 2, 3])):
        r = rng.random()
        if stateful and r < 0.3:
            # (a StoreFilled here would hand out the same stored objects again in later runs, and Count.run updates
            # contexts in place: aliasing that the value-passing models do not describe)
            out.append({"k": "count", "name": rng.choice(C01.COUNT_NAMES)})
        elif r < 0.4:
            out.append({"k": "call", "f": rng.choice(FNS2 if c02_only else C01.FNS)})
        elif r < 0.6:
            out.append({"k": "filter", "p": rng.choice(C01.PREDS)})
        elif r < 0.8:
            out.append({"k": "slice", "args": rng.choice(C01.SLICES)})
        elif not c02_only and r < 0.86:
            out.append(rng.choice([{"k": "reverse"}, {"k": "end"}, {"k": "var", "name": "x", "f": "inc"}]))
        elif depth < 2:
            out.append({"k": "runif", "p": rng.choice(C01.PREDS), "inner": gen_inner(rng, depth + 1, c02_only, stateful)})
    return out


def gen_el(rng, c02_only, st):
    r = rng.random()
    if r < 0.25:
        return {"k": "call", "f": rng.choice(FNS2 if c02_only else C01.FNS)}
    if r < 0.42:
        return {"k": "filter", "p": rng.choice(C01.PREDS)}
    if r < 0.62:
        return {"k": "slice", "args": rng.choice(C01.SLICES) if rng.random() < 0.97 or c02_only else rng.choice(C01.BAD_SLICES)}
    if r < 0.72:
        return {"k": "count", "name": rng.choice(C01.COUNT_NAMES)}
    if r < 0.84:
        return {"k": "runif", "p": rng.choice(C01.PREDS), "inner": gen_inner(rng, 1, c02_only, rng.random() < 0.1)}
    if c02_only:
        return {"k": "call", "f": rng.choice(FNS2)}
    if r < 0.87:
        return {"k": "var", "name": rng.choice(["x", "y"]), "f": rng.choice(["inc", "neg", "ident", "mod3"])}
    if r < 0.90:
        return rng.choice([{"k": "reverse"}, {"k": "end"}, {"k": "junk", "v": "int"}, {"k": "setctx"}])
    if r < 0.93:
        s = C01.gen_syn(rng)
        return s
    a = rng.choice(["sum", "mean", "store", "store", "count"])
    if st["floaty"] and a in ("sum", "mean") and not st["allow_float"]:
        a = "store"
    if a == "mean":
        st["floaty"] = True
    if a == "store":
        return {"k": "acc", "a": "store", "group": rng.random() < 0.5}
    if a == "count":
        return {"k": "acc", "a": "count", "name": rng.choice(C01.COUNT_NAMES)}
    return {"k": "acc", "a": a}


def _float_arith(args):
    """a float (Mean's result) reaching a Sum/Mean that already holds something: the models keep 'some float' there"""
    seen_mean = False
    for e in args:
        if e["k"] == "acc" and e["a"] in ("sum", "mean"):
            if seen_mean:
                return True
            if e["a"] == "mean":
                seen_mean = True
    return False


def gen_cases(ctx):
    rng = ctx.rng
    thorough = ctx.tier == "thorough"
    cases = []
    flows = [C01.FLOW_A, C01.FLOW_B]
    for i, a in enumerate(REPS):
        for j, b in enumerate(REPS):
            for fl in (flows if thorough else [flows[(i + j) % 2]]):
                cases.append({"args": [a, b], "flow": fl})
        for fl in ([], [7], PAIR_FLOW):
            cases.append({"args": [a], "flow": fl})
    for sl in C01.SLICES + C01.BAD_SLICES:
        for n in range(8):
            cases.append({"args": [{"k": "slice", "args": sl}], "flow": list(range(n))})
    for a in REPS2:
        cases.append({"args": [a], "flow": PAIR_FLOW})
        cases.append({"args": [a], "flow": []})
        for b in REPS2:
            cases.append({"args": [a, b], "flow": PAIR_FLOW})
    # outside the common domain on purpose (the check must keep counting them, never compare c05 there)
    cases.append({"args": [{"k": "acc", "a": "mean"}, {"k": "acc", "a": "sum"}], "flow": [1, 2]})
    cases.append({"args": [{"k": "runif", "p": "all", "inner": [{"k": "count", "name": "n"}]}], "flow": [1, 2, 3]})
    n_rand = 3000 if not thorough else 120000
    for _ in range(n_rand):
        c02_only = rng.random() < 0.5
        st = {"floaty": False, "allow_float": rng.random() < 0.12}
        n = rng.choice([0, 1, 2, 2, 3, 3, 4, 5, 6])
        args = [gen_el(rng, c02_only, st) for _ in range(n)]
        if _float_arith(args) and any(e["k"] == "acc" and e["a"] in ("sum", "mean") for e in args[:-1]):
            # only the *last* numeric accumulator may receive a float (0 + f and f / 1.0 are exact; see C01Stream.QState)
            k = max(i for i, e in enumerate(args) if e["k"] == "acc" and e["a"] in ("sum", "mean"))
            first_mean = next(i for i, e in enumerate(args) if e["k"] == "acc" and e["a"] == "mean")
            args = [e for i, e in enumerate(args)
                    if not (e["k"] == "acc" and e["a"] in ("sum", "mean") and first_mean < i < k)]
        if c02_only:
            flow = [gen_pair_value(rng) for _ in range(rng.choice([0, 1, 2, 3, 4, 5, 6, 8]))]
        else:
            flow = C01.gen_flow(rng)
        cases.append({"args": args, "flow": flow})
    for c in cases:
        c["bridge"] = "flow"
    return cases


def search_cases(ctx):
    return gen_cases(ctx)


def nontrivial(case, res):
    if not _mine(case):
        return False
    real = res["run"]
    n_data = sum(1 for e in case["args"] if e["k"] not in ("setctx",))
    return n_data >= 2 and ("e" in real or bool(real.get("r")) or real.get("t") is not None)


def classify(case, res):
    if not _mine(case):
        return ["foreign-corpus-case"]
    ks = []
    for s in case["args"]:
        C01._kinds(s, ks)
    labels = ["el:" + k for k in sorted(set(ks))]
    labels.append("len:%d" % len(case["args"]))
    labels.append("flowlen:%d" % len(case["flow"]))
    real = res["run"]
    if "e" in real:
        labels.append("init:" + real["e"])
    else:
        labels.append("run:" + ("ok" if real["t"] is None else real["t"]))
        labels.append("out:" + ("empty" if not real["r"] else "nonempty"))
    return labels


def signature(case, failure):
    if not _mine(case):
        return "foreign"
    ks = []
    for s in case["args"]:
        C01._kinds(s, ks)
    return "seq:" + ",".join(ks) + ":" + str(len(case["flow"]))


def shrink(case):
    if not _mine(case):
        return
    for i in range(len(case["args"])):
        yield dict(case, args=case["args"][:i] + case["args"][i + 1:])
    for i in range(len(case["flow"])):
        yield dict(case, flow=case["flow"][:i] + case["flow"][i + 1:])
    for i, e in enumerate(case["args"]):
        if e.get("inner"):
            for j in range(len(e["inner"])):
                e2 = dict(e, inner=e["inner"][:j] + e["inner"][j + 1:])
                yield dict(case, args=case["args"][:i] + [e2] + case["args"][i + 1:])
        if e["k"] != "call":
            yield dict(case, args=case["args"][:i] + [{"k": "call", "f": "ident"}] + case["args"][i + 1:])


# ---- MANIFEST texts ------------------------------------------------------------------------
LEVEL_TEXT = ("Lean 4 theorems that the independent transcriptions of Sequence.run, adapters.Run, Filter, Slice, Count, RunIf "
              "in the models of C01, C05, C02, C17, C10 agree for ALL programs and flows of their common domains (explicit "
              "translation maps, the domains as hypotheses), with transfer corollaries between the models; plus an "
              "executable cross-check that evaluates every transcription on the same generated case and compares all of "
              "them with the real code.")
LEVEL_NOTE = "Trusted: Lean kernel (+ propext, Classical.choice, Quot.sound), the translation maps, the JSON protocol."
TECHNIQUE = "Lean 4 agreement proofs between hand-written models + differential cross-check against the real code"
DESIGN_REF = "DESIGN.md section 9 (bridges)"
