"""C18 — Cache replays exactly the stored flow and never serves a truncated one.

Real code: lena.flow.Cache (run, cache_exists, drop_cache, _dump_flow_and_yield, _load_flow,
Cache.alter_sequence), lena.core.alter_sequence, inside lena.core.Source / Sequence.
Model: lean/LenaModel/Model/C18.lean (generator machine with crash points over an abstract file
system), theorems lean/LenaModel/Props/C18.lean (lemmas in Lemmas/C18.lean).

A case is a *history*: a list of operations executed in one fresh temporary directory

    {"op":"run", "mode":…, "src":{"vals":[codes],"raise":k|null}, "els":[el…], "take":k|null,
     "fin":"close"|"leak", "nest":[i,j]|null}
    {"op":"drop", "c":cache id, "rc":bool}          Cache(name, recompute=rc).drop_cache()
    {"op":"finalize"}                               release the suspended generators of earlier "leak" runs

    el = {"k":"map","a":1..9,"raise":k|null} | {"k":"cache","c":id,"rc":bool}

Every run builds a new pipeline (new Cache objects on the same file names, a new instrumented source
and new instrumented elements), pulls `take` values (null: until the end) and then either drops the
generator (`close`: CPython finalises the suspended generators at once) or keeps it — or the exception
whose traceback refers to it — alive (`leak`) until a later `finalize` or for ever.  Flow values are
integer *codes* rendered as picklable Python values of several kinds (ints, (data, context) pairs,
strings, lists, falsy values, None); a map element sends code v to 10*v + a, so every position of a
pipeline sees different values.
"""
import copy
import gc
import itertools
import os
import pickle
import shutil
import tempfile

from harness.common import CaseTimeout, exc_name, jdump

PID = "C18"
TITLE = "Cache replays exactly the stored flow and never serves a truncated one"
LEAN_MODULES = ["LenaModel.Props.C18", "LenaModel.Props.C18Split", "LenaModel.Props.C18Ctx", "LenaModel.Props.C18Spec"]
LEAN_SOURCES = ["LenaModel/Model/C18.lean", "LenaModel/Model/C18Split.lean", "LenaModel/Model/C18Ctx.lean",
                "LenaModel/Model/C18Spec.lean", "LenaModel/Model/C18Exc.lean", "LenaModel/Lemmas/C18.lean", "LenaModel/Lemmas/C18Split.lean",
                "LenaModel/Props/C18.lean", "LenaModel/Props/C18Split.lean", "LenaModel/Props/C18Ctx.lean",
                "LenaModel/Props/C18Spec.lean"]
DRIVER = "drivers/C18.lean"
THEOREMS = [
    # the theorems that carry the property (they fail for a model with the historical defects: rename on abort,
    # writing to the final name, close without remove, one buffer stored as the flow)
    "Lena.C18.run_yields_flow",
    "Lena.C18.first_run_transparent",
    "Lena.C18.first_run_does_not_touch_cache_file",
    "Lena.C18.first_run_stores",
    "Lena.C18.replay_exact_no_pull",
    "Lena.C18.first_complete_run_then_replay",
    "Lena.C18.buildHoisted_eq",
    "Lena.C18.interrupted_run_keeps_cache_files",
    "Lena.C18.closed_run_leaves_no_tmp",
    "Lena.C18.step_final_cases",
    "Lena.C18.cache_complete",
    "Lena.C18.later_run_serves_complete_flow",
    "Lena.C18.stored_cache_persists",
    "Lena.C18.every_later_run_replays",
    "Lena.C18.run_touches_only_own_caches",
    "Lena.C18.split_whole_eq_two_runs",
    "Lena.C18.split_whole_stores",
    "Lena.C18.split_bare_replay",
]
# support: instances and restatements of the above, proof lemmas, lemmas about the model's own encodings, the
# machine-checked counterexample for a rule /repo no longer has, and the decision lemmas for the executable vocabulary
AUX_THEOREMS = [
    "Lena.C18.hoisted_same_chain",
    "Lena.C18.run_exhausted_iff",
    "Lena.C18.replay_last",
    "Lena.C18.recompute_restores_first_run",
    "Lena.C18.drop_spec",
    "Lena.C18.drop_restores_first_run",
    "Lena.C18.interrupted_recompute_keeps_old_cache",
    "Lena.C18.step_keeps_stored",
    "Lena.C18.nextUppers_spec",
    "Lena.C18.drive_spec",
    "Lena.C18.effBufsize_patched",
    "Lena.C18.splitLoop_whole",
    "Lena.C18.split_pinned_truncates",
    "Lena.C18.containsCache_complete",
    "Lena.C18.effBufsizeTree_none",
    "Lena.C18.effBufsize_eq_tree",
    "Lena.C18.effBufsizeTree_wrap",
    "Lena.C18.resolve_tcache_name",
    "Lena.C18.nameId_inj",
    "Lena.C18.nameId_ge",
    "Lena.C18.run_leaves_other_names",
    "Lena.C18.distinctB_iff",
    "Lena.C18.noFilledB_iff",
    "Lena.C18.modeOkB_iff",
    "Lena.C18.evAfterB_iff",
    "Lena.C18.storedByList_iff",
]
CASE_TIMEOUT = 10
TRUSTED = [
    "Lean 4.33.0 kernel; axioms limited to propext, Classical.choice, Quot.sound (audited by #print axioms on every run)",
    "hand transcription of lena/flow/cache.py (run, cache_exists, drop_cache, _dump_flow_and_yield, _load_flow, "
    "alter_sequence), lena/core/meta.py (alter_sequence) and of the way Sequence.run / Source.__call__ nest generators "
    "into LenaModel/Model/C18.lean, validated by this correspondence check (outputs, end of the run, ordered event "
    "trace of the instrumented source and elements, existence of cache and temporary files after every value, "
    "content of the cache files after every operation)",
    "CPython generator semantics as transcribed: a generator body starts at the first next(); dropping or closing a "
    "suspended generator raises GeneratorExit at its yield, downstream generators first; a fresh or finished generator "
    "does nothing when closed (validated likewise, with generators finalised at once, later, or never)",
    "the Python reference semantics of the oracle (harness/props/c18.py: _pipe_flow) and its Lean counterpart pipeFlow, "
    "compared on every run operation",
    "JSON line protocol encoders (harness/props/c18.py, drivers/C18.lean)",
    "the transcription of Split.__init__ (buffer-size rule, lena.core.alter_sequence on the members) and Split.run for "
    "one sequence/source member (Model/C18Split.lean), of Cache._set_context / LenaSequence._set_context / SetContext "
    "for flat pipelines (Model/C18Ctx.lean), of Cache.__repr__ and the error branch of drop_cache (Model/C18Spec.lean), "
    "validated by the same correspondence check; the specification vocabulary of the theorems (Distinct, NoFilled, "
    "ModeOk, endOf, eraseCaches, EvAfter, StoredBy) is evaluated by the driver on every run and compared with Python",
]
ASSUMPTIONS = [
    "pickle round trip: pickle.load returns the dumped values in order and raises EOFError exactly at the end of the "
    "file (checked on every case for ints, (data, context) pairs, strings, lists, nested dicts, None and falsy values, "
    "protocols 0-5, methods pickle/cPickle)",
    "file names: distinct Cache elements of one pipeline use distinct files, and no cache file name is the temporary "
    "name (<name>.tmp) of another cache (theorem hypothesis Distinct); os.replace is atomic.  With the same file twice "
    "in one pipeline the real code ends the first run with FileNotFoundError (the second os.replace finds no temporary "
    "file) after having yielded the whole flow, and the file holds the flow seen by the upstream one: loud, not modelled",
    "name-level file system: a file object still held by a suspended generator cannot change what a file name denotes "
    "after a later run has re-created the file (true since dd601f1; before it the correspondence check and the oracle "
    "failed on exactly the histories 'leaked interrupted run, later run on the same cache, late finalisation')",
    "histories are sequential: runs do not overlap in time; a generator kept alive by an interrupted run is finalised "
    "between operations (or never), not while another run on the same cache file is in progress.  Two runs that are "
    "active at the same time on one cache file are outside the property's histories and are neither modelled nor "
    "generated (there the later run's os.replace fails with FileNotFoundError after it has yielded its whole flow; no "
    "truncated cache is stored or served)",
    "Split: modelled for one member that is a Sequence (or a bare Cache) after arbitrary outer elements; the driver "
    "predicts the buffer-size rule of /repo (7235571: a Sequence member with a Cache makes Split read the whole flow at "
    "once) and nothing is read from the tree under test - reverting 7235571 gives correspondence disagreements and "
    "oracle failures; the old rule is kept as effBufsize false only for the counterexample split_pinned_truncates.  Split fills its buffer from its own input "
    "before it runs a member: the input of the Split is consumed even when the member replays a cache (Split's "
    "documented schedule, C03); an exception of the outer pipeline may therefore arrive before earlier values were "
    "yielded - the oracle accepts a prefix there.  Members of type fill/compute, fill/request and several members "
    "are C03's and not modelled here; a Split object keeps the hoisting decision it took when it was constructed",
    "drop_cache() on a missing file raises FileNotFoundError although its docstring says 'pass otherwise': judged "
    "outside 'recompute=True and drop_cache() restore the first-run behaviour' (the first-run behaviour is there "
    "anyway); modelled as it is, not demanded by the oracle",
    "an interrupted recomputation keeps the old complete cache (theorem interrupted_recompute_keeps_old_cache, "
    "validated by the correspondence); the statement would also allow dropping it, so the oracle accepts both",
    "exception classes: the source and the elements raise Exception subclasses, KeyboardInterrupt, SystemExit, a "
    "direct BaseException subclass and GeneratorExit (at every position, in quick and thorough); the model has one "
    "outcome for all classes because the transcribed code has no except clause (Model/C18Exc.lean attributes the class "
    "for the report).  A consumer that raises in its own frame is, for the Cache, a consumer that stops (the generators "
    "are finalised when the traceback is released): covered by stop + close/leak.  Errors of the Cache itself "
    "(PicklingError of an unpicklable value - outside 'picklable values' -, OSError/disk full from dump or open) are "
    "neither modelled nor generated",
    "snapshot at dump time: pickle.dump serialises the value when it is called, before downstream sees the object; "
    "the value kind 'mut' (a list with a nested context that every map element changes in place and passes on) checks "
    "that the stored flow is the flow as it ENTERED the cache; in the model values are immutable integers and dump and "
    "yield are one step",
    "lengths: the theorems are unbounded; the tie to the code is validated on flows of 0..6 values in the bulk of the "
    "cases and on 63..65, 70, 1001 values (thorough also 129, 1000, 1100, 2500, 3000) in family L, including a member of "
    "Split with the default bufsize=1000",
    "laziness: the model (buildEls drops the incoming chain unstarted when a cache exists) and the no-pull clause inside "
    "a Sequence/Source assume that every upstream `run` and the source are generator functions - lena's convention. "
    "Sequence.run still CALLS el.run(flow) of every upstream element and Source.__call__ calls the source: an element "
    "whose run is an ordinary method consuming its input is run on every replay unless the Cache is hoisted (this is "
    "what alter_sequence is for).  Judgement: the Sequence clause of the statement is meant for lazy elements; family G "
    "runs eager elements (oracle only, not modelled): values, ends, storing and replay are checked for them, no-pull only "
    "in the hoisted modes",
    "one file-system instant per run: cache_exists (when run/alter_sequence is called), the open of _load_flow (first "
    "pull) and the hoisting see the same file system; a kept hoisted Source called after drop_cache, or an operation "
    "between run() and the first next(), is not generated (FileNotFoundError there is loud); storedFlow's "
    "fileNotFound branch and nextBottom(load fresh) on a missing file are unreachable under cacheExists on the same fs",
    "foreign files: an empty file at the cache name (an empty cache) and a stale temporary file of a killed process are "
    "generated (op plant); 'exists but unreadable' (os.access) is not (the harness runs as root)",
    "Split runs are not operations of `exec`: the history theorems (cache_complete, stored_cache_persists) range over "
    "run / drop_cache / finalize; for Split the per-run theorems (split_whole_*) hold and the oracle checks histories "
    "with Split runs.  splitLoop/drainLoop use fuel (number of buffers + 1); fuel exhaustion would return 'stopped' "
    "and is excluded by proof only for the whole-flow case, by the correspondence for finite buffers",
    "permissions are modelled only as 'os.remove fails although something readable is at the name' (dropBlocked, "
    "exercised with a directory at the cache name); Python 2 branches of Cache.__init__ are unreachable",
]
RULE = ("quick and thorough: exhaustive families — A: one cache in 4 pipeline shapes x source length 0..4 (thorough 0..6) "
        "x every crash point of the first run (consumer stops after k=0..n, source raises at k=0..n, each map element "
        "raises at k=0..n-1, complete) x generators closed or leaked x second run complete or interrupted+leaked x "
        "plain or hoisted x late finalisation or none, then a complete third run; B: two caches in 4 shapes x every "
        "crash point (source length 2..3; thorough 2..4) x drop / recompute of either cache; C: all 1331 histories of 3 operations (thorough: all 14641 of 4) over an alphabet of 11 "
        "(complete, stop, stop+leak, source raises, downstream element raises + leak, upstream element raises, recompute "
        "of either cache, drop of either cache, finalize) on M C0 M C1 M followed by a complete run; D: the 7 ways of "
        "calling (Source, Sequence.run, Cache.alter_sequence of a Sequence / of a Source, lena.core.alter_sequence, bare "
        "element through either) x every filling state x every nesting of a sub-Sequence. Value kinds (ints, pairs with "
        "context, mixed, falsy/None) rotate over the cases. Plus 5000 (thorough 120000) seeded random histories: up to 6 "
        "operations, up to 3 caches and 3 map elements per pipeline, source length 0..6, pickle protocols 0-5. "
        "S: a Cache in a member of Split - 6 (outer, branch) shapes x source length 0..3 (thorough 0..5) x bufsize "
        "None/1/2/3 x every crash point, every nesting of sub-Sequences in the member, a bare Cache member filled or not; "
        "N: the Cache at depth 0..3 of a Split member through every chain of Sequence / tuple member / RunIf / Split "
        "(the buffer-size rule of Split.__init__ alone, 8 trees per chain, and runs with the branch wrapped into 1..3 "
        "nested Sequences / Splits with outer bufsize 1, 2 smaller than the flow); "
        "X: cache names from the static context (two templates, two keys, two values, SetContext before/after/overridden, "
        "inside and outside a Split), repr, drop_cache with a directory at the name; E: one pipeline object (the same "
        "Source/Sequence/Cache/Split objects) run three times and after drop_cache. In the random histories 35% of the "
        "later runs re-use the pipeline object of an earlier run, 20% of the runs go through a Split. "
        "K: KeyboardInterrupt / SystemExit / BaseException subclass / GeneratorExit raised by the source or an element at "
        "value k (also before a Split); L: long flows (see ASSUMPTIONS); P: foreign files (empty cache file, stale "
        "temporary file); V: a Slice(k) element instead of the consumer's stop; G: eager elements (oracle only). Value "
        "kinds include 'mut': mutable values changed in place by every map element. "
        "Non-trivial: at least one run of the history yields a value.")

MODES = ("source", "sequence", "hoist", "hoist_src", "meta", "bare_hoist", "bare_meta")

# ----------------------------------------------------------------------------------------
# values

_SPECIAL = {0: 0, 1: None, 2: False, 3: "", 4: (), 5: 0.0, 6: [], 7: {}, 8: b"", 9: (9, {})}
_SPECIAL_REPR = {repr(v): k for k, v in _SPECIAL.items()}


def enc(code, vk):
    """the Python value that stands for `code` in a flow of kind vk (a bijection for every vk)"""
    if vk == "int":
        return code
    if vk == "ctx":
        return (code, {"code": code, "s": str(code)})
    if vk == "mut":
        # a mutable value with a mutable context: the map elements change it in place (see _Map.run)
        return [code, {"code": code, "n": {"s": str(code)}}]
    if vk == "falsy" and code in _SPECIAL:
        return copy.deepcopy(_SPECIAL[code])
    r = code % 4
    if r == 0:
        return code
    if r == 1:
        return (code, {"c": {"d": code}})
    if r == 2:
        return "v%d" % code
    return [code, None, {"k": (code,)}]


def dec(val, vk):
    """code of a value (type-strict), or a string starting with '?' for a value that is not in the image"""
    cand = None
    try:
        if vk == "falsy" and repr(val) in _SPECIAL_REPR:
            cand = _SPECIAL_REPR[repr(val)]
        elif type(val) is int:
            cand = val
        elif type(val) is tuple and len(val) == 2 and type(val[0]) is int:
            cand = val[0]
        elif type(val) is str and val[:1] == "v":
            cand = int(val[1:])
        elif type(val) is list and val and type(val[0]) is int:
            cand = val[0]
            if vk == "mut" and (type(val[1]) is not dict or val[1].get("code") != cand):
                cand = None
        if cand is not None and type(cand) is int and repr(enc(cand, vk)) == repr(val):
            return cand
    except Exception:
        pass
    return "?" + repr(val)[:60]


class SrcBoom(Exception):
    pass


class ElBoom(Exception):
    pass


class BaseBoom(BaseException):
    """an exception that is not an Exception (like KeyboardInterrupt, SystemExit, GeneratorExit)"""


_RAISE_KINDS = ("exc", "kbd", "sysexit", "base", "genexit")


def _boom(kind, who):
    """the exception a source (who='s') or an element raises: rk = exc (an Exception subclass) | kbd
    (KeyboardInterrupt) | sysexit (SystemExit) | base (a BaseException subclass) | genexit (GeneratorExit)"""
    if kind == "kbd":
        return KeyboardInterrupt()
    if kind == "sysexit":
        return SystemExit(3)
    if kind == "base":
        return BaseBoom()
    if kind == "genexit":
        return GeneratorExit()
    return SrcBoom() if who == "s" else ElBoom()


def _boom_name(kind, who):
    return {"kbd": "Other:KeyboardInterrupt", "sysexit": "Other:SystemExit", "base": "Other:BaseBoom",
            "genexit": "Other:GeneratorExit"}.get(kind, "Other:SrcBoom" if who == "s" else "Other:ElBoom")


class _Src(object):
    """instrumented source: a generator function; logs every resumption of its body"""

    def __init__(self, spec, vk, log):
        self.vals, self.raise_at, self.vk, self.log = spec["vals"], spec["raise"], vk, log
        self.rk = spec.get("rk", "exc")

    def renew(self, spec, log):
        """the same object in a later run: new values, new log"""
        self.vals, self.raise_at, self.log = spec["vals"], spec["raise"], log
        self.rk = spec.get("rk", "exc")

    def __call__(self):
        i = 0
        for i, c in enumerate(self.vals):
            if i == self.raise_at:
                self.log.append("s!%d" % i)
                raise _boom(self.rk, "s")
            self.log.append("s%d" % i)
            yield enc(c, self.vk)
        if self.raise_at == len(self.vals):
            self.log.append("s!%d" % len(self.vals))
            raise _boom(self.rk, "s")
        self.log.append("s$")


class _Map(object):
    """instrumented element: code v -> 10 v + a; raises on its raise_at-th value.
    `run` is a generator (lazy) - or, with spec["eager"], an ordinary method that consumes its input when it is
    called (when the Sequence is put together) and returns an iterator over the results.
    For the value kind "mut" the element changes the value it received *in place* and yields the same object."""

    def __init__(self, j, spec, vk, log):
        self.j, self.a, self.raise_at, self.vk, self.log = j, spec["a"], spec["raise"], vk, log
        self.rk = spec.get("rk", "exc")
        if spec.get("eager"):
            self.run = self._run_eager

    def renew(self, spec, log):
        self.raise_at, self.log = spec["raise"], log
        self.rk = spec.get("rk", "exc")

    def _apply(self, val):
        c = dec(val, self.vk)
        if type(c) is not int:
            return ("bad", val)
        if self.vk == "mut":
            new = 10 * c + self.a
            val[0] = new
            val[1]["code"] = new
            val[1]["n"]["s"] = str(new)
            return val
        return enc(10 * c + self.a, self.vk)

    def run(self, flow):
        n = 0
        for val in flow:
            if n == self.raise_at:
                self.log.append("m!%d:%d" % (self.j, n))
                raise _boom(self.rk, "m")
            self.log.append("m%d:%d" % (self.j, n))
            n += 1
            yield self._apply(val)

    def _run_eager(self, flow):
        return iter(list(_Map.run(self, flow)))


# ----------------------------------------------------------------------------------------
# running the real code

def _tmp_base():
    return "/dev/shm" if os.path.isdir("/dev/shm") and os.access("/dev/shm", os.W_OK) else None


def _names(d, case):
    """file name of every cache id of the case: ids < nb are plain names; template t unformatted is
    nb + t (V+1), formatted with the value v it is nb + t (V+1) + v + 1 (Model/C18Ctx.lean: nameId)"""
    nc = case["nc"]
    nb, V, tkeys = case.get("nb", nc), case.get("V", 0), case.get("tkeys", [])
    names = []
    for c in range(nc):
        if c < nb:
            names.append(os.path.join(d, "c%d.pkl" % c))
        else:
            t, r = divmod(c - nb, V + 1)
            names.append(os.path.join(d, ("t%d_{{k%d}}.pkl" % (t, tkeys[t])) if r == 0 else ("t%d_%d.pkl" % (t, r - 1))))
    return names


def _read_final(path, vk):
    if not os.path.exists(path):
        return None
    out = []
    try:
        with open(path, "rb") as f:
            while True:
                try:
                    out.append(dec(pickle.load(f), vk))
                except EOFError:
                    break
    except Exception as e:
        out.append("?corrupt:" + type(e).__name__)
    return out


def _fs_obs(names, vk):
    return [{"final": _read_final(n, vk), "tmp": os.path.exists(n + ".tmp")} for n in names]


def _bits(names):
    """existence of the cache file and of the temporary file of every cache, as a string of 0/1"""
    return "".join(("1" if os.path.exists(n) else "0") + ("1" if os.path.exists(n + ".tmp") else "0") for n in names)


def _mk_els(specs, j0, names, vk, log, caches=None, tmpl=None, maps=None):
    """the real elements of a list of specs; map elements are numbered over the elements that carry data"""
    import lena.flow
    import lena.meta
    els, j = [], j0
    for e in specs:
        if e["k"] == "map":
            els.append(_Map(j, e, vk, log))
            if maps is not None:
                maps.append(els[-1])
        elif e["k"] == "setctx":
            els.append(lena.meta.SetContext("k%d" % e["key"], e["v"]))
            continue
        else:
            name = names[e["c"]] if e["k"] == "cache" else names[tmpl["nb"] + e["t"] * (tmpl["V"] + 1)]
            el = lena.flow.Cache(name, recompute=bool(e["rc"]), method=e.get("method", "cPickle"),
                                 protocol=e.get("proto", 2))
            els.append(el)
            if caches is not None:
                caches.append(el)
        j += 1
    return els


def _shape_key(op):
    """what makes two run operations runs of the same pipeline object (everything but the source values and the
    crash points)"""
    def strip(els):
        return [{k: v for k, v in e.items() if k != "raise"} for e in els]
    if op["op"] == "splitrun":
        return jdump(["split", strip(op["outer"]), strip(op["branch"]), op["bufsize"], bool(op.get("bare")), op.get("nest"), op.get("wrap")])
    return jdump(["run", strip(op["els"]), op.get("mode", "source"), op.get("nest"),
                  op["take"] if op.get("via") == "slice" else None])


def _construct(op, names, vk, log, tmpl):
    """build the pipeline of a run with the real lena classes; returns (start, caches, src, maps) where start()
    puts the pipeline to work (calls alter_sequence where the mode says so) and returns the generator to consume"""
    import lena.core
    import lena.flow
    src = _Src(op["src"], vk, log)
    caches, maps = [], []
    if op["op"] == "splitrun":
        outer = _mk_els(op["outer"], 0, names, vk, log, caches, tmpl, maps)
        n_data = sum(1 for e in op["outer"] if e["k"] != "setctx")
        branch = _mk_els(op["branch"], n_data, names, vk, log, caches, tmpl, maps)
        if op.get("nest") and not op.get("bare"):
            i, j = op["nest"]
            branch = branch[:i] + [lena.core.Sequence(*branch[i:j])] + branch[j:]
        member = branch[0] if op.get("bare") else lena.core.Sequence(*branch)
        # the branch at depth d: wrapped into nested containers (each with this one child), outermost first
        for kind in reversed(op.get("wrap") or []):
            if kind == "seq":
                member = lena.core.Sequence(member)
            elif kind == "split":
                member = lena.core.Split([member])
            elif kind == "tsplit":
                member = lena.core.Split([(member,)])
            else:
                raise ValueError(kind)
        if op.get("default_bufsize"):
            sp = lena.core.Split([member])              # bufsize=1000
        else:
            sp = lena.core.Split([member], bufsize=op["bufsize"])
        source = lena.core.Source(src, *(outer + [sp]))
        return (lambda: source()), caches, src, maps
    els = _mk_els(op["els"], 0, names, vk, log, caches, tmpl, maps)
    if op.get("via") == "slice" and op["take"] is not None:
        els.append(lena.flow.Slice(op["take"]))         # downstream stops consuming: a real element ends the flow
    mode = op.get("mode", "source")
    if mode in ("bare_hoist", "bare_meta"):
        el = els[0]
        def start_bare():
            alt = lena.flow.Cache.alter_sequence(el) if mode == "bare_hoist" else lena.core.alter_sequence(el)
            if isinstance(alt, lena.core.Source):
                return alt()
            return alt.run(src())
        return start_bare, caches, src, maps
    nest = op.get("nest")
    if nest:
        i, j = nest
        els = els[:i] + [lena.core.Sequence(*els[i:j])] + els[j:]
    if mode == "source":
        source = lena.core.Source(src, *els)
        return (lambda: source()), caches, src, maps
    if mode == "hoist_src":
        source = lena.core.Source(src, *els)
        return (lambda: lena.flow.Cache.alter_sequence(source)()), caches, src, maps
    seq = lena.core.Sequence(*els)
    def start_seq():
        alt = seq
        if mode == "hoist":
            alt = lena.flow.Cache.alter_sequence(seq)
        elif mode == "meta":
            alt = lena.core.alter_sequence(seq)
        if isinstance(alt, lena.core.Source):
            return alt()
        return alt.run(src())
    return start_seq, caches, src, maps


def _build(op, names, vk, log, caches=None, tmpl=None, built=None):
    """the generator of a run; with op["reuse"] the pipeline object of an earlier run of the same shape is used
    again (same Cache, Sequence, Source, Split objects), otherwise new objects are made"""
    key = _shape_key(op)
    if op.get("reuse") and built is not None and key in built:
        start, cs, src, maps = built[key]
        src.renew(op["src"], log)
        specs = [e for e in (op["outer"] + op["branch"] if op["op"] == "splitrun" else op["els"]) if e["k"] == "map"]
        for m, e in zip(maps, specs):
            m.renew(e, log)
    else:
        start, cs, src, maps = _construct(op, names, vk, log, tmpl)
        if built is not None:
            built[key] = (start, cs, src, maps)
    if caches is not None:
        caches.extend(cs)
    return start()


def _tree_obj(t, d, counter, member=False):
    """the real object of a container tree: "C" a Cache, "L" another element, {"seq"|"tuple"|"runif"|"split": [...]}"""
    import lena.core
    import lena.flow
    if t == "C":
        counter[0] += 1
        return lena.flow.Cache(os.path.join(d, "rule%d.pkl" % counter[0]))
    if t == "L":
        return _Leaf()
    (kind, kids), = t.items()
    if kind == "split":
        return lena.core.Split([_tree_obj(k, d, counter, True) for k in kids])
    objs = [_tree_obj(k, d, counter) for k in kids]
    if kind == "tuple" and member:
        return tuple(objs)
    if kind == "runif":
        return lena.flow.RunIf(lambda val: True, *objs)
    return lena.core.Sequence(*objs)


class _Leaf(object):
    def run(self, flow):
        for val in flow:
            yield val


def _bufrule(op, d):
    """Split(members, bufsize)._bufsize is None?  (a private attribute read by the harness)"""
    import lena.core
    import lena.core.split
    counter = [0]
    sp = lena.core.Split([_tree_obj(t, d, counter, True) for t in op["members"]], bufsize=op["bufsize"])
    cc = getattr(lena.core.split, "_contains_cache", None)
    return {"none": sp._bufsize is None, "contains": [bool(cc(m)) if cc else None for m in sp._seqs]}


def _tree_has_cache(t):
    if t == "C":
        return True
    if t == "L":
        return False
    (kind, kids), = t.items()
    return any(_tree_has_cache(k) for k in kids)


def _run_op(op, names, vk, leaked, tmpl=None, built=None):
    log = []
    ob = {"out": [], "snaps": []}
    caches = []
    try:
        it = _build(op, names, vk, log, caches, tmpl, built)
        if op["op"] in ("run", "splitrun"):
            # the file every Cache element of the pipeline uses (a private attribute read by the harness)
            ob["ids"] = [names.index(c._filename) if c._filename in names else "?" + os.path.basename(c._filename)
                         for c in caches]
    except CaseTimeout:
        raise
    except BaseException as e:  # building a pipeline runs no generator body - unless an element's run is eager
        ob["end"] = "build:" + exc_name(e)
        ob["ev"] = log
        ob.setdefault("ids", [names.index(c._filename) if c._filename in names else "?" for c in caches])
        gc.collect()
        return ob
    take = op["take"]
    via_slice = op.get("via") == "slice" and take is not None
    held = None
    try:
        while via_slice or take is None or len(ob["out"]) < take:
            v = next(it)
            ob["out"].append(dec(v, vk))
            ob["snaps"].append(_bits(names))
        ob["end"] = "stopped"
        held = it
    except StopIteration:
        # with a Slice(take) as the last element the pipeline ends by itself after `take` values: the generators
        # below the Slice were stopped, not exhausted
        ob["end"] = "stopped" if via_slice and len(ob["out"]) == take else "exhausted"
    except CaseTimeout:
        raise
    except BaseException as e:
        ob["end"] = exc_name(e)
        held = (it, e)      # the traceback refers to the frames of the suspended generators
    it = None
    if op.get("fin", "close") == "leak" and held is not None:
        leaked.append(held)
    held = None
    gc.collect()
    ob["ev"] = log
    return ob


_READY = []


def _prepare():
    """import lena once; before every case move everything that exists to the permanent generation, so that
    the gc.collect() calls that make finalisation deterministic only scan the objects of the current case"""
    if not _READY:
        import lena.core
        import lena.flow
        gc.collect()
        _READY.append(True)
    # everything that exists now (modules, the cases and results of this worker) is either alive or was already
    # collected at the end of the previous case
    gc.freeze()


def run_impl(case):
    _prepare()
    nc, vk = case["nc"], case.get("vk", "int")
    d = tempfile.mkdtemp(prefix="c18-", dir=_tmp_base())
    names = _names(d, case)
    tmpl = {"nb": case.get("nb", nc), "V": case.get("V", 0)}
    leaked = []
    obs = []
    built = {}          # pipeline objects of earlier runs, for runs with "reuse"
    try:
        for op in case["hist"]:
            if op["op"] in ("run", "splitrun"):
                ob = _run_op(op, names, vk, leaked, tmpl, built)
            elif op["op"] == "plant":
                # a file that no run of the history made: an empty cache file, or the temporary file a killed
                # process left behind (no `finally` ran)
                ob = {}
                if op["what"] == "empty":
                    open(names[op["c"]], "wb").close()
                else:
                    with open(names[op["c"]] + ".tmp", "wb") as f:
                        f.write(b"\x80\x02K\x07.garbage")
            elif op["op"] == "bufrule":
                ob = _bufrule(op, d)
            elif op["op"] == "dropdir":
                # something readable that os.remove cannot remove is at the name of the cache: a directory
                import lena.flow
                name = os.path.join(d, "blocked%d.pkl" % op["c"])
                os.mkdir(name)
                ob = {}
                try:
                    lena.flow.Cache(name, recompute=bool(op.get("rc"))).drop_cache()
                    ob["r"] = "ok"
                except Exception as e:      # LenaEnvironmentError is an OSError, too
                    ob["r"] = exc_name(e) if exc_name(e).startswith("Lena") else ("OSError" if isinstance(e, OSError) else exc_name(e))
                os.rmdir(name)
            elif op["op"] == "repr":
                import lena.flow
                ob = {"exists": "[cache exists]" in repr(lena.flow.Cache(names[op["c"]], recompute=bool(op.get("rc"))))}
            elif op["op"] == "drop":
                import lena.flow
                ob = {}
                try:
                    lena.flow.Cache(names[op["c"]], recompute=bool(op.get("rc"))).drop_cache()
                    ob["r"] = "ok"
                except Exception as e:
                    ob["r"] = exc_name(e)
            elif op["op"] == "finalize":
                ob = {}
                while leaked:
                    leaked.pop(0)
                    gc.collect()
            else:
                raise ValueError(op["op"])
            ob["fs"] = _fs_obs(names, vk)
            obs.append(ob)
    finally:
        del leaked[:]
        built.clear()
        gc.collect()
        shutil.rmtree(d, ignore_errors=True)
    return {"ops": obs}


# ----------------------------------------------------------------------------------------
# Python reference (specification level; independent of the Lean model)

def _ev_src(ev):
    """events are compact strings: s<i> (the source yields its i-th value), s!<i> (raises), s$ (ends),
    m<j>:<i> (element j receives its i-th value), m!<j>:<i> (and raises)"""
    return ev[0] == "s"


def _ev_j(ev):
    return int(ev.lstrip("m!").split(":")[0])


def _src_flow(src):
    vals, r = list(src["vals"]), src["raise"]
    if r is not None and r <= len(vals):
        return vals[:r], _boom_name(src.get("rk", "exc"), "s")
    return vals, None


def _map_flow(el, flow):
    vals, exc = flow
    r = el["raise"]
    if r is not None and r < len(vals):
        return [10 * v + el["a"] for v in vals[:r]], _boom_name(el.get("rk", "exc"), "m")
    return [10 * v + el["a"] for v in vals], exc


def _pipe_flow(stored, src, els):
    """the complete flow of a pipeline when cache c holds stored[c] (None: no cache); also the flow that
    enters every cache that is filled by this run, and the index of the cache that is replayed (or None)"""
    flow, inputs, replay = _src_flow(src), {}, None
    for j, el in enumerate(els):
        if el["k"] == "map":
            flow = _map_flow(el, flow)
        elif stored[el["c"]] is not None and not el["rc"]:
            flow, inputs, replay = (list(stored[el["c"]]), None), {}, j
        else:
            inputs[el["c"]] = flow
    return flow, inputs, replay


def _resolved(op, ids, part="els", skip=0):
    """the pipeline of a run with every templated cache replaced by the cache id it was observed (or predicted) to use,
    and without the SetContext elements (`skip` caches precede this part)"""
    out, i = [], skip
    for e in op[part]:
        if e["k"] == "setctx":
            continue
        if e["k"] == "tcache":
            e = {"k": "cache", "c": ids[i], "rc": e["rc"]}
        if e["k"] == "cache":
            i += 1
        out.append(e)
    return out


def _has_eager(case):
    return any(e.get("eager") for op in case["hist"] for e in op.get("els", []))


def model_requests(case):
    # pipelines with an element whose `run` is not lazy are outside the model (ASSUMPTIONS): oracle only
    return [] if _has_eager(case) else [case]


def compare(case, res, replies):
    m = replies[0]
    if "err" in m:
        return f"model driver error: {m['err']}"
    nc = case["nc"]
    finals = [None] * nc
    for i, (op, a, b) in enumerate(zip(case["hist"], res["ops"], m["ops"])):
        b = dict(b)
        ref = b.pop("ref", None)
        spec = b.pop("spec", None)
        if jdump(a) != jdump(b):
            keys = [k for k in sorted(set(a) | set(b)) if jdump(a.get(k)) != jdump(b.get(k))]
            return (f"op {i} ({op['op']}): impl and model differ in {keys}: impl "
                    + jdump({k: a.get(k) for k in keys})[:300] + " model " + jdump({k: b.get(k) for k in keys})[:300])
        if op["op"] == "run":
            if b["ids"] != _static_ids(case, op["els"])[0]:
                return (f"op {i}: Lean resolve gives the cache files {b['ids']}, the Python naming rule "
                        f"{_static_ids(case, op['els'])[0]}")
            # (pipeFlow and the vocabulary do not distinguish exception classes: the reference is taken without them)
            els = [{k: v for k, v in e.items() if k != "rk"} for e in _resolved(op, b["ids"])]
            src0 = {k: v for k, v in op["src"].items() if k != "rk"}
            flow, inputs, replay = _pipe_flow(finals, src0, els)
            if ref != {"vals": flow[0], "exc": flow[1]}:
                return f"op {i}: Lean pipeFlow {ref} differs from the Python reference {flow}"
            # the specification vocabulary of the theorems, evaluated by the driver, against Python
            k = op["take"]
            end = "stopped" if (k is not None and k <= len(flow[0])) else ("exhausted" if flow[1] is None else flow[1])
            erased = _pipe_flow([None] * len(finals), src0, [e for e in els if e["k"] == "map"])[0]
            py = {"distinct": len(set(b["ids"])) == len(b["ids"]),
                  "nofilled": replay is None,
                  "modeok": op.get("mode", "source") not in ("bare_hoist", "bare_meta") or (len(els) == 1 and els[0]["k"] == "cache"),
                  "erased": {"vals": erased[0], "exc": erased[1]},
                  "endof": end,
                  "stored": sorted([c, fl[0]] for c, fl in inputs.items()) if end == "exhausted" else [],
                  "replay": replay,
                  "evafter": None if replay is None else all((not _ev_src(ev)) and _ev_j(ev) > replay for ev in b["ev"])}
            spec = dict(spec or {})
            spec["stored"] = sorted(spec.get("stored", []))
            if jdump(spec) != jdump(py):
                keys = [x for x in py if jdump(py[x]) != jdump(spec.get(x))]
                return (f"op {i}: specification vocabulary: Lean and Python differ in {keys}: Lean "
                        + jdump({x: spec.get(x) for x in keys})[:300] + " Python " + jdump({x: py[x] for x in keys})[:300])
        finals = [f["final"] for f in b["fs"]]
    return None


# ----------------------------------------------------------------------------------------
# oracle: the property's statement evaluated on what the real code did

def oracle(case, res):
    nc = case["nc"]
    stored = [None] * nc          # the flow that the last complete storing run of cache c saw
    for i, (op, ob) in enumerate(zip(case["hist"], res["ops"])):
        where = f"op {i} {_show_op(op)}"
        maybe_dropped = set()
        if op["op"] == "run":
            if any(type(c) is not int for c in ob.get("ids", [])):
                return f"cache-name: {where}: a Cache uses a file outside the names of the case: {ob.get('ids')}"
            els = _resolved(op, ob.get("ids", []))
            (vals, exc), inputs, replay = _pipe_flow(stored, op["src"], els)
            hoisted = op.get("mode", "source") in ("hoist", "hoist_src", "bare_hoist", "bare_meta")
            eager = [j for j, e in enumerate(els) if e.get("eager") and not (hoisted and replay is not None and j < replay)]
            if eager:
                # an element whose `run` is an ordinary method consumes its input when the pipeline is put together:
                # everything up to the last such element behaves like the outer pipeline of a Split (pulled ahead,
                # its exceptions arrive at construction time); the laziness the no-pull clause relies on is absent
                msg, maybe_dropped = _two_phase(where, stored, op["src"], els[:eager[-1] + 1], els[eager[-1] + 1:], ob,
                                                op["take"], check_outer_pull=False)
                if msg:
                    return msg
                if hoisted and replay is not None:
                    for ev in ob["ev"]:
                        if _ev_src(ev) or _ev_j(ev) < replay:
                            return (f"upstream-pulled: {where}: cache {els[replay]['c']} is filled and hoisted, but the run "
                                    f"pulled from upstream of it (event {ev})")
                for c in range(nc):
                    f = ob["fs"][c]["final"]
                    if f is None and c in maybe_dropped:
                        stored[c] = None
                    if f != stored[c]:
                        return (f"cache-content: after {where} the file of cache {c} holds {f}, but the complete run that "
                                f"stored it saw {stored[c]}")
                continue
            if ob["end"].startswith("build:"):
                return f"build-failed: {where}: putting the pipeline together raised {ob['end'][6:]}"
            k = op["take"]
            if k is not None and k <= len(vals):
                exp_out, exp_end = vals[:k], "stopped"
            else:
                exp_out, exp_end = vals, ("exhausted" if exc is None else exc)
            if replay is not None:
                c = els[replay]["c"]
                for ev in ob["ev"]:
                    if _ev_src(ev):
                        return (f"upstream-pulled: {where}: cache {c} is filled, but the run pulled from the source "
                                f"(events {ob['ev'][:6]})")
                    if _ev_j(ev) < replay:
                        return (f"upstream-ran: {where}: cache {c} (element {replay}) is filled, but element {_ev_j(ev)} "
                                f"upstream of it processed a value")
                if ob["out"] != exp_out:
                    return (f"replay-differs: {where}: cache {c} holds {stored[c]}, expected the run to yield {exp_out}, "
                            f"it yielded {ob['out']} (end {ob['end']})")
            elif ob["out"] != exp_out:
                return f"flow-altered: {where}: expected the run to yield {exp_out}, it yielded {ob['out']} (end {ob['end']})"
            if ob["end"] != exp_end:
                return f"end-differs: {where}: expected the run to end with {exp_end}, it ended with {ob['end']} after {ob['out']}"
            if exp_end == "exhausted":
                for c, fl in inputs.items():
                    stored[c] = list(fl[0])
            else:
                # an interrupted recomputation may or may not keep the old cache: the statement allows both
                maybe_dropped = {c for c in inputs if stored[c] is not None}
        elif op["op"] == "splitrun":
            # Split fills its buffers from the outer pipeline (source + outer elements) before it yields what the branch
            # makes of them: the outer pipeline is pulled whatever the branch does (and may be pulled to its end, and
            # its caches filled, before the consumer stops); an exception of the outer pipeline may arrive before all
            # earlier values were yielded.  The branch is a pipeline on the values of the outer flow.
            if any(type(c) is not int for c in ob.get("ids", [])):
                return f"cache-name: {where}: a Cache uses a file outside the names of the case: {ob.get('ids')}"
            if ob["end"].startswith("build:"):
                return f"build-failed: {where}: putting the pipeline together raised {ob['end'][6:]}"
            outer = _resolved(op, ob.get("ids", []), "outer")
            branch = _resolved(op, ob.get("ids", []), "branch", sum(1 for e in outer if e["k"] == "cache"))
            msg, maybe_dropped = _two_phase(where, stored, op["src"], outer, branch, ob, op["take"])
            if msg:
                return msg
        elif op["op"] == "plant":
            if op["what"] == "empty":
                stored[op["c"]] = []          # somebody else's (empty) cache: it is the stored flow from now on
        elif op["op"] == "bufrule":
            # a Sequence member is run once per buffer: a Cache anywhere inside it must get the whole flow
            if op["bufsize"] is not None and any(_tree_has_cache(t) for t in op["members"]) and not ob["none"]:
                return (f"cache-per-buffer: {where}: a member of the Split holds a Cache, but the Split keeps "
                        f"bufsize={op['bufsize']}: the Cache would store one buffer as the complete flow")
        elif op["op"] == "dropdir":
            # "If cache exists and is readable, but could not be deleted, LenaEnvironmentError is raised" (docstring)
            if ob["r"] == "ok":
                return f"drop-silent: {where}: drop_cache() returned although the cache could not be removed"
        elif op["op"] == "repr":
            # the representation says whether the cache will be replayed
            if ob["exists"] != (stored[op["c"]] is not None and not op.get("rc")):
                return (f"repr-differs: {where}: repr says 'cache exists' = {ob['exists']}, the cache holds "
                        f"{stored[op['c']]}")
        elif op["op"] == "drop":
            if stored[op["c"]] is not None and ob["r"] != "ok":
                return f"drop-failed: {where}: drop_cache() of an existing cache raised {ob['r']}"
            stored[op["c"]] = None
        for c in range(nc):
            f = ob["fs"][c]["final"]
            if f is None and c in maybe_dropped:
                stored[c] = None
            if f != stored[c]:
                if stored[c] is None:
                    return (f"cache-without-complete-run: after {where} the file of cache {c} exists and holds {f}, but no "
                            f"complete run has stored it: a later run would present it as the complete flow")
                return (f"cache-content: after {where} the file of cache {c} holds {f}, but the complete run that "
                        f"stored it saw {stored[c]}")
    return None


def _two_phase(where, stored, src, outer, branch, ob, k, check_outer_pull=True):
    """the statement for a pipeline whose first part (`outer`) is pulled ahead of what the second part yields;
    updates `stored`, returns (failure message or None, caches an interrupted recomputation may have dropped)"""
    m = len(outer)
    end = ob["end"][6:] if ob["end"].startswith("build:") else ob["end"]
    (o_vals, o_exc), o_inputs, o_replay = _pipe_flow(stored, src, outer)
    (vals, exc), b_inputs, b_replay = _pipe_flow(stored, {"vals": o_vals, "raise": None}, branch)
    for ev in ob["ev"]:
        if check_outer_pull and o_replay is not None and (_ev_src(ev) or _ev_j(ev) < o_replay):
            return (f"upstream-pulled: {where}: cache {outer[o_replay]['c']} is filled, but the run pulled "
                    f"from upstream of it (event {ev})"), set()
        if b_replay is not None and not _ev_src(ev) and m <= _ev_j(ev) < m + b_replay:
            return (f"upstream-ran: {where}: cache {branch[b_replay]['c']} (element {m + b_replay}) is "
                    f"filled, but element {_ev_j(ev)} upstream of it processed a value"), set()
    if ob["out"] != vals[:len(ob["out"])]:
        return (f"flow-altered: {where}: the flow through the pipeline is {vals}, the run yielded {ob['out']} "
                f"(end {ob['end']})"), set()
    if end == "exhausted":
        if exc is not None or o_exc is not None or ob["out"] != vals:
            return (f"end-differs: {where}: the run ended normally after {ob['out']}, the flow is {vals} "
                    f"ending with {exc or o_exc}"), set()
        for c, fl in list(o_inputs.items()) + list(b_inputs.items()):
            stored[c] = list(fl[0])
        return None, set()
    if end == "stopped":
        if k is None or len(ob["out"]) != k:
            return f"end-differs: {where}: the consumer was stopped after {len(ob['out'])} values, take={k}", set()
    elif end not in (exc, o_exc):
        return (f"end-differs: {where}: the run ended with {ob['end']}; the flow {vals} ends with {exc} "
                f"(first part: {o_exc})"), set()
    maybe_dropped = {c for c in list(o_inputs) + list(b_inputs) if stored[c] is not None}
    if o_exc is None:
        # the first part may have been pulled to its normal end: a complete run through its caches
        for c, fl in o_inputs.items():
            if ob["fs"][c]["final"] == list(fl[0]):
                stored[c] = list(fl[0])
    return None, maybe_dropped


def _show_el(e):
    if e["k"] == "map":
        return "M%d%s%s%s" % (e["a"], "e" if e.get("eager") else "", "" if e["raise"] is None else "!%d" % e["raise"],
                              "" if e.get("rk", "exc") == "exc" else "(" + e["rk"] + ")")
    if e["k"] == "setctx":
        return "Set(k%d=%d)" % (e["key"], e["v"])
    if e["k"] == "tcache":
        return "C(t%d_{k%d})%s" % (e["t"], e["key"], "r" if e["rc"] else "")
    return "C%d%s" % (e["c"], "r" if e["rc"] else "")


def _show_vals(vals):
    return str(vals) if len(vals) <= 12 else f"[{vals[0]}, {vals[1]}, ... {len(vals)} values ... {vals[-1]}]"


def _show_els(els):
    return "".join(_show_el(e) for e in els)


def _show_op(op):
    if op["op"] == "splitrun":
        member = _show_els(op["branch"]) if op.get("bare") else f"Sequence({_show_els(op['branch'])})"
        return (f"splitrun[src={op['src']['vals']}" + ("" if op["src"]["raise"] is None else f"!{op['src']['raise']}")
                + f" outer={_show_els(op['outer'])} Split([{member}], bufsize={op['bufsize']})"
                + (f" nest={op['nest']}" if op.get("nest") else "") + (f" wrap={op['wrap']}" if op.get("wrap") else "")
                + f" take={op['take']} {op.get('fin', 'close')}]")
    if op["op"] != "run":
        return jdump(op)
    els = _show_els(op["els"])
    return (f"run[{op.get('mode', 'source')} src={_show_vals(op['src']['vals'])}"
            + ("" if op["src"]["raise"] is None else f"!{op['src']['raise']}")
            + ("" if op["src"].get("rk", "exc") == "exc" else f"({op['src']['rk']})")
            + (" via=Slice" if op.get("via") == "slice" else "")
            + f" els={els} take={op['take']} {op.get('fin', 'close')}]")


def nontrivial(case, res):
    return any(ob.get("out") for ob in res["ops"])


def signature(case, failure):
    return failure.split(":", 1)[0]


def classify(case, res):
    labels = ["family:" + case.get("fam", "?"), "vk:" + case.get("vk", "int")]
    for op, ob in zip(case["hist"], res["ops"]):
        if op["op"] == "run":
            labels.append("run-end:" + ob["end"] + ("+leak" if op.get("fin") == "leak" and ob["end"] != "exhausted" else ""))
            labels.append("run-mode:" + op.get("mode", "source"))
            labels.append("run:" + ("no-source-event" if not any(_ev_src(e) for e in ob["ev"]) else "from-source"))
            labels.append("take:" + ("all" if op["take"] is None else "k"))
        elif op["op"] == "bufrule":
            labels.append("bufrule:" + ("whole" if ob["none"] else "buffered"))
        elif op["op"] == "splitrun":
            labels.append("split-depth:%d" % len(op.get("wrap") or []))
            labels.append("split-end:" + ob["end"])
            labels.append("split-bufsize:" + ("None" if op["bufsize"] is None else "n"))
        else:
            labels.append("op:" + op["op"] + (":" + ob["r"] if "r" in ob else ""))
    return sorted(set(labels))


def _static_ids(case, els, ctx=None):
    """the cache ids of a list of element specs under the static context set by the SetContext elements before
    them (a Python transcription of the naming rule, used to keep shrunk cases well-formed)"""
    nb, V = case.get("nb", case["nc"]), case.get("V", 0)
    ctx = dict(ctx or {})
    ids = []
    for e in els:
        if e["k"] == "setctx":
            ctx[e["key"]] = e["v"]
        elif e["k"] == "cache":
            ids.append(e["c"])
        elif e["k"] == "tcache":
            v = ctx.get(e["key"])
            ids.append(nb + e["t"] * (V + 1) + (0 if v is None else v + 1))
    return ids, ctx


def _well_formed(case):
    """every pipeline of the case uses distinct cache files"""
    for op in case["hist"]:
        if op["op"] == "run":
            ids = _static_ids(case, op["els"])[0]
        elif op["op"] == "splitrun":
            o_ids, ctx = _static_ids(case, op["outer"])
            ids = o_ids + _static_ids(case, op["branch"], ctx)[0]
        else:
            continue
        if len(set(ids)) != len(ids) or any(c >= case["nc"] for c in ids):
            return False
    return True


def shrink(case):
    for cand in _shrink(case):
        if _well_formed(cand):
            yield cand


def _shrink(case):
    hist = case["hist"]
    for i in range(len(hist)):
        yield dict(case, hist=hist[:i] + hist[i + 1:])
    if case.get("vk", "int") != "int":
        yield dict(case, vk="int")
    for i, op in enumerate(hist):
        if op["op"] == "splitrun":
            def rep2(**kw):
                return dict(case, hist=hist[:i] + [dict(op, **kw)] + hist[i + 1:])
            if op["src"]["vals"]:
                yield rep2(src=dict(op["src"], vals=op["src"]["vals"][:-1]))
            if op["src"]["raise"] is not None:
                yield rep2(src=dict(op["src"], **{"raise": None}))
            for part in ("outer", "branch"):
                for j in range(len(op[part])):
                    if part == "outer" or len(op[part]) > 1:
                        yield rep2(**{part: op[part][:j] + op[part][j + 1:]})
            if op["bufsize"] is not None and op["bufsize"] > 1:
                yield rep2(bufsize=op["bufsize"] - 1)
            if op["take"] is not None:
                yield rep2(take=None)
            if op.get("nest"):
                yield rep2(nest=None)
            if op.get("wrap"):
                yield rep2(wrap=op["wrap"][1:])
                yield rep2(wrap=op["wrap"][:-1])
        if op["op"] != "run":
            continue
        def rep(**kw):
            return dict(case, hist=hist[:i] + [dict(op, **kw)] + hist[i + 1:])
        if op.get("nest"):
            yield rep(nest=None)
        if op.get("mode", "source") not in ("source", "bare_hoist", "bare_meta"):
            yield rep(mode="source")
        if op["src"]["vals"]:
            yield rep(src=dict(op["src"], vals=op["src"]["vals"][:-1]))
        if op["src"]["raise"] is not None:
            yield rep(src=dict(op["src"], **{"raise": None}))
        if not op.get("nest") and op.get("mode", "source") not in ("bare_hoist", "bare_meta"):
            for j in range(len(op["els"])):
                yield rep(els=op["els"][:j] + op["els"][j + 1:])
        for j, e in enumerate(op["els"]):
            if e["k"] == "map" and e.get("raise") is not None:
                yield rep(els=op["els"][:j] + [dict(e, **{"raise": None})] + op["els"][j + 1:])
        if op["take"] is not None and op["take"] > 0:
            yield rep(take=op["take"] - 1)


# ----------------------------------------------------------------------------------------
# case generation

def M(a, r=None):
    return {"k": "map", "a": a, "raise": r}


def C(c, rc=False):
    return {"k": "cache", "c": c, "rc": rc}


def R(vals, els, take=None, fin="close", mode="source", sraise=None, nest=None, rk="exc", via=None):
    op = {"op": "run", "mode": mode, "src": {"vals": list(vals), "raise": sraise}, "els": [dict(e) for e in els],
          "take": take, "fin": fin, "nest": nest}
    if rk != "exc":
        op["src"]["rk"] = rk
    if via:
        op["via"] = via
    return op


DROP = lambda c, rc=False: {"op": "drop", "c": c, "rc": rc}
FINALIZE = {"op": "finalize"}
_VKS = ("int", "ctx", "mixed", "falsy", "mut")


def _vals(run, n):
    """codes of the n source values of the run-th run of a history (different runs, different values)"""
    return [run * 20 + i for i in range(n)]


def _crash_variants(shape, n, run=0, fins=("close", "leak")):
    """every way the run of `shape` over a flow of n values can go: complete, the consumer stopping after
    k = 0..n values, the source raising at k = 0..n, each map raising at value k = 0..n-1"""
    vals = _vals(run, n)
    yield R(vals, shape)
    for fin in fins:
        for k in range(n + 1):
            yield R(vals, shape, take=k, fin=fin)
        for k in range(n + 1):
            yield R(vals, shape, sraise=k, fin=fin)
        for j, e in enumerate(shape):
            if e["k"] == "map":
                for k in range(n):
                    els = [dict(x) for x in shape]
                    els[j]["raise"] = k
                    yield R(vals, els, fin=fin)


_SHAPES1 = [[C(0)], [M(1), C(0)], [C(0), M(2)], [M(1), C(0), M(2)]]
_SHAPES2 = [[C(0), C(1)], [C(0), M(2), C(1)], [M(1), C(0), M(2), C(1), M(3)], [M(1), C(1), C(0), M(3)]]


def _family_a(ns):
    """one cache: first run with every crash point x finalised or not; second run (other values) complete or
    interrupted, plain or hoisted; the leaked generators finalised or not; a complete third run"""
    for shape in _SHAPES1:
        for n in ns:
            for r1 in _crash_variants(shape, n):
                for r2 in (R(_vals(1, 2), shape), R(_vals(1, 2), shape, take=1, fin="leak")):
                    for mode in ("source", "hoist"):
                        for fz in (False, True):
                            hist = [r1, dict(r2, mode=mode)] + ([FINALIZE] if fz else []) + \
                                   [R(_vals(2, 3), shape, mode="sequence")]
                            yield {"nc": 1, "fam": "A", "hist": hist}


def _family_b(n=2):
    """two caches at all positions: every crash point of the first run, then drop / recompute of either cache"""
    for shape in _SHAPES2:
        def with_rc(c):
            return [dict(e, rc=True) if e["k"] == "cache" and e["c"] == c else dict(e) for e in shape]
        seconds = [[R(_vals(1, 3), shape)],
                   [DROP(0), R(_vals(1, 3), shape)],
                   [DROP(1), R(_vals(1, 3), shape)],
                   [R(_vals(1, 3), with_rc(0))],
                   [R(_vals(1, 3), with_rc(1))],
                   [R(_vals(1, 3), with_rc(1), take=1), FINALIZE]]
        for r1 in _crash_variants(shape, n):
            for sec in seconds:
                yield {"nc": 2, "fam": "B", "hist": [r1] + sec + [R(_vals(2, 2), shape, mode="hoist")]}


def _family_c(length):
    """all histories of `length` operations over an alphabet of 11, on M C0 M C1 M, then a complete run"""
    shape = [M(1), C(0), M(2), C(1), M(3)]
    def rc(c):
        return [dict(e, rc=True) if e["k"] == "cache" and e["c"] == c else dict(e) for e in shape]
    def mr(j, k):
        els = [dict(x) for x in shape]
        els[j]["raise"] = k
        return els
    def alphabet(i):
        v = _vals(i, 2)
        return [R(v, shape), R(v, shape, take=1), R(v, shape, take=1, fin="leak"), R(v, shape, sraise=1),
                R(v, mr(4, 1), fin="leak"), R(v, mr(2, 1)), R(v, rc(0)), R(v, rc(1), take=2, fin="leak"),
                DROP(0), DROP(1), FINALIZE]
    for idx in itertools.product(range(11), repeat=length):
        hist = [alphabet(i)[a] for i, a in enumerate(idx)]
        yield {"nc": 2, "fam": "C", "hist": hist + [R(_vals(length, 3), shape, mode="sequence")]}


def _family_d():
    """every way of calling x every filling state x nesting, for all shapes"""
    for shape in _SHAPES1 + _SHAPES2:
        nc = 1 + max(e["c"] for e in shape if e["k"] == "cache")
        ids = sorted(e["c"] for e in shape if e["k"] == "cache")
        for filled in itertools.product((False, True), repeat=len(ids)):
            pre = []
            for c, f in zip(ids, filled):
                if f:
                    pre.append(R(_vals(3 + c, 2 + c), [C(c)]))
            modes = ("source", "sequence", "hoist", "hoist_src", "meta")
            nests = [None] + [[i, j] for i in range(len(shape)) for j in range(i + 1, len(shape) + 1)
                              if (i, j) != (0, len(shape)) or len(shape) == 1]
            for mode in modes:
                for nest in nests:
                    for take in (None, 1):
                        yield {"nc": nc, "fam": "D", "hist": pre + [R(_vals(0, 3), shape, mode=mode, nest=nest, take=take),
                                                                    R(_vals(1, 2), shape, mode=mode, nest=nest)]}
    for filled in (False, True):
        for mode in ("bare_hoist", "bare_meta"):
            for rcf in (False, True):
                pre = [R(_vals(3, 2), [C(0)])] if filled else []
                yield {"nc": 1, "fam": "D", "hist": pre + [R(_vals(0, 3), [C(0, rcf)], mode=mode, take=2, fin="leak"),
                                                            R(_vals(1, 2), [C(0, rcf)], mode=mode),
                                                            FINALIZE, R(_vals(2, 1), [C(0)], mode=mode)]}


def SR(vals, outer, branch, bufsize, take=None, fin="close", sraise=None, bare=False):
    return {"op": "splitrun", "src": {"vals": list(vals), "raise": sraise}, "outer": [dict(e) for e in outer],
            "branch": [dict(e) for e in branch], "bufsize": bufsize, "take": take, "fin": fin, "bare": bare}


_SPLIT_SHAPES = [([], [C(0)]), ([M(1)], [C(0)]), ([], [M(1), C(0), M(2)]), ([M(1)], [C(0), M(2), C(1)]),
                 ([C(1)], [M(2), C(0)]), ([M(3)], [M(1)])]


def _split_variants(outer, branch, n, bufsize, run=0, bare=False):
    vals = _vals(run, n)
    yield SR(vals, outer, branch, bufsize, bare=bare)
    for fin in ("close", "leak"):
        for k in range(n + 1):
            yield SR(vals, outer, branch, bufsize, take=k, fin=fin, bare=bare)
        for k in range(n + 1):
            yield SR(vals, outer, branch, bufsize, sraise=k, fin=fin, bare=bare)
        if bare:
            continue
        for part, els in (("outer", outer), ("branch", branch)):
            if part == "branch" and bufsize is not None:
                continue        # an element with state in a per-buffer branch is Split's documented caveat
            for j, e in enumerate(els):
                if e["k"] == "map":
                    for k in range(n):
                        o2, b2 = [dict(x) for x in outer], [dict(x) for x in branch]
                        (o2 if part == "outer" else b2)[j]["raise"] = k
                        yield SR(vals, o2, b2, bufsize, fin=fin)


def _family_s(ns):
    """a Sequence branch with caches inside Split: every buffer size x every crash point, then a plain complete
    run of the same elements and a replay through the Split"""
    for outer, branch in _SPLIT_SHAPES:
        nc = 1 + max([e["c"] for e in outer + branch if e["k"] == "cache"] + [0])
        for n in ns:
            for bufsize in (None, 1, 2, 3):
                for r1 in _split_variants(outer, branch, n, bufsize):
                    yield {"nc": nc, "fam": "S", "hist": [r1, R(_vals(1, 2), outer + branch, mode="sequence"),
                                                          SR(_vals(2, 3), outer, branch, bufsize)]}
                # the Cache nested in sub-Sequences of the member
                for i in range(len(branch)):
                    for j in range(i + 1, len(branch) + 1):
                        yield {"nc": nc, "fam": "S", "hist": [dict(SR(_vals(0, n), outer, branch, bufsize), nest=[i, j]),
                                                              dict(SR(_vals(2, 3), outer, branch, bufsize), nest=[i, j])]}
    # a bare Cache as a member of Split: hoisted into a Source when it is filled (lena.core.alter_sequence)
    for outer in ([], [M(1)], [C(1)]):
        for rcf in (False, True):
            for n in ns:
                for bufsize in (None, 1, 2):
                    for filled in (False, True):
                        pre = [R(_vals(3, 2), [C(0)])] if filled else []
                        for r1 in _split_variants(outer, [C(0, rcf)], n, bufsize, bare=True):
                            yield {"nc": 2, "fam": "S", "hist": pre + [r1, SR(_vals(2, 3), outer, [C(0)], bufsize, bare=True),
                                                                       R(_vals(1, 1), [C(0)])]}


def _family_e(ns):
    """one pipeline object run three times (state kept in the objects between runs must not matter): every crash
    point of the first run, then a complete run and a replay with the same Source / Sequence / Cache / Split objects"""
    for shape in _SHAPES1 + _SHAPES2[:2]:
        nc = 1 + max(e["c"] for e in shape if e["k"] == "cache")
        for n in ns:
            for r1 in _crash_variants(shape, n):
                for mode in ("source", "sequence", "hoist", "hoist_src"):
                    hist = [dict(r1, mode=mode), dict(R(_vals(1, 2), shape, mode=mode), reuse=True),
                            dict(R(_vals(2, 3), shape, mode=mode), reuse=True), DROP(0),
                            dict(R(_vals(3, 1), shape, mode=mode), reuse=True)]
                    yield {"nc": nc, "fam": "E", "hist": hist}
    for outer, branch in _SPLIT_SHAPES[:4]:
        nc = 1 + max([e["c"] for e in outer + branch if e["k"] == "cache"] + [0])
        for n in ns:
            for r1 in _split_variants(outer, branch, n, 2):
                yield {"nc": nc, "fam": "E", "hist": [r1, dict(SR(_vals(1, 3), outer, branch, 2), reuse=True),
                                                      dict(SR(_vals(2, 2), outer, branch, 2), reuse=True)]}


def _chains(kinds, depth):
    for d in range(depth + 1):
        for ch in itertools.product(kinds, repeat=d):
            yield list(ch)


def _family_n():
    """the Cache at depth 0..3 of a Split member, through every alternation of containers"""
    # (a) the buffer-size rule alone: chains of Sequence / tuple / RunIf / Split, the payload a Cache or not,
    #     with and without sibling elements
    for chain in _chains(("seq", "tuple", "runif", "split"), 3):
        # a tuple is a Sequence only as a member of a Split
        if any(k == "tuple" and i > 0 and chain[i - 1] != "split" for i, k in enumerate(chain)):
            continue
        for payload in ("C", "L"):
            for sib in (False, True):
                t = payload
                for kind in reversed(chain):
                    kids = [t] if kind == "split" else (["L", t] if sib else [t])
                    if kind == "split" and sib:
                        kids = [{"seq": ["L"]}, t]
                    t = {kind: kids}
                for bufsize in (2, None):
                    yield {"nc": 1, "fam": "N", "hist": [{"op": "bufrule", "members": [t], "bufsize": bufsize},
                                                         {"op": "bufrule", "members": [{"seq": ["L"]}, t], "bufsize": bufsize}]}
    # (b) runs: the branch wrapped into 1..3 nested Sequences / Splits / Splits with a tuple member, outer buffer
    #     smaller than the flow
    for wrap in _chains(("seq", "split", "tsplit"), 3):
        if not wrap:
            continue
        for outer, branch in (([], [C(0)]), ([M(1)], [M(2), C(0), M(3)])):
            for bufsize in (1, 2):
                for r1 in (SR(_vals(0, 5), outer, branch, bufsize), SR(_vals(0, 5), outer, branch, bufsize, take=3, fin="leak"),
                           SR(_vals(0, 4), outer, branch, bufsize, sraise=3)):
                    yield {"nc": 1, "fam": "N", "hist": [dict(r1, wrap=wrap), dict(SR(_vals(1, 3), outer, branch, bufsize), wrap=wrap),
                                                         R(_vals(2, 2), outer + branch)]}


PLANT = lambda c, what: {"op": "plant", "c": c, "what": what}


def _family_k():
    """exceptions that are not Exceptions: KeyboardInterrupt, SystemExit, a BaseException subclass, GeneratorExit
    raised by the source or by an element at value k, closed or kept alive; then a complete run and a replay"""
    for shape in _SHAPES1 + _SHAPES2[:2]:
        nc = 1 + max(e["c"] for e in shape if e["k"] == "cache")
        n = 3
        for rk in _RAISE_KINDS[1:]:
            firsts = []
            for fin in ("close", "leak"):
                for k in (0, 2, 3):
                    firsts.append(R(_vals(0, n), shape, sraise=k, fin=fin, rk=rk))
                for j, e in enumerate(shape):
                    if e["k"] == "map":
                        for k in (0, 2):
                            els = [dict(x) for x in shape]
                            els[j]["raise"], els[j]["rk"] = k, rk
                            firsts.append(R(_vals(0, n), els, fin=fin))
            for r1 in firsts:
                for mode in ("source", "hoist"):
                    yield {"nc": nc, "fam": "K", "hist": [dict(r1, mode=mode), R(_vals(1, 2), shape, mode=mode), FINALIZE,
                                                          R(_vals(2, 3), shape, mode="sequence")]}
    # the same in a member of Split
    for rk in _RAISE_KINDS[1:]:
        for bufsize in (None, 2):
            for k in (0, 2, 3):
                yield {"nc": 1, "fam": "K", "hist": [dict(SR(_vals(0, 3), [M(1)], [C(0), M(2)], bufsize, sraise=k), src={
                    "vals": _vals(0, 3), "raise": k, "rk": rk}), SR(_vals(1, 2), [M(1)], [C(0), M(2)], bufsize)]}


def _long(run, n):
    return [run * 5000 + i for i in range(n)]


def _family_l(quick):
    """flows longer than the constants of the code and of the libraries below it: 63..70 values, 1000/1001/1100
    (Split's default bufsize), and 3000 values (thorough)"""
    lens = [63, 64, 65, 70, 1001] if quick else [63, 64, 65, 70, 129, 1000, 1001, 1100, 3000]
    for n in lens:
        for shape in ([C(0)], [M(1), C(0), M(2)]):
            if n > 1001 and len(shape) > 1:
                continue
            yield {"nc": 1, "fam": "L", "hist": [R(_long(0, n), shape), R(_long(1, 3), shape, mode="hoist")]}
            yield {"nc": 1, "fam": "L", "hist": [R(_long(0, n), shape, take=n, fin="leak"), R(_long(1, n), shape),
                                                 FINALIZE, R(_long(2, 2), shape, mode="sequence")]}
    # a member of Split with the *default* buffer size and a flow that does not fit into it
    for n in ([1001] if quick else [1000, 1001, 1100, 2500]):
        for wrap in (None, ["split"]):
            op = dict(SR(_long(0, n), [], [C(0)], 1000), default_bufsize=True)
            if wrap:
                op["wrap"] = wrap
            yield {"nc": 1, "fam": "L", "hist": [op, R(_long(1, 2), [C(0)])]}


def _family_p():
    """files no run of the history made: an empty file at the name of a cache, the temporary file of a killed process"""
    shape = [M(1), C(0), M(2)]
    for plant in (PLANT(0, "empty"), PLANT(0, "tmp")):
        for r1 in _crash_variants(shape, 2):
            for mode in ("source", "hoist"):
                yield {"nc": 1, "fam": "P", "hist": [plant, dict(r1, mode=mode), REPR(0), R(_vals(1, 3), shape, mode=mode),
                                                     DROP(0), plant, R(_vals(2, 2), shape)]}
                yield {"nc": 1, "fam": "P", "hist": [dict(r1, mode=mode), plant, FINALIZE, R(_vals(1, 3), shape, mode=mode),
                                                     R(_vals(2, 2), shape)]}


def _family_v():
    """downstream stops consuming: a real element (Slice(k)) ends the flow instead of the consumer"""
    for shape in _SHAPES1 + _SHAPES2[:2]:
        nc = 1 + max(e["c"] for e in shape if e["k"] == "cache")
        for n in (0, 2, 3):
            for k in range(n + 2):
                for mode in ("source", "sequence", "hoist_src"):
                    yield {"nc": nc, "fam": "V", "hist": [R(_vals(0, n), shape, take=k, mode=mode, via="slice"),
                                                          R(_vals(1, 2), shape, take=1, mode=mode, via="slice"),
                                                          R(_vals(2, 3), shape, mode=mode), R(_vals(3, 1), shape, take=2, via="slice")]}


def _family_g():
    """elements whose `run` is not lazy (oracle only, see ASSUMPTIONS): the no-pull clause is demanded of them only
    when the Cache is hoisted"""
    def E(a, r=None):
        return dict(M(a, r), eager=True)
    shapes = [[E(1), C(0)], [C(0), E(2), C(1)], [M(1), C(0), E(2)], [E(1), C(0), M(2)], [E(1), M(3), C(0), E(2), C(1)]]
    for shape in shapes:
        nc = 1 + max(e["c"] for e in shape if e["k"] == "cache")
        for r1 in _crash_variants(shape, 2):
            for mode in ("source", "sequence", "hoist", "hoist_src"):
                yield {"nc": nc, "fam": "G", "hist": [dict(r1, mode=mode), R(_vals(1, 3), shape, mode=mode),
                                                      R(_vals(2, 2), shape, mode=mode), DROP(0), R(_vals(3, 2), shape, mode=mode)]}


def _random_case(rng):
    nc = rng.choice([1, 2, 2, 3])
    hist = []
    for i in range(rng.randint(1, 6)):
        r = rng.random()
        if r < 0.04:
            hist.append(PLANT(rng.randrange(nc), rng.choice(["empty", "tmp"])))
        elif r < 0.12:
            hist.append(DROP(rng.randrange(nc), rng.random() < 0.2))
        elif r < 0.22:
            hist.append(dict(FINALIZE))
        else:
            ids = [c for c in range(nc) if rng.random() < 0.75]
            rng.shuffle(ids)
            els = [dict(C(c, rng.random() < 0.2), proto=rng.randint(0, 5), method=rng.choice(["pickle", "cPickle"]))
                   for c in ids]
            for _ in range(rng.randint(0, 3)):
                els.insert(rng.randint(0, len(els)), M(rng.randint(1, 9)))
            n = rng.randint(0, 6)
            sraise, take = None, None
            crash = rng.random()
            if crash < 0.25:
                take = rng.randint(0, n + 1)
            elif crash < 0.4:
                sraise = rng.randint(0, n)
            elif crash < 0.55:
                ms = [e for e in els if e["k"] == "map"]
                if ms:
                    rng.choice(ms)["raise"] = rng.randint(0, max(n - 1, 0))
            rk = rng.choice(_RAISE_KINDS) if rng.random() < 0.4 else "exc"
            for e in els:
                if e["k"] == "map" and e["raise"] is not None and rk != "exc":
                    e["rk"] = rk
            mode = rng.choice(MODES[:5])
            nest = None
            if len(els) == 1 and els[0]["k"] == "cache" and rng.random() < 0.3:
                mode = rng.choice(MODES[5:])
            elif els and rng.random() < 0.3:
                a = rng.randint(0, len(els) - 1)
                nest = [a, rng.randint(a + 1, len(els))]
            vals = [rng.randint(0, 12) + 20 * i for _ in range(n)]
            if rng.random() < 0.2:
                cut = rng.randint(0, len(els))
                bufsize = rng.choice([None, None, 1, 2, 3, 5])
                branch = els[cut:]
                if bufsize is not None:
                    for e in branch:
                        if e["k"] == "map":
                            e["raise"] = None
                hist.append(SR(vals, els[:cut], branch, bufsize, take=take, fin=rng.choice(["close", "leak"]),
                               sraise=sraise))
                if rk != "exc":
                    hist[-1]["src"]["rk"] = rk
                continue
            via = "slice" if (take is not None and mode not in MODES[5:] and rng.random() < 0.3) else None
            hist.append(R(vals, els, take=take, fin="close" if via else rng.choice(["close", "leak"]), mode=mode,
                          sraise=sraise, nest=nest, rk=rk, via=via))
    # the same pipeline object run again: a later run copies the pipeline of an earlier one and is marked "reuse"
    for i in range(1, len(hist)):
        prev = [h for h in hist[:i] if h["op"] == hist[i]["op"] and h["op"] in ("run", "splitrun")]
        if prev and rng.random() < 0.35:
            p = rng.choice(prev)
            if hist[i].get("via") or p.get("via"):
                continue
            for f in ("els", "mode", "nest", "outer", "branch", "bufsize", "bare"):
                if f in p:
                    hist[i][f] = [dict(e) for e in p[f]] if isinstance(p[f], list) and f != "nest" else p[f]
            for part in ("els", "outer", "branch"):
                for e in hist[i].get(part, []):
                    if e["k"] == "map":
                        e["raise"] = None
            hist[i]["reuse"] = True
    return {"nc": nc, "fam": "R", "hist": hist}


def _enumerated(quick):
    return itertools.chain(
        _family_a(range(0, 5) if quick else range(0, 7)),
        _family_b(2), _family_b(3), ([] if quick else _family_b(4)),
        _family_c(3 if quick else 4),
        _family_d(),
        _family_s(range(0, 4) if quick else range(0, 6)),
        _family_x(),
        _family_e(range(0, 3) if quick else range(0, 5)),
        _family_n(),
        _family_k(), _family_l(quick), _family_p(), _family_v(), _family_g())


def gen_cases(ctx):
    """a generator (cases are produced lazily); the random histories are interleaved with the enumerated families so
    that every prefix of the stream is a mixture"""
    rng = ctx.rng
    quick = ctx.tier == "quick"
    ctx.exhaustive = False     # the enumerated families are complete; the random histories are sampled
    n_random = 5000 if quick else 120000
    per = 1 if quick else 4
    made = 0
    for i, c in enumerate(_enumerated(quick)):
        c["vk"] = _VKS[i % 5]
        for op in c["hist"]:            # pickle options rotate over the enumerated cases
            for e in op.get("els", []) + op.get("outer", []) + op.get("branch", []):
                if e["k"] in ("cache", "tcache"):
                    e["proto"], e["method"] = (i // 4) % 6, ("pickle", "cPickle")[(i // 24) % 2]
        yield c
        for _ in range(per):
            if made < n_random:
                made += 1
                r = _random_case(rng)
                r["vk"] = rng.choice(_VKS)
                yield r
    while made < n_random:
        made += 1
        r = _random_case(rng)
        r["vk"] = rng.choice(_VKS)
        yield r


def SET(k, v):
    return {"k": "setctx", "key": k, "v": v}


def TC(t, k, rc=False):
    return {"k": "tcache", "t": t, "key": k, "rc": rc}


REPR = lambda c, rc=False: {"op": "repr", "c": c, "rc": rc}


def _family_x():
    """file names from the static context (Cache._set_context), repr, and a cache name that is a directory:
    one plain cache (id 0) and two templates over the keys k0, k1 with values 0, 1 (ids 1..6)"""
    base = {"nc": 7, "nb": 1, "V": 2, "tkeys": [0, 1], "fam": "X"}
    def pipes(v, w):
        sv = [SET(0, v)] if v is not None else []
        sw = [SET(1, w)] if w is not None else []
        yield sv + [M(1), TC(0, 0), M(2)]
        if v is not None:                                              # (without the SetContext: the same file twice)
            yield [TC(0, 0)] + sv + [M(1), TC(0, 0, True)]             # the same template before and after the SetContext
        else:
            yield [TC(1, 0)] + sv + [M(1), TC(0, 0, True)]
        yield sv + sw + [TC(0, 0), M(1), TC(1, 1)]
        yield sw + [M(1), TC(1, 1)] + sv + [C(0), TC(0, 0)]
        yield [SET(0, 1 - v if v is not None else 0)] + sv + [TC(0, 0), M(3)]   # a later SetContext overrides
    vws = [(None, None), (0, None), (1, 0), (0, 1)]
    for (v1, w1), (v2, w2) in itertools.product(vws, repeat=2):
        for p1, p2 in zip(pipes(v1, w1), pipes(v2, w2)):
            for first in (R(_vals(0, 3), p1), R(_vals(0, 3), p1, take=2, fin="leak"), R(_vals(0, 3), p1, sraise=1)):
                for mode in ("source", "sequence", "hoist"):
                    hist = [first, R(_vals(1, 2), p2, mode=mode), FINALIZE, R(_vals(2, 2), p1, mode=mode),
                            REPR(1), REPR(2), REPR(2, True), REPR(0)]
                    yield dict(base, hist=hist)
    # the static context of the outer elements reaches a templated Cache in a member of Split
    for v in (None, 0, 1):
        for w in (None, 1):
            sv = [SET(0, v)] if v is not None else []
            sw = [SET(0, w)] if w is not None else []
            for bufsize in (None, 2):
                for take in (None, 1):
                    hist = [SR(_vals(0, 3), sv + [M(1)], sw + [TC(0, 0), M(2)], bufsize, take=take),
                            SR(_vals(1, 3), sv + [M(1)], sw + [TC(0, 0), M(2)], bufsize),
                            R(_vals(2, 2), sv + sw + [TC(0, 0)]), REPR(1), REPR(2), REPR(3)]
                    yield dict(base, hist=hist)
    # repr and drop on plain caches after every kind of first run
    for r1 in _crash_variants([M(1), C(0)], 2):
        yield {"nc": 1, "fam": "X", "hist": [REPR(0), r1, REPR(0), REPR(0, True), DROP(0), REPR(0), DROP(0, True),
                                             {"op": "dropdir", "c": 0, "rc": False}, {"op": "dropdir", "c": 0, "rc": True}]}


# ---- MANIFEST texts ------------------------------------------------------------------------
LEVEL_TEXT = ("Lean 4 theorems about a transcribed generator machine (Cache.run / _dump_flow_and_yield / _load_flow / "
              "alter_sequence inside Sequence.run and Source.__call__, with explicit crash points and an abstract file "
              "system), for all pipelines with distinct caches, all sources, all demands of the consumer, all ways of "
              "calling and all histories of run / drop_cache / finalize operations (no bound): a run yields the flow "
              "unaltered, a complete first run stores exactly the complete flow that entered the cache, a replay yields "
              "exactly the stored values with no event upstream of the cache, Cache.alter_sequence builds the same "
              "generators as Sequence.run (for lena.core.alter_sequence this is the transcribed observation that it returns "
              "its argument), a stored cache persists through every history without drop/recompute of it, "
              "recompute and drop_cache restore first-run behaviour, an interrupted run changes no cache file, and over "
              "every history a cache file only ever holds the complete flow of a run that reached its normal end; a Cache "
              "in a Sequence member of Split is filled with the whole flow (Split = outer run + one ordinary run of the "
              "member), a filled bare Cache member is replayed exactly; templated cache names depend only on preceding "
              "SetContext elements and other names are never touched. The "
              "model is tied to /repo by a correspondence check on event traces and file-system snapshots over exhaustive "
              "small scopes plus seeded random histories, and a direct oracle evaluates the statement on the real code.")
LEVEL_NOTE = ("Trusted: Lean kernel (+ propext, Classical.choice, Quot.sound), the hand transcription validated by the "
              "correspondence run, CPython generator finalisation and pickle/os semantics as transcribed, the JSON "
              "protocol. 18 theorems carry the property, 26 more (instances, proof lemmas, encoding lemmas, decision "
              "lemmas, one counterexample) are audited as support. Assumed, not proved: upstream elements are lazy "
              "(generator functions); pickle snapshots the value at dump time; runs on one cache file do not overlap; "
              "Split runs are not part of the history theorems; members of Split of other types, several members and "
              "errors of the Cache itself (pickling, disk) are outside the model.")
TECHNIQUE = "Lean 4 proof (one-step simulation + history invariant) over hand-written generator/file-system model + correspondence check"
DESIGN_REF = "DESIGN.md section 3, C18"
