"""C18 — Cache replays exactly the stored flow and never serves a truncated one.

Real code: lena.flow.Cache (run, cache_exists, drop_cache, _dump_flow_and_yield, _load_flow,
Cache.alter_sequence), lena.core.alter_sequence, inside lena.core.Source / Sequence.
Model: lean/LenaModel/Model/C18.lean (generator machine with crash points over an abstract file
system), theorems lean/LenaModel/Props/C18.lean (lemmas in Lemmas/C18.lean).

A case is a *history*: a list of operations executed in one fresh temporary directory

    {"op":"run", "mode":…, "src":{"vals":[codes],"raise":k|null}, "els":[el…], "take":k|null,
     "fin":"close"|"leak", "nest":[i,j]|null}
    {"op":"drop", "c":cache id, "rc":bool}          Cache(name, recompute=rc).drop_cache()
    {"op":"finalize"}                               release the suspended generators of earlier "leak" runs

    el = {"k":"map","a":1..9,"raise":k|null} | {"k":"cache","c":id,"rc":bool}

    {"op":"splitrun", "src":…, "outer":[el…], "branch":[el…], "bufsize":n|null, "take":…, "fin":…, "bare":bool,
     "pre":[member…], "post":[member…], "wrap":[…]}     Source(src, *outer, Split([*pre, Sequence(*branch), *post], bufsize))()
    member = {"k":"seq","els":[el…],"tuple":bool} | {"k":"fc","a":a} | {"k":"fr","a":a}   (FillCompute / FillRequest accumulators)
    run options: "nest":[i,j(,depth)] els[i:j] in `depth` nested Sequences; "share":[i,j,key] els[i:j] are ONE Sequence
    object in all runs of the history with that key; "reuse": the pipeline object of an earlier run of the same shape;
    "keep": the object alter_sequence returned in the first run is what later runs call.  Case option "dirs": the cache
    files lie in directories that do not exist before the first Cache on them is made.

Every run builds a new pipeline (new Cache objects on the same file names, a new instrumented source
and new instrumented elements), pulls `take` values (null: until the end) and then either drops the
generator (`close`: CPython finalises the suspended generators at once) or keeps it — or the exception
whose traceback refers to it — alive (`leak`) until a later `finalize` or for ever.  Flow values are
integer *codes* rendered as picklable Python values of several kinds (ints, (data, context) pairs,
strings, lists, falsy values, None); a map element sends code v to 10*v + a, so every position of a
pipeline sees different values.
"""
import copy
import gc
import itertools
import os
import pickle
import re
import shutil
import tempfile

from harness.common import CaseTimeout, exc_name, jdump

PID = "C18"
TITLE = "Cache replays exactly the stored flow and never serves a truncated one"
LEAN_MODULES = ["LenaModel.Props.C18", "LenaModel.Props.C18Split", "LenaModel.Props.C18Ctx", "LenaModel.Props.C18Spec",
                "LenaModel.Props.C18Multi"]
LEAN_SOURCES = ["LenaModel/Model/C18.lean", "LenaModel/Model/C18Split.lean", "LenaModel/Model/C18Ctx.lean",
                "LenaModel/Model/C18Spec.lean", "LenaModel/Model/C18Exc.lean", "LenaModel/Model/C18Multi.lean", "LenaModel/Lemmas/C18.lean", "LenaModel/Lemmas/C18Split.lean",
                "LenaModel/Props/C18.lean", "LenaModel/Props/C18Split.lean", "LenaModel/Props/C18Ctx.lean",
                "LenaModel/Props/C18Spec.lean", "LenaModel/Props/C18Multi.lean"]
DRIVER = "drivers/C18.lean"
THEOREMS = [
    # the theorems that carry the property (they fail for a model with the historical defects: rename on abort,
    # writing to the final name, close without remove, one buffer stored as the flow)
    "Lena.C18.run_yields_flow",
    "Lena.C18.first_run_transparent",
    "Lena.C18.first_run_does_not_touch_cache_file",
    "Lena.C18.first_run_stores",
    "Lena.C18.replay_exact_no_pull",
    "Lena.C18.first_complete_run_then_replay",
    "Lena.C18.buildHoisted_eq",
    "Lena.C18.interrupted_run_keeps_cache_files",
    "Lena.C18.closed_run_leaves_no_tmp",
    "Lena.C18.step_final_cases",
    "Lena.C18.cache_complete",
    "Lena.C18.later_run_serves_complete_flow",
    "Lena.C18.stored_cache_persists",
    "Lena.C18.every_later_run_replays",
    "Lena.C18.run_touches_only_own_caches",
    "Lena.C18.split_whole_eq_two_runs",
    "Lena.C18.split_whole_stores",
    "Lena.C18.split_bare_replay",
    # a Split with several members of several types (adversary round): the rule for the buffer size looks at the
    # Sequence members only, and every Cache of every Sequence member stores the whole flow
    "Lena.C18.effBufsizeMembers_none",
    "Lena.C18.effBufsizeTyped_none",
    "Lena.C18.runStages_stores",
    "Lena.C18.splitMulti_stores",
]
# support: instances and restatements of the above, proof lemmas, lemmas about the model's own encodings, the
# machine-checked counterexample for a rule /repo no longer has, and the decision lemmas for the executable vocabulary
AUX_THEOREMS = [
    "Lena.C18.hoisted_same_chain",
    "Lena.C18.run_exhausted_iff",
    "Lena.C18.replay_last",
    "Lena.C18.recompute_restores_first_run",
    "Lena.C18.drop_spec",
    "Lena.C18.drop_restores_first_run",
    "Lena.C18.interrupted_recompute_keeps_old_cache",
    "Lena.C18.step_keeps_stored",
    "Lena.C18.nextUppers_spec",
    "Lena.C18.drive_spec",
    "Lena.C18.effBufsize_patched",
    "Lena.C18.splitLoop_whole",
    "Lena.C18.split_pinned_truncates",
    "Lena.C18.containsCache_complete",
    "Lena.C18.effBufsizeTree_none",
    "Lena.C18.effBufsize_eq_tree",
    "Lena.C18.effBufsizeTree_wrap",
    "Lena.C18.resolve_tcache_name",
    "Lena.C18.nameId_inj",
    "Lena.C18.nameId_ge",
    "Lena.C18.run_leaves_other_names",
    "Lena.C18.distinctB_iff",
    "Lena.C18.noFilledB_iff",
    "Lena.C18.modeOkB_iff",
    "Lena.C18.evAfterB_iff",
    "Lena.C18.storedByList_iff",
    "Lena.C18.effBufsizeMembers_keep",
    "Lena.C18.effBufsizeMembers_single",
    "Lena.C18.effBufsizeTyped_all_seq",
    "Lena.C18.runStages_fs_other",
    "Lena.C18.splitMulti_outer_raises",
    "Lena.C18.stagesOf_split",
    "Lena.C18.stageIds_stagesOf",
]
CASE_TIMEOUT = 10
TRUSTED = [
    "Lean 4.33.0 kernel; axioms limited to propext, Classical.choice, Quot.sound (audited by #print axioms on every run)",
    "hand transcription of lena/flow/cache.py (run, cache_exists, drop_cache, _dump_flow_and_yield, _load_flow, "
    "alter_sequence), lena/core/meta.py (alter_sequence) and of the way Sequence.run / Source.__call__ nest generators "
    "into LenaModel/Model/C18.lean, validated by this correspondence check (outputs, end of the run, ordered event "
    "trace of the instrumented source and elements, existence of cache and temporary files after every value, "
    "content of the cache files after every operation)",
    "CPython generator semantics as transcribed: a generator body starts at the first next(); dropping or closing a "
    "suspended generator raises GeneratorExit at its yield, downstream generators first; a fresh or finished generator "
    "does nothing when closed (validated likewise, with generators finalised at once, later, or never)",
    "the Python reference semantics of the oracle (harness/props/c18.py: _pipe_flow) and its Lean counterpart pipeFlow, "
    "compared on every run operation",
    "JSON line protocol encoders (harness/props/c18.py, drivers/C18.lean)",
    "the transcription of Split.__init__ (buffer-size rule, lena.core.alter_sequence on the members) and Split.run for "
    "one sequence/source member (Model/C18Split.lean), of Split.run with the whole flow in one buffer for several "
    "members of type sequence / fill_compute / fill_request (Model/C18Multi.lean), of Cache._set_context / LenaSequence._set_context / SetContext "
    "for flat pipelines (Model/C18Ctx.lean), of Cache.__repr__ and the error branch of drop_cache (Model/C18Spec.lean), "
    "validated by the same correspondence check; the specification vocabulary of the theorems (Distinct, NoFilled, "
    "ModeOk, endOf, eraseCaches, EvAfter, StoredBy) is evaluated by the driver on every run and compared with Python",
]
ASSUMPTIONS = [
    "pickle round trip: pickle.load returns the dumped values in order and raises EOFError exactly at the end of the "
    "file (checked on every case for ints, (data, context) pairs, strings, lists, nested dicts, None and falsy values, "
    "protocols 0-5, methods pickle/cPickle)",
    "file names: distinct Cache elements of one pipeline use distinct files, and no cache file name is the temporary "
    "name (<name>.tmp) of another cache (theorem hypothesis Distinct); os.replace is atomic.  With the same file twice "
    "in one pipeline the real code ends the first run with FileNotFoundError (the second os.replace finds no temporary "
    "file) after having yielded the whole flow, and the file holds the flow seen by the upstream one: loud, not modelled",
    "name-level file system: a file object still held by a suspended generator cannot change what a file name denotes "
    "after a later run has re-created the file (true since dd601f1; before it the correspondence check and the oracle "
    "failed on exactly the histories 'leaked interrupted run, later run on the same cache, late finalisation')",
    "histories are sequential: runs do not overlap in time; a generator kept alive by an interrupted run is finalised "
    "between operations (or never), not while another run on the same cache file is in progress.  Two runs that are "
    "active at the same time on one cache file are outside the property's histories and are neither modelled nor "
    "generated (there the later run's os.replace fails with FileNotFoundError after it has yielded its whole flow; no "
    "truncated cache is stored or served)",
    "Split: modelled for one member that is a Sequence (or a bare Cache) after arbitrary outer elements, and - when the "
    "Split reads the whole flow at once - for several members: Sequences / tuples with or without Caches, FillCompute and "
    "FillRequest elements in any order (Model/C18Multi.lean; their fill is not an observable event, they yield one value). "
    "The driver predicts the buffer-size rule of /repo (7235571: a Sequence member with a Cache makes Split read the whole "
    "flow at once, whatever the types of the other members) and nothing is read from the tree under test - reverting or "
    "narrowing the rule gives correspondence disagreements and oracle failures; the old rule is kept as effBufsize false "
    "only for the counterexample split_pinned_truncates.  Split fills its buffer from its own input "
    "before it runs a member: the input of the Split is consumed even when the member replays a cache (Split's "
    "documented schedule, C03); an exception of the outer pipeline may therefore arrive before earlier values were "
    "yielded - the oracle accepts a prefix there.  The oracle's reference for several members is Split's documented "
    "schedule (per buffer every member in turn; FillCompute results at the end; everything once for an empty input) with "
    "the whole flow in one buffer whenever a Sequence member holds a Cache.  Oracle only (not modelled): several members "
    "with finite buffers (no Cache in a member; C03 models that schedule), a bare Cache beside other members, a nested "
    "Split with a FillCompute member and a buffer size of its own (wrap msplit), a re-used Split whose bare Cache member "
    "changed its filling state since the Split was made (a Split keeps the decision Source member / Sequence member it "
    "took when it was constructed; the oracle follows that decision, a dropped cache then gives a loud "
    "FileNotFoundError).  Members of type Source other than a hoisted Cache, FillComputeSeq / FillRequestSeq members "
    "with a Cache inside (every request() / compute() is a run of its own through the Cache: the first is stored, the "
    "later ones replay it - consistent with the statement, not a position 'in a pipeline'), elements after the Split "
    "and copy_buf=False are not generated",
    "drop_cache() on a missing file raises FileNotFoundError although its docstring says 'pass otherwise': judged "
    "outside 'recompute=True and drop_cache() restore the first-run behaviour' (the first-run behaviour is there "
    "anyway); modelled as it is, not demanded by the oracle",
    "an interrupted recomputation keeps the old complete cache (theorem interrupted_recompute_keeps_old_cache, "
    "validated by the correspondence); the statement would also allow dropping it, so the oracle accepts both",
    "exception classes: the source and the elements raise Exception subclasses, KeyboardInterrupt, SystemExit, a "
    "direct BaseException subclass and GeneratorExit (at every position, in quick and thorough); the model has one "
    "outcome for all classes because the transcribed code has no except clause (Model/C18Exc.lean attributes the class "
    "for the report).  A consumer that raises in its own frame is, for the Cache, a consumer that stops (the generators "
    "are finalised when the traceback is released): covered by stop + close/leak.  Errors of the Cache itself "
    "(PicklingError of an unpicklable value - outside 'picklable values' -, OSError/disk full from dump or open) are "
    "neither modelled nor generated",
    "snapshot at dump time: pickle.dump serialises the value when it is called, before downstream sees the object; "
    "the value kind 'mut' (a list with a nested context that every map element changes in place and passes on) checks "
    "that the stored flow is the flow as it ENTERED the cache; in the model values are immutable integers and dump and "
    "yield are one step",
    "lengths: the theorems are unbounded; the tie to the code is validated on flows of 0..6 values in the bulk of the "
    "cases and on 63..65, 70, 1001 values (thorough also 129, 1000, 1100, 2500, 3000) in family L, including a member of "
    "Split with the default bufsize=1000",
    "laziness: the model (buildEls drops the incoming chain unstarted when a cache exists) and the no-pull clause inside "
    "a Sequence/Source assume that every upstream `run` and the source are generator functions - lena's convention. "
    "Sequence.run still CALLS el.run(flow) of every upstream element and Source.__call__ calls the source: an element "
    "whose run is an ordinary method consuming its input is run on every replay unless the Cache is hoisted (this is "
    "what alter_sequence is for).  Judgement: the Sequence clause of the statement is meant for lazy elements; family G "
    "runs eager elements (oracle only, not modelled): values, ends, storing and replay are checked for them, no-pull only "
    "in the hoisted modes",
    "one file-system instant per run: cache_exists (when run/alter_sequence is called), the open of _load_flow (first "
    "pull) and the hoisting see the same file system; a kept hoisted Source is called again only while its cache stays "
    "filled (family O); calling it after drop_cache, or an operation "
    "between run() and the first next(), is not generated (FileNotFoundError there is loud); storedFlow's "
    "fileNotFound branch and nextBottom(load fresh) on a missing file are unreachable under cacheExists on the same fs",
    "file names: a sixth of the enumerated and 15% of the random cases keep their cache files in directories (two "
    "levels deep) that do not exist before the first Cache on them is constructed (Cache.__init__ creates them); "
    "judgement: a Cache the unchanged code accepts is inside the quantifier, so a first run that cannot start is "
    "reported (build-failed).  Templated names stay in one flat directory: a template with a directory part does not "
    "work in /repo (notes/C18_observation_2.md: loud, outside the statement).  The oracle demands that a Cache whose "
    "name is literal, or a template whose key the static context of THIS pipeline sets, uses that file - also when the "
    "Cache object was formatted for another pipeline before (family O: one Sequence object in pipelines with "
    "different contexts); which file a template without its key uses is not demanded (the model transcribes it)",
    "object re-use: beside whole pipeline objects (E, random) the histories re-use a Split with a bare Cache member, a "
    "Split with several members, one Sequence object (with its Cache objects) inside different pipelines, and the "
    "object alter_sequence returned (a hoisted Source is called again); only histories in which the kept decision "
    "agrees with what a new object would decide are sent to the model",
    "foreign files: an empty file at the cache name (an empty cache) and a stale temporary file of a killed process are "
    "generated (op plant); 'exists but unreadable' (os.access) is not (the harness runs as root)",
    "Split runs are not operations of `exec`: the history theorems (cache_complete, stored_cache_persists) range over "
    "run / drop_cache / finalize; for Split the per-run theorems (split_whole_*) hold and the oracle checks histories "
    "with Split runs.  splitLoop/drainLoop use fuel (number of buffers + 1); fuel exhaustion would return 'stopped' "
    "and is excluded by proof only for the whole-flow case, by the correspondence for finite buffers",
    "observation through the public interface only: the harness reads no private name of lena.  The buffer-size rule "
    "of Split.__init__ (model: effBufsizeTyped = None, containsCache) is observed as behaviour: a new Split is run on a "
    "flow of bufsize + 2 integers that logs its pulls and its end, the harness's own elements log every value they "
    "receive and every yielded value is logged - the Split reads the whole flow at once iff the end of the input is the "
    "first event after the pulls ('contains' of a member: the same for a Split of that member alone with bufsize=1).  "
    "The file a Cache uses is read from its repr (Cache(\"<file>\" + ...; lena's own tests pin this text) or, if the repr "
    "has another shape, from the attribute lena's own tests read (_filename) with getattr; if a tree shows it in neither "
    "way the observation is skipped, never an alarm: the names are not compared with the model, the oracle takes the "
    "names of the naming rule (name clause silent) and does not judge a history that has a template without its key; "
    "such cases are counted in the histogram as ids:not-observable-run / -case (0 on /repo)",
    "permissions are modelled only as 'os.remove fails although something readable is at the name' (dropBlocked, "
    "exercised with a directory at the cache name); Python 2 branches of Cache.__init__ are unreachable",
]
RULE = ("quick and thorough: exhaustive families — A: one cache in 4 pipeline shapes x source length 0..4 (thorough 0..6) "
        "x every crash point of the first run (consumer stops after k=0..n, source raises at k=0..n, each map element "
        "raises at k=0..n-1, complete) x generators closed or leaked x second run complete or interrupted+leaked x "
        "plain or hoisted x late finalisation or none, then a complete third run; B: two caches in 4 shapes x every "
        "crash point (source length 2..3; thorough 2..4) x drop / recompute of either cache; C: all 1331 histories of 3 operations (thorough: all 14641 of 4) over an alphabet of 11 "
        "(complete, stop, stop+leak, source raises, downstream element raises + leak, upstream element raises, recompute "
        "of either cache, drop of either cache, finalize) on M C0 M C1 M followed by a complete run; D: the 7 ways of "
        "calling (Source, Sequence.run, Cache.alter_sequence of a Sequence / of a Source, lena.core.alter_sequence, bare "
        "element through either) x every filling state x every nesting of a sub-Sequence. Value kinds (ints, pairs with "
        "context, mixed, falsy/None) rotate over the cases. Plus 12000 (thorough 120000) seeded random histories: up to 6 "
        "operations, up to 3 caches and 3 map elements per pipeline, source length 0..6, pickle protocols 0-5. "
        "S: a Cache in a member of Split - 6 (outer, branch) shapes x source length 0..3 (thorough 0..5) x bufsize "
        "None/1/2/3 x every crash point, every nesting of sub-Sequences in the member, a bare Cache member filled or not; "
        "N: the Cache at depth 0..3 of a Split member through every chain of Sequence / tuple member / RunIf / Split "
        "(the buffer-size rule of Split.__init__ alone, 8 trees per chain, and runs with the branch wrapped into 1..3 "
        "nested Sequences / Splits with outer bufsize 1, 2 smaller than the flow); "
        "X: cache names from the static context (two templates, two keys, two values, SetContext before/after/overridden, "
        "inside and outside a Split), repr, drop_cache with a directory at the name; E: one pipeline object (the same "
        "Source/Sequence/Cache/Split objects) run three times and after drop_cache. In the random histories 35% of the "
        "later runs re-use the pipeline object of an earlier run, 20% of the runs go through a Split. "
        "K: KeyboardInterrupt / SystemExit / BaseException subclass / GeneratorExit raised by the source or an element at "
        "value k (also before a Split); L: long flows (see ASSUMPTIONS); P: foreign files (empty cache file, stale "
        "temporary file); V: a Slice(k) element instead of the consumer's stop; G: eager elements (oracle only). Value "
        "kinds include 'mut': mutable values changed in place by every map element. "
        "M: a Split with SEVERAL members (10 sets of Sequence / tuple / FillCompute / FillRequest members before and after "
        "the main one, one or two of them with a Cache, or none) x 2 (outer, branch) shapes x source length 0..3 (thorough "
        "0..4) x bufsize None/1/2 x every crash point, then a plain run and a replay through the same Split; a bare Cache "
        "beside other members; nested Splits with a FillCompute member and their own bufsize=2 (wrap msplit); N also with "
        "FillCompute / FillRequest members beside the tree at the top and in a nested Split; O: object re-use - a Split with "
        "a (filled / unfilled) bare Cache member or with several members run again and again, the object returned by "
        "alter_sequence kept and called again (3 modes x 6 shapes x filled or not, bare element), ONE Sequence object with "
        "1-3 elements in the pipelines of different runs (4 segments x 5 modes x every crash point), one Sequence with a "
        "templated Cache under SetContext(k, v1) / SetContext(k, v2) (3 value pairs x 3 segments x 3 first runs x 4 modes); "
        "D and G: the sub-Sequence 1-3 Sequences deep (G: eager upstream elements, hoisting must find the Cache). A sixth of "
        "the enumerated cases and 15% of the random ones keep the cache files in directories that do not exist yet; random "
        "histories: 30% of the Splits get further members, a single-Cache branch is a bare member in 30%, 20% of the "
        "histories share one Sequence object between their runs. "
        "Non-trivial: at least one run of the history yields a value.")

MODES = ("source", "sequence", "hoist", "hoist_src", "meta", "bare_hoist", "bare_meta")

# ----------------------------------------------------------------------------------------
# values

_SPECIAL = {0: 0, 1: None, 2: False, 3: "", 4: (), 5: 0.0, 6: [], 7: {}, 8: b"", 9: (9, {})}
_SPECIAL_REPR = {repr(v): k for k, v in _SPECIAL.items()}


def enc(code, vk):
    """the Python value that stands for `code` in a flow of kind vk (a bijection for every vk)"""
    if vk == "int":
        return code
    if vk == "ctx":
        return (code, {"code": code, "s": str(code)})
    if vk == "mut":
        # a mutable value with a mutable context: the map elements change it in place (see _Map.run)
        return [code, {"code": code, "n": {"s": str(code)}}]
    if vk == "falsy" and code in _SPECIAL:
        return copy.deepcopy(_SPECIAL[code])
    r = code % 4
    if r == 0:
        return code
    if r == 1:
        return (code, {"c": {"d": code}})
    if r == 2:
        return "v%d" % code
    return [code, None, {"k": (code,)}]


def dec(val, vk):
    """code of a value (type-strict), or a string starting with '?' for a value that is not in the image"""
    cand = None
    try:
        if vk == "falsy" and repr(val) in _SPECIAL_REPR:
            cand = _SPECIAL_REPR[repr(val)]
        elif type(val) is int:
            cand = val
        elif type(val) is tuple and len(val) == 2 and type(val[0]) is int:
            cand = val[0]
        elif type(val) is str and val[:1] == "v":
            cand = int(val[1:])
        elif type(val) is list and val and type(val[0]) is int:
            cand = val[0]
            if vk == "mut" and (type(val[1]) is not dict or val[1].get("code") != cand):
                cand = None
        if cand is not None and type(cand) is int and repr(enc(cand, vk)) == repr(val):
            return cand
    except Exception:
        pass
    return "?" + repr(val)[:60]


class SrcBoom(Exception):
    pass


class ElBoom(Exception):
    pass


class BaseBoom(BaseException):
    """an exception that is not an Exception (like KeyboardInterrupt, SystemExit, GeneratorExit)"""


_RAISE_KINDS = ("exc", "kbd", "sysexit", "base", "genexit")


def _boom(kind, who):
    """the exception a source (who='s') or an element raises: rk = exc (an Exception subclass) | kbd
    (KeyboardInterrupt) | sysexit (SystemExit) | base (a BaseException subclass) | genexit (GeneratorExit)"""
    if kind == "kbd":
        return KeyboardInterrupt()
    if kind == "sysexit":
        return SystemExit(3)
    if kind == "base":
        return BaseBoom()
    if kind == "genexit":
        return GeneratorExit()
    return SrcBoom() if who == "s" else ElBoom()


def _boom_name(kind, who):
    return {"kbd": "Other:KeyboardInterrupt", "sysexit": "Other:SystemExit", "base": "Other:BaseBoom",
            "genexit": "Other:GeneratorExit"}.get(kind, "Other:SrcBoom" if who == "s" else "Other:ElBoom")


class _Src(object):
    """instrumented source: a generator function; logs every resumption of its body"""

    def __init__(self, spec, vk, log):
        self.vals, self.raise_at, self.vk, self.log = spec["vals"], spec["raise"], vk, log
        self.rk = spec.get("rk", "exc")

    def renew(self, spec, log):
        """the same object in a later run: new values, new log"""
        self.vals, self.raise_at, self.log = spec["vals"], spec["raise"], log
        self.rk = spec.get("rk", "exc")

    def __call__(self):
        i = 0
        for i, c in enumerate(self.vals):
            if i == self.raise_at:
                self.log.append("s!%d" % i)
                raise _boom(self.rk, "s")
            self.log.append("s%d" % i)
            yield enc(c, self.vk)
        if self.raise_at == len(self.vals):
            self.log.append("s!%d" % len(self.vals))
            raise _boom(self.rk, "s")
        self.log.append("s$")


class _Map(object):
    """instrumented element: code v -> 10 v + a; raises on its raise_at-th value.
    `run` is a generator (lazy) - or, with spec["eager"], an ordinary method that consumes its input when it is
    called (when the Sequence is put together) and returns an iterator over the results.
    For the value kind "mut" the element changes the value it received *in place* and yields the same object."""

    def __init__(self, j, spec, vk, log):
        self.j, self.a, self.raise_at, self.vk, self.log = j, spec["a"], spec["raise"], vk, log
        self.rk = spec.get("rk", "exc")
        if spec.get("eager"):
            self.run = self._run_eager

    def renew(self, spec, log):
        self.raise_at, self.log = spec["raise"], log
        self.rk = spec.get("rk", "exc")

    def _apply(self, val):
        c = dec(val, self.vk)
        if type(c) is not int:
            return ("bad", val)
        if self.vk == "mut":
            new = 10 * c + self.a
            val[0] = new
            val[1]["code"] = new
            val[1]["n"]["s"] = str(new)
            return val
        return enc(10 * c + self.a, self.vk)

    def run(self, flow):
        n = 0
        for val in flow:
            if n == self.raise_at:
                self.log.append("m!%d:%d" % (self.j, n))
                raise _boom(self.rk, "m")
            self.log.append("m%d:%d" % (self.j, n))
            n += 1
            yield self._apply(val)

    def _run_eager(self, flow):
        return iter(list(_Map.run(self, flow)))


class _Acc(object):
    """a member of Split that is not a Sequence: an accumulator that is filled with the values of the flow and
    yields one value, code 10 * (sum of the codes filled) + a"""

    def __init__(self, spec, vk):
        self.a, self.vk, self.s = spec["a"], vk, 0

    def renew(self):
        self.s = 0

    def fill(self, val):
        c = dec(val, self.vk)
        self.s += c if type(c) is int else 10 ** 9

    def _result(self):
        yield enc(10 * self.s + self.a, self.vk)


class _FC(_Acc):
    """a FillCompute element"""
    def compute(self):
        return self._result()


class _FR(_Acc):
    """a FillRequest element (no reset between requests)"""
    def request(self):
        return self._result()


# ----------------------------------------------------------------------------------------
# running the real code

def _tmp_base():
    return "/dev/shm" if os.path.isdir("/dev/shm") and os.access("/dev/shm", os.W_OK) else None


def _names(d, case):
    """file name of every cache id of the case: ids < nb are plain names; template t unformatted is
    nb + t (V+1), formatted with the value v it is nb + t (V+1) + v + 1 (Model/C18Ctx.lean: nameId)"""
    nc = case["nc"]
    nb, V, tkeys = case.get("nb", nc), case.get("V", 0), case.get("tkeys", [])
    names = []
    for c in range(nc):
        if c < nb and case.get("dirs"):
            # a directory (two levels deep) that does not exist before the first Cache on this file is made
            names.append(os.path.join(d, "sub%d" % c, "x", "c%d.pkl" % c))
        elif c < nb:
            names.append(os.path.join(d, "c%d.pkl" % c))
        else:
            t, r = divmod(c - nb, V + 1)
            names.append(os.path.join(d, ("t%d_{{k%d}}.pkl" % (t, tkeys[t])) if r == 0 else ("t%d_%d.pkl" % (t, r - 1))))
    return names


def _read_final(path, vk):
    if not os.path.exists(path):
        return None
    out = []
    try:
        with open(path, "rb") as f:
            while True:
                try:
                    out.append(dec(pickle.load(f), vk))
                except EOFError:
                    break
    except Exception as e:
        out.append("?corrupt:" + type(e).__name__)
    return out


def _fs_obs(names, vk):
    return [{"final": _read_final(n, vk), "tmp": os.path.exists(n + ".tmp")} for n in names]


def _bits(names):
    """existence of the cache file and of the temporary file of every cache, as a string of 0/1"""
    return "".join(("1" if os.path.exists(n) else "0") + ("1" if os.path.exists(n + ".tmp") else "0") for n in names)


def _mk_els(specs, j0, names, vk, log, caches=None, tmpl=None, maps=None):
    """the real elements of a list of specs; map elements are numbered over the elements that carry data"""
    import lena.flow
    import lena.meta
    els, j = [], j0
    for e in specs:
        if e["k"] == "map":
            els.append(_Map(j, e, vk, log))
            if maps is not None:
                maps.append(els[-1])
        elif e["k"] == "setctx":
            els.append(lena.meta.SetContext("k%d" % e["key"], e["v"]))
            continue
        else:
            name = names[e["c"]] if e["k"] == "cache" else names[tmpl["nb"] + e["t"] * (tmpl["V"] + 1)]
            el = lena.flow.Cache(name, recompute=bool(e["rc"]), method=e.get("method", "cPickle"),
                                 protocol=e.get("proto", 2))
            els.append(el)
            if caches is not None:
                caches.append(el)
        j += 1
    return els


def _shape_key(op):
    """what makes two run operations runs of the same pipeline object (everything but the source values and the
    crash points)"""
    def strip(els):
        return [{k: v for k, v in e.items() if k != "raise"} for e in els]
    def strip_m(ms):
        return [dict(m, els=strip(m["els"])) if m["k"] == "seq" else m for m in ms]
    if op["op"] == "splitrun":
        return jdump(["split", strip(op["outer"]), strip(op["branch"]), op["bufsize"], bool(op.get("bare")), op.get("nest"),
                      op.get("wrap"), strip_m(op.get("pre") or []), strip_m(op.get("post") or []), bool(op.get("default_bufsize"))])
    return jdump(["run", strip(op["els"]), op.get("mode", "source"), op.get("nest"), op.get("share"), bool(op.get("keep")),
                  op["take"] if op.get("via") == "slice" else None])


def _nested(els, nest):
    """els with els[i:j] wrapped into `depth` nested Sequences (nest = [i, j] or [i, j, depth])"""
    import lena.core
    if not nest:
        return els
    i, j = nest[0], nest[1]
    inner = lena.core.Sequence(*els[i:j])
    for _ in range((nest[2] if len(nest) > 2 else 1) - 1):
        inner = lena.core.Sequence(inner)
    return els[:i] + [inner] + els[j:]


def _member_specs(op):
    """the members of the Split of a splitrun, in order: (kind, spec) with kind main | seq | fc | fr"""
    return ([(m["k"], m) for m in op.get("pre") or []] + [("main", None)]
            + [(m["k"], m) for m in op.get("post") or []])


def _all_maps(op):
    """the map specs of an operation in the order in which _construct makes the elements"""
    if op["op"] != "splitrun":
        return [e for e in op["els"] if e["k"] == "map"]
    out = [e for e in op["outer"] if e["k"] == "map"]
    for kind, m in _member_specs(op):
        out += [e for e in (op["branch"] if kind == "main" else m.get("els", [])) if e["k"] == "map"]
    return out


def _construct(op, names, vk, log, tmpl, shared=None):
    """build the pipeline of a run with the real lena classes; returns (start, caches, src, maps, accs) where start()
    puts the pipeline to work (calls alter_sequence where the mode says so) and returns the generator to consume"""
    import lena.core
    import lena.flow
    src = _Src(op["src"], vk, log)
    caches, maps, accs = [], [], []
    if op["op"] == "splitrun":
        outer = _mk_els(op["outer"], 0, names, vk, log, caches, tmpl, maps)
        n_data = sum(1 for e in op["outer"] if e["k"] != "setctx")
        members = []
        for kind, m in _member_specs(op):
            if kind == "fc":
                members.append(_FC(m, vk))
                accs.append(members[-1])
                continue
            if kind == "fr":
                members.append(_FR(m, vk))
                accs.append(members[-1])
                continue
            if kind == "seq":
                mels = _mk_els(m["els"], n_data, names, vk, log, caches, tmpl, maps)
                n_data += sum(1 for e in m["els"] if e["k"] != "setctx")
                members.append(tuple(mels) if m.get("tuple") else lena.core.Sequence(*mels))
                continue
            branch = _mk_els(op["branch"], n_data, names, vk, log, caches, tmpl, maps)
            n_data += sum(1 for e in op["branch"] if e["k"] != "setctx")
            if op.get("nest") and not op.get("bare"):
                branch = _nested(branch, op["nest"])
            member = branch[0] if op.get("bare") else lena.core.Sequence(*branch)
            # the branch at depth d: wrapped into nested containers (each with this one child), outermost first
            for wkind in reversed(op.get("wrap") or []):
                if wkind == "seq":
                    member = lena.core.Sequence(member)
                elif wkind == "split":
                    member = lena.core.Split([member])
                elif wkind == "tsplit":
                    member = lena.core.Split([(member,)])
                elif wkind == "msplit":
                    # a nested Split with a member of another type beside the one that holds the branch, and a
                    # buffer size of its own
                    accs.append(_FC({"a": 7}, vk))
                    member = lena.core.Split([member, accs[-1]], bufsize=2)
                else:
                    raise ValueError(wkind)
            members.append(member)
        if op.get("default_bufsize"):
            sp = lena.core.Split(members)              # bufsize=1000
        else:
            sp = lena.core.Split(members, bufsize=op["bufsize"])
        source = lena.core.Source(src, *(outer + [sp]))
        return (lambda: source()), caches, src, maps, accs
    share = op.get("share")
    if share:
        # els[i:j] are ONE Sequence object that all runs of the history with this key have in their pipelines
        i, j, key = share
        n_before = sum(1 for e in op["els"][:i] if e["k"] != "setctx")
        n_in = sum(1 for e in op["els"][i:j] if e["k"] != "setctx")
        before = _mk_els(op["els"][:i], 0, names, vk, log, caches, tmpl, maps)
        if shared is not None and ("share", key) in shared:
            seq_obj, s_caches, s_maps = shared[("share", key)]
            data = [e for e in op["els"][i:j] if e["k"] != "setctx"]
            for m, (pos, e) in zip(s_maps, [(pos, e) for pos, e in enumerate(data) if e["k"] == "map"]):
                m.renew(e, log)
                m.j = n_before + pos        # its number in THIS pipeline
        else:
            s_caches, s_maps = [], []
            seq_obj = lena.core.Sequence(*_mk_els(op["els"][i:j], n_before, names, vk, log, s_caches, tmpl, s_maps))
            if shared is not None:
                shared[("share", key)] = (seq_obj, s_caches, s_maps)
        caches.extend(s_caches)
        maps.extend(s_maps)
        after = _mk_els(op["els"][j:], n_before + n_in, names, vk, log, caches, tmpl, maps)
        els = before + [seq_obj] + after
    else:
        els = _mk_els(op["els"], 0, names, vk, log, caches, tmpl, maps)
    if op.get("via") == "slice" and op["take"] is not None:
        els.append(lena.flow.Slice(op["take"]))         # downstream stops consuming: a real element ends the flow
    mode = op.get("mode", "source")
    # with "keep" the object alter_sequence returned in the first run of this pipeline object is what later runs
    # (marked "reuse") call again: a hoisted Source is kept, not made anew
    keep, kept = bool(op.get("keep")), {}
    if mode in ("bare_hoist", "bare_meta"):
        el = els[0]
        def start_bare():
            if not (keep and "alt" in kept):
                kept["alt"] = lena.flow.Cache.alter_sequence(el) if mode == "bare_hoist" else lena.core.alter_sequence(el)
            alt = kept["alt"]
            if isinstance(alt, lena.core.Source):
                return alt()
            return alt.run(src())
        return start_bare, caches, src, maps, accs
    if op.get("nest") and not share:
        els = _nested(els, op["nest"])
    if mode == "source":
        source = lena.core.Source(src, *els)
        return (lambda: source()), caches, src, maps, accs
    if mode == "hoist_src":
        source = lena.core.Source(src, *els)
        def start_hoist_src():
            if not (keep and "alt" in kept):
                kept["alt"] = lena.flow.Cache.alter_sequence(source)
            return kept["alt"]()
        return start_hoist_src, caches, src, maps, accs
    seq = lena.core.Sequence(*els)
    def start_seq():
        if not (keep and "alt" in kept):
            kept["alt"] = seq
            if mode == "hoist":
                kept["alt"] = lena.flow.Cache.alter_sequence(seq)
            elif mode == "meta":
                kept["alt"] = lena.core.alter_sequence(seq)
        alt = kept["alt"]
        if isinstance(alt, lena.core.Source):
            return alt()
        return alt.run(src())
    return start_seq, caches, src, maps, accs


def _build(op, names, vk, log, caches=None, tmpl=None, built=None):
    """the generator of a run; with op["reuse"] the pipeline object of an earlier run of the same shape is used
    again (same Cache, Sequence, Source, Split objects), otherwise new objects are made"""
    key = _shape_key(op)
    if op.get("reuse") and built is not None and key in built:
        start, cs, src, maps, accs = built[key]
        src.renew(op["src"], log)
        for m, e in zip(maps, _all_maps(op)):
            m.renew(e, log)
        for a in accs:
            a.renew()
    else:
        start, cs, src, maps, accs = _construct(op, names, vk, log, tmpl, built)
        if built is not None:
            built[key] = (start, cs, src, maps, accs)
    if caches is not None:
        caches.extend(cs)
    return start()


def _tree_obj(t, d, counter, member=False, log=None):
    """the real object of a container tree: "C" a Cache, "L" another element, "FC" / "FR" a FillCompute / FillRequest
    element (as a member of a Split: a member of another type), {"seq"|"tuple"|"runif"|"split": [...]}; with a log the
    harness's own elements note every value they receive ("r")"""
    import lena.core
    import lena.flow
    if t == "C":
        counter[0] += 1
        return lena.flow.Cache(os.path.join(d, "rule%d.pkl" % counter[0]))
    if t == "L":
        return _Leaf(log)
    if t == "FC":
        return _ProbeFC({"a": 0}, "int", log)
    if t == "FR":
        return _ProbeFR({"a": 0}, "int", log)
    (kind, kids), = t.items()
    if kind == "split":
        return lena.core.Split([_tree_obj(k, d, counter, True, log) for k in kids])
    objs = [_tree_obj(k, d, counter, False, log) for k in kids]
    if kind == "tuple" and member:
        return tuple(objs)
    if kind == "runif":
        return lena.flow.RunIf(lambda val: True, *objs)
    return lena.core.Sequence(*objs)


class _Leaf(object):
    def __init__(self, log=None):
        self.log = log

    def run(self, flow):
        for val in flow:
            if self.log is not None:
                self.log.append("r")
            yield val


class _ProbeFC(_FC):
    def __init__(self, spec, vk, log=None):
        _FC.__init__(self, spec, vk)
        self.log = log

    def fill(self, val):
        if self.log is not None:
            self.log.append("r")
        _FC.fill(self, val)


class _ProbeFR(_FR):
    def __init__(self, spec, vk, log=None):
        _FR.__init__(self, spec, vk)
        self.log = log

    def fill(self, val):
        if self.log is not None:
            self.log.append("r")
        _FR.fill(self, val)


def _probe_flow(n, log):
    for i in range(n):
        log.append("p")
        yield i
    log.append("$")


def _reads_whole_flow(trees, bufsize, d):
    """Does Split(members, bufsize) read its whole input before anything downstream of the buffer happens?  Observed on
    the public interface only: a new Split (its Caches on new files in a new directory below d) is run on a flow that is
    longer than bufsize and logs every pull and its end; the harness's own elements inside the members log every value
    they receive, and every value the Split yields is logged.  The Split reads the whole flow at once iff the end of the
    input is the first event after the pulls.  Returns (whole, error): error is the exception of the run, if any."""
    import lena.core
    sub = tempfile.mkdtemp(prefix="rule-", dir=d)
    log = []
    sp = lena.core.Split([_tree_obj(t, sub, [0], True, log) for t in trees], bufsize=bufsize)
    n = 4 if bufsize is None else bufsize + 2
    err = None
    it = sp.run(_probe_flow(n, log))
    try:
        for _ in it:
            log.append("o")
    except CaseTimeout:
        raise
    except BaseException as e:
        err = exc_name(e)
    it = None
    gc.collect()
    first = next((ev for ev in log if ev != "p"), None)
    return first == "$", err


def _bufrule(op, d):
    """the buffer-size rule of Split(members, bufsize), observed as behaviour (no private name of lena is read):
    "none": the Split reads the whole flow at once; "contains"[i]: a Split of member i alone, with bufsize=1, does"""
    ob = {}
    ob["none"], err = _reads_whole_flow(op["members"], op["bufsize"], d)
    ob["contains"] = []
    for t in op["members"]:
        whole, e = _reads_whole_flow([t], 1, d)
        ob["contains"].append(whole)
        err = err or e
    if err:
        ob["err"] = err
    return ob


def _tree_has_cache(t):
    if t == "C":
        return True
    if t in ("L", "FC", "FR"):
        return False
    (kind, kids), = t.items()
    return any(_tree_has_cache(k) for k in kids)


_CACHE_REPR = re.compile(r'Cache\("(.*)" \+ "\[cache [^"]*\]"\*0, recompute=', re.S)


def _cache_file(c):
    """the file a Cache element uses now.  Public interface: its representation `Cache("<file>" + "[cache ...]"*0,
    recompute=...)` (lena's own tests pin this text).  If the representation has another shape: the attribute that
    lena's own tests read (`_filename`), read defensively.  None: this tree shows the file name in neither way - the
    observation is skipped for the run (classify counts it as ids:not-observable), never an alarm."""
    try:
        m = _CACHE_REPR.match(repr(c))
    except Exception:
        m = None
    if m:
        return m.group(1)
    f = getattr(c, "_filename", None)
    return f if isinstance(f, str) else None


def _cache_id(c, names, show=True):
    f = _cache_file(c)
    if f is None:
        return None
    if f in names:
        return names.index(f)
    return "?" + (os.path.basename(f) if show else "")


def _ids_observed(ob):
    return not any(c is None for c in ob.get("ids", []))


def _run_op(op, names, vk, leaked, tmpl=None, built=None):
    log = []
    ob = {"out": [], "snaps": []}
    caches = []
    try:
        it = _build(op, names, vk, log, caches, tmpl, built)
        if op["op"] in ("run", "splitrun"):
            # the file every Cache element of the pipeline uses (None: this tree does not show it, see _cache_file)
            ob["ids"] = [_cache_id(c, names) for c in caches]
    except CaseTimeout:
        raise
    except BaseException as e:  # building a pipeline runs no generator body - unless an element's run is eager
        ob["end"] = "build:" + exc_name(e)
        ob["ev"] = log
        ob.setdefault("ids", [_cache_id(c, names, False) for c in caches])
        gc.collect()
        return ob
    take = op["take"]
    via_slice = op.get("via") == "slice" and take is not None
    held = None
    try:
        while via_slice or take is None or len(ob["out"]) < take:
            v = next(it)
            ob["out"].append(dec(v, vk))
            ob["snaps"].append(_bits(names))
        ob["end"] = "stopped"
        held = it
    except StopIteration:
        # with a Slice(take) as the last element the pipeline ends by itself after `take` values: the generators
        # below the Slice were stopped, not exhausted
        ob["end"] = "stopped" if via_slice and len(ob["out"]) == take else "exhausted"
    except CaseTimeout:
        raise
    except BaseException as e:
        ob["end"] = exc_name(e)
        held = (it, e)      # the traceback refers to the frames of the suspended generators
    it = None
    if op.get("fin", "close") == "leak" and held is not None:
        leaked.append(held)
    held = None
    gc.collect()
    ob["ev"] = log
    return ob


_READY = []


def _prepare():
    """import lena once; before every case move everything that exists to the permanent generation, so that
    the gc.collect() calls that make finalisation deterministic only scan the objects of the current case"""
    if not _READY:
        import lena.core
        import lena.flow
        gc.collect()
        _READY.append(True)
    # everything that exists now (modules, the cases and results of this worker) is either alive or was already
    # collected at the end of the previous case
    gc.freeze()


def run_impl(case):
    _prepare()
    nc, vk = case["nc"], case.get("vk", "int")
    d = tempfile.mkdtemp(prefix="c18-", dir=_tmp_base())
    names = _names(d, case)
    tmpl = {"nb": case.get("nb", nc), "V": case.get("V", 0)}
    leaked = []
    obs = []
    built = {}          # pipeline objects of earlier runs, for runs with "reuse"
    try:
        for op in case["hist"]:
            if op["op"] in ("run", "splitrun"):
                ob = _run_op(op, names, vk, leaked, tmpl, built)
            elif op["op"] == "plant":
                # a file that no run of the history made: an empty cache file, or the temporary file a killed
                # process left behind (no `finally` ran)
                ob = {}
                os.makedirs(os.path.dirname(names[op["c"]]), exist_ok=True)
                if op["what"] == "empty":
                    open(names[op["c"]], "wb").close()
                else:
                    with open(names[op["c"]] + ".tmp", "wb") as f:
                        f.write(b"\x80\x02K\x07.garbage")
            elif op["op"] == "bufrule":
                ob = _bufrule(op, d)
            elif op["op"] == "dropdir":
                # something readable that os.remove cannot remove is at the name of the cache: a directory
                import lena.flow
                name = os.path.join(d, "blocked%d.pkl" % op["c"])
                os.mkdir(name)
                ob = {}
                try:
                    lena.flow.Cache(name, recompute=bool(op.get("rc"))).drop_cache()
                    ob["r"] = "ok"
                except Exception as e:      # LenaEnvironmentError is an OSError, too
                    ob["r"] = exc_name(e) if exc_name(e).startswith("Lena") else ("OSError" if isinstance(e, OSError) else exc_name(e))
                os.rmdir(name)
            elif op["op"] == "repr":
                import lena.flow
                ob = {"exists": "[cache exists]" in repr(lena.flow.Cache(names[op["c"]], recompute=bool(op.get("rc"))))}
            elif op["op"] == "drop":
                import lena.flow
                ob = {}
                try:
                    lena.flow.Cache(names[op["c"]], recompute=bool(op.get("rc"))).drop_cache()
                    ob["r"] = "ok"
                except Exception as e:
                    ob["r"] = exc_name(e)
            elif op["op"] == "finalize":
                ob = {}
                while leaked:
                    leaked.pop(0)
                    gc.collect()
            else:
                raise ValueError(op["op"])
            ob["fs"] = _fs_obs(names, vk)
            obs.append(ob)
    finally:
        del leaked[:]
        built.clear()
        gc.collect()
        shutil.rmtree(d, ignore_errors=True)
    return {"ops": obs}


# ----------------------------------------------------------------------------------------
# Python reference (specification level; independent of the Lean model)

def _ev_src(ev):
    """events are compact strings: s<i> (the source yields its i-th value), s!<i> (raises), s$ (ends),
    m<j>:<i> (element j receives its i-th value), m!<j>:<i> (and raises)"""
    return ev[0] == "s"


def _ev_j(ev):
    return int(ev.lstrip("m!").split(":")[0])


def _src_flow(src):
    vals, r = list(src["vals"]), src["raise"]
    if r is not None and r <= len(vals):
        return vals[:r], _boom_name(src.get("rk", "exc"), "s")
    return vals, None


def _map_flow(el, flow):
    vals, exc = flow
    r = el["raise"]
    if r is not None and r < len(vals):
        return [10 * v + el["a"] for v in vals[:r]], _boom_name(el.get("rk", "exc"), "m")
    return [10 * v + el["a"] for v in vals], exc


def _pipe_flow(stored, src, els):
    """the complete flow of a pipeline when cache c holds stored[c] (None: no cache); also the flow that
    enters every cache that is filled by this run, and the index of the cache that is replayed (or None)"""
    flow, inputs, replay = _src_flow(src), {}, None
    for j, el in enumerate(els):
        if el["k"] == "map":
            flow = _map_flow(el, flow)
        elif stored[el["c"]] is not None and not el["rc"]:
            flow, inputs, replay = (list(stored[el["c"]]), None), {}, j
        else:
            inputs[el["c"]] = flow
    return flow, inputs, replay


def _resolved(op, ids, part="els", skip=0):
    """the pipeline of a run with every templated cache replaced by the cache id it was observed (or predicted) to use,
    and without the SetContext elements (`skip` caches precede this part)"""
    out, i = [], skip
    for e in op[part]:
        if e["k"] == "setctx":
            continue
        if e["k"] == "tcache":
            e = {"k": "cache", "c": ids[i], "rc": e["rc"]}
        if e["k"] == "cache":
            i += 1
        out.append(e)
    return out


def _has_eager(case):
    return any(e.get("eager") for op in case["hist"] for e in op.get("els", []))


def _multi(op):
    return op["op"] == "splitrun" and bool(op.get("pre") or op.get("post"))


def _member_has_cache(op):
    """a member of type sequence of the Split of a splitrun holds a Cache (a bare Cache member counts: it is a Sequence
    unless it is filled when the Split is made - then nothing in it needs the whole flow, and nothing is lost by it)"""
    return any(e["k"] in ("cache", "tcache") for e in op["branch"]) or any(
        e["k"] == "cache" for m in (op.get("pre") or []) + (op.get("post") or []) if m["k"] == "seq" for e in m["els"])


def _modelled(case):
    """pipelines with an element whose `run` is not lazy are outside the model (ASSUMPTIONS), and so are Splits with
    several members that do not read the whole flow at once (C03 models their schedule), or whose main member is a
    bare Cache: oracle only"""
    if _has_eager(case) or case.get("nomodel"):
        return False
    for op in case["hist"]:
        if "msplit" in (op.get("wrap") or []):
            return False
        if op.get("bare") and op.get("reuse") and op["op"] == "splitrun" and not case.get("bare_consistent"):
            # a Split keeps the decision (Source member / Sequence member) it took for a bare Cache when it was made
            return False
        if _multi(op) and (op.get("bare") or op.get("wrap") or not (op["bufsize"] is None or _member_has_cache(op))):
            return False
    return True


def model_requests(case):
    return [case] if _modelled(case) else []


def compare(case, res, replies):
    m = replies[0]
    if "err" in m:
        return f"model driver error: {m['err']}"
    nc = case["nc"]
    finals = [None] * nc
    for i, (op, a, b) in enumerate(zip(case["hist"], res["ops"], m["ops"])):
        b = dict(b)
        ref = b.pop("ref", None)
        spec = b.pop("spec", None)
        if "ids" in a and not _ids_observed(a):
            # the tree does not show which file a Cache uses (_cache_file): nothing to compare the model's names with
            a = {k: v for k, v in a.items() if k != "ids"}
            b_ids = b.pop("ids", None)
        else:
            b_ids = b.get("ids")
        if jdump(a) != jdump(b):
            keys = [k for k in sorted(set(a) | set(b)) if jdump(a.get(k)) != jdump(b.get(k))]
            return (f"op {i} ({op['op']}): impl and model differ in {keys}: impl "
                    + jdump({k: a.get(k) for k in keys})[:300] + " model " + jdump({k: b.get(k) for k in keys})[:300])
        if op["op"] == "run":
            if b_ids != _static_ids(case, op["els"])[0]:
                return (f"op {i}: Lean resolve gives the cache files {b_ids}, the Python naming rule "
                        f"{_static_ids(case, op['els'])[0]}")
            # (pipeFlow and the vocabulary do not distinguish exception classes: the reference is taken without them)
            els = [{k: v for k, v in e.items() if k != "rk"} for e in _resolved(op, b_ids)]
            src0 = {k: v for k, v in op["src"].items() if k != "rk"}
            flow, inputs, replay = _pipe_flow(finals, src0, els)
            if ref != {"vals": flow[0], "exc": flow[1]}:
                return f"op {i}: Lean pipeFlow {ref} differs from the Python reference {flow}"
            # the specification vocabulary of the theorems, evaluated by the driver, against Python
            k = op["take"]
            end = "stopped" if (k is not None and k <= len(flow[0])) else ("exhausted" if flow[1] is None else flow[1])
            erased = _pipe_flow([None] * len(finals), src0, [e for e in els if e["k"] == "map"])[0]
            py = {"distinct": len(set(b_ids)) == len(b_ids),
                  "nofilled": replay is None,
                  "modeok": op.get("mode", "source") not in ("bare_hoist", "bare_meta") or (len(els) == 1 and els[0]["k"] == "cache"),
                  "erased": {"vals": erased[0], "exc": erased[1]},
                  "endof": end,
                  "stored": sorted([c, fl[0]] for c, fl in inputs.items()) if end == "exhausted" else [],
                  "replay": replay,
                  "evafter": None if replay is None else all((not _ev_src(ev)) and _ev_j(ev) > replay for ev in b["ev"])}
            spec = dict(spec or {})
            spec["stored"] = sorted(spec.get("stored", []))
            if jdump(spec) != jdump(py):
                keys = [x for x in py if jdump(py[x]) != jdump(spec.get(x))]
                return (f"op {i}: specification vocabulary: Lean and Python differ in {keys}: Lean "
                        + jdump({x: spec.get(x) for x in keys})[:300] + " Python " + jdump({x: py[x] for x in keys})[:300])
        finals = [f["final"] for f in b["fs"]]
    return None


# ----------------------------------------------------------------------------------------
# oracle: the property's statement evaluated on what the real code did

def oracle(case, res):
    nc = case["nc"]
    stored = [None] * nc          # the flow that the last complete storing run of cache c saw
    made = {}                     # which caches were filled when the Split object of a (re-used) pipeline was made
    if _ids_skipped(case, res) == "case":
        return None
    for i, (op, ob) in enumerate(zip(case["hist"], res["ops"])):
        where = f"op {i} {_show_op(op)}"
        maybe_dropped = set()
        if op["op"] == "run":
            ids = ob.get("ids", []) if _ids_observed(ob) else _static_ids(case, op["els"])[0]
            if any(type(c) is not int for c in ids):
                return f"cache-name: {where}: a Cache uses a file outside the names of the case: {ids}"
            msg = _name_clause(case, where, _static_ids(case, op["els"])[0], ids)
            if msg:
                return msg
            els = _resolved(op, ids)
            (vals, exc), inputs, replay = _pipe_flow(stored, op["src"], els)
            hoisted = op.get("mode", "source") in ("hoist", "hoist_src", "bare_hoist", "bare_meta")
            eager = [j for j, e in enumerate(els) if e.get("eager") and not (hoisted and replay is not None and j < replay)]
            if eager:
                # an element whose `run` is an ordinary method consumes its input when the pipeline is put together:
                # everything up to the last such element behaves like the outer pipeline of a Split (pulled ahead,
                # its exceptions arrive at construction time); the laziness the no-pull clause relies on is absent
                msg, maybe_dropped = _two_phase(where, stored, op["src"], els[:eager[-1] + 1], els[eager[-1] + 1:], ob,
                                                op["take"], check_outer_pull=False)
                if msg:
                    return msg
                if hoisted and replay is not None:
                    for ev in ob["ev"]:
                        if _ev_src(ev) or _ev_j(ev) < replay:
                            return (f"upstream-pulled: {where}: cache {els[replay]['c']} is filled and hoisted, but the run "
                                    f"pulled from upstream of it (event {ev})")
                for c in range(nc):
                    f = ob["fs"][c]["final"]
                    if f is None and c in maybe_dropped:
                        stored[c] = None
                    if f != stored[c]:
                        return (f"cache-content: after {where} the file of cache {c} holds {f}, but the complete run that "
                                f"stored it saw {stored[c]}")
                continue
            if ob["end"].startswith("build:"):
                return f"build-failed: {where}: putting the pipeline together raised {ob['end'][6:]}"
            k = op["take"]
            if k is not None and k <= len(vals):
                exp_out, exp_end = vals[:k], "stopped"
            else:
                exp_out, exp_end = vals, ("exhausted" if exc is None else exc)
            if replay is not None:
                c = els[replay]["c"]
                for ev in ob["ev"]:
                    if _ev_src(ev):
                        return (f"upstream-pulled: {where}: cache {c} is filled, but the run pulled from the source "
                                f"(events {ob['ev'][:6]})")
                    if _ev_j(ev) < replay:
                        return (f"upstream-ran: {where}: cache {c} (element {replay}) is filled, but element {_ev_j(ev)} "
                                f"upstream of it processed a value")
                if ob["out"] != exp_out:
                    return (f"replay-differs: {where}: cache {c} holds {stored[c]}, expected the run to yield {exp_out}, "
                            f"it yielded {ob['out']} (end {ob['end']})")
            elif ob["out"] != exp_out:
                return f"flow-altered: {where}: expected the run to yield {exp_out}, it yielded {ob['out']} (end {ob['end']})"
            if ob["end"] != exp_end:
                return f"end-differs: {where}: expected the run to end with {exp_end}, it ended with {ob['end']} after {ob['out']}"
            if exp_end == "exhausted":
                for c, fl in inputs.items():
                    stored[c] = list(fl[0])
            else:
                # an interrupted recomputation may or may not keep the old cache: the statement allows both
                maybe_dropped = {c for c in inputs if stored[c] is not None}
        elif op["op"] == "splitrun":
            # Split fills its buffers from the outer pipeline (source + outer elements) before it yields what the branch
            # makes of them: the outer pipeline is pulled whatever the branch does (and may be pulled to its end, and
            # its caches filled, before the consumer stops); an exception of the outer pipeline may arrive before all
            # earlier values were yielded.  The branch is a pipeline on the values of the outer flow.
            ids = ob.get("ids", []) if _ids_observed(ob) else _split_static_ids(case, op)
            if any(type(c) is not int for c in ids):
                return f"cache-name: {where}: a Cache uses a file outside the names of the case: {ids}"
            if ob["end"].startswith("build:"):
                return f"build-failed: {where}: putting the pipeline together raised {ob['end'][6:]}"
            msg = _name_clause(case, where, _split_static_ids(case, op), ids)
            if msg:
                return msg
            if _multi(op) or op.get("bare"):
                # a Split object decides when it is made whether a bare Cache member is a Source (filled) or a Sequence
                key = _shape_key(op)
                if not (op.get("reuse") and key in made):
                    made[key] = [x is not None for x in stored]
                outer, members = _members_resolved(op, ids)
                msg, maybe_dropped = _multi_phase(where, stored, op["src"], outer, members, op["bufsize"], ob, op["take"],
                                                  made[key])
            else:
                outer = _resolved(op, ids, "outer")
                branch = _resolved(op, ids, "branch", sum(1 for e in outer if e["k"] == "cache"))
                msg, maybe_dropped = _two_phase(where, stored, op["src"], outer, branch, ob, op["take"],
                                                n_tail=sum(1 for w in op.get("wrap") or [] if w == "msplit"))
            if msg:
                return msg
        elif op["op"] == "plant":
            if op["what"] == "empty":
                stored[op["c"]] = []          # somebody else's (empty) cache: it is the stored flow from now on
        elif op["op"] == "bufrule":
            # a Sequence member is run once per buffer: a Cache anywhere inside it must get the whole flow
            if ob.get("err"):
                return (f"split-run-failed: {where}: running the Split on a flow of integers raised {ob['err']}")
            if op["bufsize"] is not None and any(_tree_has_cache(t) for t in op["members"]) and not ob["none"]:
                return (f"cache-per-buffer: {where}: a member of the Split holds a Cache, but the Split keeps "
                        f"bufsize={op['bufsize']}: the Cache would store one buffer as the complete flow")
        elif op["op"] == "dropdir":
            # "If cache exists and is readable, but could not be deleted, LenaEnvironmentError is raised" (docstring)
            if ob["r"] == "ok":
                return f"drop-silent: {where}: drop_cache() returned although the cache could not be removed"
        elif op["op"] == "repr":
            # the representation says whether the cache will be replayed
            if ob["exists"] != (stored[op["c"]] is not None and not op.get("rc")):
                return (f"repr-differs: {where}: repr says 'cache exists' = {ob['exists']}, the cache holds "
                        f"{stored[op['c']]}")
        elif op["op"] == "drop":
            if stored[op["c"]] is not None and ob["r"] != "ok":
                return f"drop-failed: {where}: drop_cache() of an existing cache raised {ob['r']}"
            stored[op["c"]] = None
        for c in range(nc):
            f = ob["fs"][c]["final"]
            if f is None and c in maybe_dropped:
                stored[c] = None
            if f != stored[c]:
                if stored[c] is None:
                    return (f"cache-without-complete-run: after {where} the file of cache {c} exists and holds {f}, but no "
                            f"complete run has stored it: a later run would present it as the complete flow")
                return (f"cache-content: after {where} the file of cache {c} holds {f}, but the complete run that "
                        f"stored it saw {stored[c]}")
    return None


def _ids_skipped(case, res):
    """None: every run of the history showed which files its Caches use.  Otherwise the observation is skipped (the tree
    shows the names neither in repr nor in `_filename`): "run" - the oracle takes the names of the naming rule instead
    (the name clause then says nothing); "case" - a template without its key is among them, whose file the statement
    does not fix: the oracle does not judge the history"""
    if all(_ids_observed(ob) for ob in res["ops"]):
        return None
    nb, V = case.get("nb", case["nc"]), case.get("V", 0)
    for op in case["hist"]:
        ids = _static_ids(case, op["els"])[0] if op["op"] == "run" else (_split_static_ids(case, op) if op["op"] == "splitrun" else [])
        if any(e >= nb and (e - nb) % (V + 1) == 0 for e in ids):
            return "case"
    return "run"


def _name_clause(case, where, expected, observed):
    """a Cache whose file name is given literally, or is a template whose key the static context of the pipeline
    sets, uses that file (whatever the Cache object was used for before); what a template without its key uses is
    not demanded"""
    nb, V = case.get("nb", case["nc"]), case.get("V", 0)
    for i, (e, o) in enumerate(zip(expected, observed)):
        if e != o and (e < nb or (e - nb) % (V + 1) != 0):
            return (f"cache-name: {where}: the {i}-th Cache of the pipeline should use file {e} (its name under the "
                    f"static context of this pipeline), it uses file {o}: it would store or replay another flow")
    if len(expected) != len(observed):
        return f"cache-name: {where}: the pipeline has {len(expected)} Cache elements, observed files {observed}"
    return None


def _split_static_ids(case, op):
    o_ids, ctx = _static_ids(case, op["outer"])
    ids = list(o_ids)
    for kind, m in _member_specs(op):
        if kind == "main":
            ids += _static_ids(case, op["branch"], ctx)[0]
        elif kind == "seq":
            ids += _static_ids(case, m["els"], ctx)[0]
    return ids


def _two_phase(where, stored, src, outer, branch, ob, k, check_outer_pull=True, n_tail=0):
    """the statement for a pipeline whose first part (`outer`) is pulled ahead of what the second part yields;
    updates `stored`, returns (failure message or None, caches an interrupted recomputation may have dropped)"""
    m = len(outer)
    end = ob["end"][6:] if ob["end"].startswith("build:") else ob["end"]
    (o_vals, o_exc), o_inputs, o_replay = _pipe_flow(stored, src, outer)
    (vals, exc), b_inputs, b_replay = _pipe_flow(stored, {"vals": o_vals, "raise": None}, branch)
    if exc is None:
        # every enclosing Split with a FillCompute member beside the branch (wrap "msplit") adds that member's result
        vals = vals + [10 * sum(o_vals) + 7] * n_tail
    for ev in ob["ev"]:
        if check_outer_pull and o_replay is not None and (_ev_src(ev) or _ev_j(ev) < o_replay):
            return (f"upstream-pulled: {where}: cache {outer[o_replay]['c']} is filled, but the run pulled "
                    f"from upstream of it (event {ev})"), set()
        if b_replay is not None and not _ev_src(ev) and m <= _ev_j(ev) < m + b_replay:
            return (f"upstream-ran: {where}: cache {branch[b_replay]['c']} (element {m + b_replay}) is "
                    f"filled, but element {_ev_j(ev)} upstream of it processed a value"), set()
    if ob["out"] != vals[:len(ob["out"])]:
        return (f"flow-altered: {where}: the flow through the pipeline is {vals}, the run yielded {ob['out']} "
                f"(end {ob['end']})"), set()
    if end == "exhausted":
        if exc is not None or o_exc is not None or ob["out"] != vals:
            return (f"end-differs: {where}: the run ended normally after {ob['out']}, the flow is {vals} "
                    f"ending with {exc or o_exc}"), set()
        for c, fl in list(o_inputs.items()) + list(b_inputs.items()):
            stored[c] = list(fl[0])
        return None, set()
    if end == "stopped":
        if k is None or len(ob["out"]) != k:
            return f"end-differs: {where}: the consumer was stopped after {len(ob['out'])} values, take={k}", set()
    elif end not in (exc, o_exc):
        return (f"end-differs: {where}: the run ended with {ob['end']}; the flow {vals} ends with {exc} "
                f"(first part: {o_exc})"), set()
    maybe_dropped = {c for c in list(o_inputs) + list(b_inputs) if stored[c] is not None}
    if o_exc is None:
        # the first part may have been pulled to its normal end: a complete run through its caches
        for c, fl in o_inputs.items():
            if ob["fs"][c]["final"] == list(fl[0]):
                stored[c] = list(fl[0])
    return None, maybe_dropped


def _members_resolved(op, ids):
    """the outer elements and the members [(kind, elements or spec, number of the first element)] of the Split of a
    splitrun, kind = seq | bare (a bare Cache) | fc | fr, with the cache files as observed"""
    outer = _resolved(op, ids, "outer")
    skip = sum(1 for e in outer if e["k"] == "cache")
    j0, out = len(outer), []
    for kind, m in _member_specs(op):
        if kind in ("fc", "fr"):
            out.append((kind, m, None))
            continue
        els = _resolved(op, ids, "branch", skip) if kind == "main" else [dict(e) for e in m["els"]]
        skip += sum(1 for e in els if e["k"] == "cache")
        out.append(("bare" if kind == "main" and op.get("bare") else "seq", els, j0))
        j0 += len(els)
    return outer, out


def _split_ref(stored, o_vals, members, bufsize, filled_when_made):
    """what Split(members, bufsize).run yields for the input o_vals by Split's documented schedule (for every buffer
    every member in turn: a Sequence is run on the buffer, a FillRequest is filled and requested, a FillCompute is
    filled; a Source member yields its flow once; FillCompute members compute at the end; everything is run once
    for an empty input) WHEN every Sequence member that holds a Cache is given the whole flow in one buffer - the
    statement read for a Cache in a Split.  Returns (values, exception, {cache: flow that enters it}, [(j0, r)] for
    the members that replay their r-th element)"""
    def is_src(kind, x):
        return kind == "bare" and filled_when_made[x[0]["c"]] and not x[0]["rc"]
    def src_flow(x):
        # the Source member loads whatever the file holds now; without a file that is a (loud) FileNotFoundError
        c = x[0]["c"]
        if stored[c] is None:
            return "Other:FileNotFoundError"
        out.extend(stored[c])
        return None
    whole = bufsize is None or any(kind in ("seq", "bare") and not is_src(kind, x) and any(e["k"] == "cache" for e in x)
                                   for kind, x, _ in members)
    bufs = [o_vals] if whole else [o_vals[i:i + bufsize] for i in range(0, len(o_vals), bufsize)]
    bufs = [b for b in bufs if b]
    out, inputs, replays, sums, done = [], {}, [], [0] * len(members), set()
    def run_seq(x, j0, buf):
        (v, exc), inp, rep = _pipe_flow(stored, {"vals": buf, "raise": None}, x)
        out.extend(v)
        inputs.update(inp)
        if rep is not None:
            replays.append((j0, rep))
        return exc
    for buf in bufs:
        for i, (kind, x, j0) in enumerate(members):
            if is_src(kind, x):
                if i not in done:
                    done.add(i)
                    exc = src_flow(x)
                    if exc is not None:
                        return out, exc, inputs, replays
            elif kind in ("seq", "bare"):
                exc = run_seq(x, j0, buf)
                if exc is not None:
                    return out, exc, inputs, replays
            else:
                sums[i] += sum(buf)
                if kind == "fr":
                    out.append(10 * sums[i] + x["a"])
    for i, (kind, x, j0) in enumerate(members):
        if is_src(kind, x):
            if i not in done:
                exc = src_flow(x)
                if exc is not None:
                    return out, exc, inputs, replays
        elif kind == "fc":
            out.append(10 * sums[i] + x["a"])
        elif kind == "fr":
            if not bufs:
                out.append(x["a"])
        elif not bufs:
            exc = run_seq(x, j0, [])
            if exc is not None:
                return out, exc, inputs, replays
    return out, None, inputs, replays


def _multi_phase(where, stored, src, outer, members, bufsize, ob, k, filled_when_made):
    """the statement for Source(src, *outer, Split(members, bufsize)): like _two_phase, the second part being the
    members of the Split on the values of the outer flow"""
    end = ob["end"]
    (o_vals, o_exc), o_inputs, o_replay = _pipe_flow(stored, src, outer)
    vals, exc, b_inputs, replays = _split_ref(stored, o_vals, members, bufsize, filled_when_made)
    for ev in ob["ev"]:
        if o_replay is not None and (_ev_src(ev) or _ev_j(ev) < o_replay):
            return (f"upstream-pulled: {where}: cache {outer[o_replay]['c']} is filled, but the run pulled "
                    f"from upstream of it (event {ev})"), set()
        for j0, r in replays:
            if not _ev_src(ev) and j0 <= _ev_j(ev) < j0 + r:
                return (f"upstream-ran: {where}: element {j0 + r} (a Cache in a member of the Split) is filled, but "
                        f"element {_ev_j(ev)} upstream of it in the member processed a value"), set()
    if ob["out"] != vals[:len(ob["out"])]:
        return (f"flow-altered: {where}: with the whole flow through every member that holds a Cache the run yields "
                f"{vals}, it yielded {ob['out']} (end {ob['end']})"), set()
    every = list(o_inputs.items()) + list(b_inputs.items())
    if end == "exhausted":
        if exc is not None or o_exc is not None or ob["out"] != vals:
            return (f"end-differs: {where}: the run ended normally after {ob['out']}, the flow is {vals} "
                    f"ending with {exc or o_exc}"), set()
        for c, fl in every:
            stored[c] = list(fl[0])
        return None, set()
    if end == "stopped":
        if k is None or len(ob["out"]) != k:
            return f"end-differs: {where}: the consumer was stopped after {len(ob['out'])} values, take={k}", set()
    elif end not in (exc, o_exc):
        return (f"end-differs: {where}: the run ended with {ob['end']}; the flow {vals} ends with {exc} "
                f"(first part: {o_exc})"), set()
    maybe_dropped = {c for c, _ in every if stored[c] is not None}
    # a part of the pipeline may have been run to its normal end before the run was interrupted: a complete run
    # through its caches
    for c, fl in every:
        if fl[1] is None and (c not in o_inputs or o_exc is None) and ob["fs"][c]["final"] == list(fl[0]):
            stored[c] = list(fl[0])
    return None, maybe_dropped


def _show_member(m):
    if m["k"] == "seq":
        return ("(%s)" if m.get("tuple") else "Sequence(%s)") % _show_els(m["els"])
    return "%s%d" % (m["k"].upper(), m["a"])


def _show_el(e):
    if e["k"] == "map":
        return "M%d%s%s%s" % (e["a"], "e" if e.get("eager") else "", "" if e["raise"] is None else "!%d" % e["raise"],
                              "" if e.get("rk", "exc") == "exc" else "(" + e["rk"] + ")")
    if e["k"] == "setctx":
        return "Set(k%d=%d)" % (e["key"], e["v"])
    if e["k"] == "tcache":
        return "C(t%d_{k%d})%s" % (e["t"], e["key"], "r" if e["rc"] else "")
    return "C%d%s" % (e["c"], "r" if e["rc"] else "")


def _show_vals(vals):
    return str(vals) if len(vals) <= 12 else f"[{vals[0]}, {vals[1]}, ... {len(vals)} values ... {vals[-1]}]"


def _show_els(els):
    return "".join(_show_el(e) for e in els)


def _show_op(op):
    if op["op"] == "splitrun":
        member = _show_els(op["branch"]) if op.get("bare") else f"Sequence({_show_els(op['branch'])})"
        member = ", ".join([_show_member(m) for m in op.get("pre") or []] + [member]
                           + [_show_member(m) for m in op.get("post") or []])
        return (f"splitrun[src={op['src']['vals']}" + ("" if op["src"]["raise"] is None else f"!{op['src']['raise']}")
                + f" outer={_show_els(op['outer'])} Split([{member}], bufsize={op['bufsize']})"
                + (f" nest={op['nest']}" if op.get("nest") else "") + (f" wrap={op['wrap']}" if op.get("wrap") else "")
                + f" take={op['take']} {op.get('fin', 'close')}]")
    if op["op"] != "run":
        return jdump(op)
    els = _show_els(op["els"])
    return (f"run[{op.get('mode', 'source')} src={_show_vals(op['src']['vals'])}"
            + ("" if op["src"]["raise"] is None else f"!{op['src']['raise']}")
            + ("" if op["src"].get("rk", "exc") == "exc" else f"({op['src']['rk']})")
            + (" via=Slice" if op.get("via") == "slice" else "")
            + (f" nest={op['nest']}" if op.get("nest") else "") + (f" share={op['share']}" if op.get("share") else "")
            + f" els={els} take={op['take']} {op.get('fin', 'close')}]")


def nontrivial(case, res):
    return any(ob.get("out") for ob in res["ops"])


def signature(case, failure):
    return failure.split(":", 1)[0]


def classify(case, res):
    skipped = _ids_skipped(case, res)
    labels = (["ids:not-observable-" + skipped] if skipped else []) + ["family:" + case.get("fam", "?"), "vk:" + case.get("vk", "int"), "names:" + ("subdirs" if case.get("dirs") else "flat"),
              "model:" + ("yes" if _modelled(case) else "oracle-only")]
    for op, ob in zip(case["hist"], res["ops"]):
        if op["op"] == "run":
            labels.append("run-end:" + ob["end"] + ("+leak" if op.get("fin") == "leak" and ob["end"] != "exhausted" else ""))
            labels.append("run-mode:" + op.get("mode", "source"))
            labels.append("run:" + ("no-source-event" if not any(_ev_src(e) for e in ob["ev"]) else "from-source"))
            labels.append("take:" + ("all" if op["take"] is None else "k"))
            if op.get("share"):
                labels.append("run:shared-sub-sequence")
            if op.get("nest"):
                labels.append("nest-depth:%d" % (op["nest"][2] if len(op["nest"]) > 2 else 1))
        elif op["op"] == "bufrule":
            labels.append("bufrule:" + ("whole" if ob["none"] else "buffered"))
        elif op["op"] == "splitrun":
            labels.append("split-depth:%d" % len(op.get("wrap") or []))
            labels.append("split-members:" + "+".join(sorted(set(k for k, _ in _member_specs(op)))) + ("+bare" if op.get("bare") else ""))
            if op.get("reuse"):
                labels.append("split-reuse:" + ("bare" if op.get("bare") else "seq"))
            labels.append("split-end:" + ob["end"])
            labels.append("split-bufsize:" + ("None" if op["bufsize"] is None else "n"))
        else:
            labels.append("op:" + op["op"] + (":" + ob["r"] if "r" in ob else ""))
    return sorted(set(labels))


def _static_ids(case, els, ctx=None):
    """the cache ids of a list of element specs under the static context set by the SetContext elements before
    them (a Python transcription of the naming rule, used to keep shrunk cases well-formed)"""
    nb, V = case.get("nb", case["nc"]), case.get("V", 0)
    ctx = dict(ctx or {})
    ids = []
    for e in els:
        if e["k"] == "setctx":
            ctx[e["key"]] = e["v"]
        elif e["k"] == "cache":
            ids.append(e["c"])
        elif e["k"] == "tcache":
            v = ctx.get(e["key"])
            ids.append(nb + e["t"] * (V + 1) + (0 if v is None else v + 1))
    return ids, ctx


def _well_formed(case):
    """every pipeline of the case uses distinct cache files"""
    for op in case["hist"]:
        if op["op"] == "run":
            ids = _static_ids(case, op["els"])[0]
        elif op["op"] == "splitrun":
            ids = _split_static_ids(case, op)
            if op.get("bare") and not (op["branch"] and op["branch"][0]["k"] == "cache"):
                return False
        else:
            continue
        if len(set(ids)) != len(ids) or any(c >= case["nc"] for c in ids):
            return False
    return True


def shrink(case):
    for cand in _shrink(case):
        if _well_formed(cand):
            yield cand


def _shrink(case):
    hist = case["hist"]
    for i in range(len(hist)):
        yield dict(case, hist=hist[:i] + hist[i + 1:])
    if case.get("vk", "int") != "int":
        yield dict(case, vk="int")
    if case.get("dirs"):
        yield dict(case, dirs=False)
    for i, op in enumerate(hist):
        if op["op"] == "splitrun":
            def rep2(**kw):
                return dict(case, hist=hist[:i] + [dict(op, **kw)] + hist[i + 1:])
            if op["src"]["vals"]:
                yield rep2(src=dict(op["src"], vals=op["src"]["vals"][:-1]))
            if op["src"]["raise"] is not None:
                yield rep2(src=dict(op["src"], **{"raise": None}))
            for part in ("outer", "branch"):
                for j in range(len(op[part])):
                    if part == "outer" or len(op[part]) > 1:
                        yield rep2(**{part: op[part][:j] + op[part][j + 1:]})
            if op["bufsize"] is not None and op["bufsize"] > 1:
                yield rep2(bufsize=op["bufsize"] - 1)
            if op["take"] is not None:
                yield rep2(take=None)
            if op.get("nest"):
                yield rep2(nest=None)
            for part in ("pre", "post"):
                ms = op.get(part) or []
                for j in range(len(ms)):
                    yield rep2(**{part: ms[:j] + ms[j + 1:]})
            if op.get("wrap"):
                yield rep2(wrap=op["wrap"][1:])
                yield rep2(wrap=op["wrap"][:-1])
        if op["op"] != "run":
            continue
        def rep(**kw):
            return dict(case, hist=hist[:i] + [dict(op, **kw)] + hist[i + 1:])
        if op.get("nest"):
            yield rep(nest=None)
            if len(op["nest"]) > 2 and op["nest"][2] > 1:
                yield rep(nest=[op["nest"][0], op["nest"][1], op["nest"][2] - 1])
        if op.get("mode", "source") not in ("source", "bare_hoist", "bare_meta"):
            yield rep(mode="source")
        if op["src"]["vals"]:
            yield rep(src=dict(op["src"], vals=op["src"]["vals"][:-1]))
        if op["src"]["raise"] is not None:
            yield rep(src=dict(op["src"], **{"raise": None}))
        if not op.get("nest") and not op.get("share") and op.get("mode", "source") not in ("bare_hoist", "bare_meta"):
            for j in range(len(op["els"])):
                yield rep(els=op["els"][:j] + op["els"][j + 1:])
        for j, e in enumerate(op["els"]):
            if e["k"] == "map" and e.get("raise") is not None:
                yield rep(els=op["els"][:j] + [dict(e, **{"raise": None})] + op["els"][j + 1:])
        if op["take"] is not None and op["take"] > 0:
            yield rep(take=op["take"] - 1)


# ----------------------------------------------------------------------------------------
# case generation

def M(a, r=None):
    return {"k": "map", "a": a, "raise": r}


def C(c, rc=False):
    return {"k": "cache", "c": c, "rc": rc}


def R(vals, els, take=None, fin="close", mode="source", sraise=None, nest=None, rk="exc", via=None):
    op = {"op": "run", "mode": mode, "src": {"vals": list(vals), "raise": sraise}, "els": [dict(e) for e in els],
          "take": take, "fin": fin, "nest": nest}
    if rk != "exc":
        op["src"]["rk"] = rk
    if via:
        op["via"] = via
    return op


DROP = lambda c, rc=False: {"op": "drop", "c": c, "rc": rc}
FINALIZE = {"op": "finalize"}
_VKS = ("int", "ctx", "mixed", "falsy", "mut")


def _vals(run, n):
    """codes of the n source values of the run-th run of a history (different runs, different values)"""
    return [run * 20 + i for i in range(n)]


def _crash_variants(shape, n, run=0, fins=("close", "leak")):
    """every way the run of `shape` over a flow of n values can go: complete, the consumer stopping after
    k = 0..n values, the source raising at k = 0..n, each map raising at value k = 0..n-1"""
    vals = _vals(run, n)
    yield R(vals, shape)
    for fin in fins:
        for k in range(n + 1):
            yield R(vals, shape, take=k, fin=fin)
        for k in range(n + 1):
            yield R(vals, shape, sraise=k, fin=fin)
        for j, e in enumerate(shape):
            if e["k"] == "map":
                for k in range(n):
                    els = [dict(x) for x in shape]
                    els[j]["raise"] = k
                    yield R(vals, els, fin=fin)


_SHAPES1 = [[C(0)], [M(1), C(0)], [C(0), M(2)], [M(1), C(0), M(2)]]
_SHAPES2 = [[C(0), C(1)], [C(0), M(2), C(1)], [M(1), C(0), M(2), C(1), M(3)], [M(1), C(1), C(0), M(3)]]


def _family_a(ns):
    """one cache: first run with every crash point x finalised or not; second run (other values) complete or
    interrupted, plain or hoisted; the leaked generators finalised or not; a complete third run"""
    for shape in _SHAPES1:
        for n in ns:
            for r1 in _crash_variants(shape, n):
                for r2 in (R(_vals(1, 2), shape), R(_vals(1, 2), shape, take=1, fin="leak")):
                    for mode in ("source", "hoist"):
                        for fz in (False, True):
                            hist = [r1, dict(r2, mode=mode)] + ([FINALIZE] if fz else []) + \
                                   [R(_vals(2, 3), shape, mode="sequence")]
                            yield {"nc": 1, "fam": "A", "hist": hist}


def _family_b(n=2):
    """two caches at all positions: every crash point of the first run, then drop / recompute of either cache"""
    for shape in _SHAPES2:
        def with_rc(c):
            return [dict(e, rc=True) if e["k"] == "cache" and e["c"] == c else dict(e) for e in shape]
        seconds = [[R(_vals(1, 3), shape)],
                   [DROP(0), R(_vals(1, 3), shape)],
                   [DROP(1), R(_vals(1, 3), shape)],
                   [R(_vals(1, 3), with_rc(0))],
                   [R(_vals(1, 3), with_rc(1))],
                   [R(_vals(1, 3), with_rc(1), take=1), FINALIZE]]
        for r1 in _crash_variants(shape, n):
            for sec in seconds:
                yield {"nc": 2, "fam": "B", "hist": [r1] + sec + [R(_vals(2, 2), shape, mode="hoist")]}


def _family_c(length):
    """all histories of `length` operations over an alphabet of 11, on M C0 M C1 M, then a complete run"""
    shape = [M(1), C(0), M(2), C(1), M(3)]
    def rc(c):
        return [dict(e, rc=True) if e["k"] == "cache" and e["c"] == c else dict(e) for e in shape]
    def mr(j, k):
        els = [dict(x) for x in shape]
        els[j]["raise"] = k
        return els
    def alphabet(i):
        v = _vals(i, 2)
        return [R(v, shape), R(v, shape, take=1), R(v, shape, take=1, fin="leak"), R(v, shape, sraise=1),
                R(v, mr(4, 1), fin="leak"), R(v, mr(2, 1)), R(v, rc(0)), R(v, rc(1), take=2, fin="leak"),
                DROP(0), DROP(1), FINALIZE]
    for idx in itertools.product(range(11), repeat=length):
        hist = [alphabet(i)[a] for i, a in enumerate(idx)]
        yield {"nc": 2, "fam": "C", "hist": hist + [R(_vals(length, 3), shape, mode="sequence")]}


def _family_d():
    """every way of calling x every filling state x nesting, for all shapes"""
    for shape in _SHAPES1 + _SHAPES2:
        nc = 1 + max(e["c"] for e in shape if e["k"] == "cache")
        ids = sorted(e["c"] for e in shape if e["k"] == "cache")
        for filled in itertools.product((False, True), repeat=len(ids)):
            pre = []
            for c, f in zip(ids, filled):
                if f:
                    pre.append(R(_vals(3 + c, 2 + c), [C(c)]))
            modes = ("source", "sequence", "hoist", "hoist_src", "meta")
            nests = [None] + [[i, j] for i in range(len(shape)) for j in range(i + 1, len(shape) + 1)
                              if (i, j) != (0, len(shape)) or len(shape) == 1]
            for mode in modes:
                for nest in nests:
                    for take in (None, 1):
                        yield {"nc": nc, "fam": "D", "hist": pre + [R(_vals(0, 3), shape, mode=mode, nest=nest, take=take),
                                                                    R(_vals(1, 2), shape, mode=mode, nest=nest)]}
                    # the sub-Sequence two and three Sequences deep
                    if nest:
                        for depth in (2, 3):
                            yield {"nc": nc, "fam": "D", "hist": pre + [R(_vals(0, 3), shape, mode=mode, nest=nest + [depth]),
                                                                        R(_vals(1, 2), shape, mode=mode, nest=nest + [depth])]}
    for filled in (False, True):
        for mode in ("bare_hoist", "bare_meta"):
            for rcf in (False, True):
                pre = [R(_vals(3, 2), [C(0)])] if filled else []
                yield {"nc": 1, "fam": "D", "hist": pre + [R(_vals(0, 3), [C(0, rcf)], mode=mode, take=2, fin="leak"),
                                                            R(_vals(1, 2), [C(0, rcf)], mode=mode),
                                                            FINALIZE, R(_vals(2, 1), [C(0)], mode=mode)]}


def SR(vals, outer, branch, bufsize, take=None, fin="close", sraise=None, bare=False):
    return {"op": "splitrun", "src": {"vals": list(vals), "raise": sraise}, "outer": [dict(e) for e in outer],
            "branch": [dict(e) for e in branch], "bufsize": bufsize, "take": take, "fin": fin, "bare": bare}


_SPLIT_SHAPES = [([], [C(0)]), ([M(1)], [C(0)]), ([], [M(1), C(0), M(2)]), ([M(1)], [C(0), M(2), C(1)]),
                 ([C(1)], [M(2), C(0)]), ([M(3)], [M(1)])]


def _split_variants(outer, branch, n, bufsize, run=0, bare=False, fins=("close", "leak")):
    vals = _vals(run, n)
    yield SR(vals, outer, branch, bufsize, bare=bare)
    for fin in fins:
        for k in range(n + 1):
            yield SR(vals, outer, branch, bufsize, take=k, fin=fin, bare=bare)
        for k in range(n + 1):
            yield SR(vals, outer, branch, bufsize, sraise=k, fin=fin, bare=bare)
        if bare:
            continue
        for part, els in (("outer", outer), ("branch", branch)):
            if part == "branch" and bufsize is not None:
                continue        # an element with state in a per-buffer branch is Split's documented caveat
            for j, e in enumerate(els):
                if e["k"] == "map":
                    for k in range(n):
                        o2, b2 = [dict(x) for x in outer], [dict(x) for x in branch]
                        (o2 if part == "outer" else b2)[j]["raise"] = k
                        yield SR(vals, o2, b2, bufsize, fin=fin)


def _family_s(ns):
    """a Sequence branch with caches inside Split: every buffer size x every crash point, then a plain complete
    run of the same elements and a replay through the Split"""
    for outer, branch in _SPLIT_SHAPES:
        nc = 1 + max([e["c"] for e in outer + branch if e["k"] == "cache"] + [0])
        for n in ns:
            for bufsize in (None, 1, 2, 3):
                for r1 in _split_variants(outer, branch, n, bufsize):
                    yield {"nc": nc, "fam": "S", "hist": [r1, R(_vals(1, 2), outer + branch, mode="sequence"),
                                                          SR(_vals(2, 3), outer, branch, bufsize)]}
                # the Cache nested in sub-Sequences of the member
                for i in range(len(branch)):
                    for j in range(i + 1, len(branch) + 1):
                        yield {"nc": nc, "fam": "S", "hist": [dict(SR(_vals(0, n), outer, branch, bufsize), nest=[i, j]),
                                                              dict(SR(_vals(2, 3), outer, branch, bufsize), nest=[i, j])]}
    # a bare Cache as a member of Split: hoisted into a Source when it is filled (lena.core.alter_sequence)
    for outer in ([], [M(1)], [C(1)]):
        for rcf in (False, True):
            for n in ns:
                for bufsize in (None, 1, 2):
                    for filled in (False, True):
                        pre = [R(_vals(3, 2), [C(0)])] if filled else []
                        for r1 in _split_variants(outer, [C(0, rcf)], n, bufsize, bare=True):
                            yield {"nc": 2, "fam": "S", "hist": pre + [r1, SR(_vals(2, 3), outer, [C(0)], bufsize, bare=True),
                                                                       R(_vals(1, 1), [C(0)])]}


def _family_e(ns):
    """one pipeline object run three times (state kept in the objects between runs must not matter): every crash
    point of the first run, then a complete run and a replay with the same Source / Sequence / Cache / Split objects"""
    for shape in _SHAPES1 + _SHAPES2[:2]:
        nc = 1 + max(e["c"] for e in shape if e["k"] == "cache")
        for n in ns:
            for r1 in _crash_variants(shape, n):
                for mode in ("source", "sequence", "hoist", "hoist_src"):
                    hist = [dict(r1, mode=mode), dict(R(_vals(1, 2), shape, mode=mode), reuse=True),
                            dict(R(_vals(2, 3), shape, mode=mode), reuse=True), DROP(0),
                            dict(R(_vals(3, 1), shape, mode=mode), reuse=True)]
                    yield {"nc": nc, "fam": "E", "hist": hist}
    for outer, branch in _SPLIT_SHAPES[:4]:
        nc = 1 + max([e["c"] for e in outer + branch if e["k"] == "cache"] + [0])
        for n in ns:
            for r1 in _split_variants(outer, branch, n, 2):
                yield {"nc": nc, "fam": "E", "hist": [r1, dict(SR(_vals(1, 3), outer, branch, 2), reuse=True),
                                                      dict(SR(_vals(2, 2), outer, branch, 2), reuse=True)]}


def FCm(a):
    return {"k": "fc", "a": a}


def FRm(a):
    return {"k": "fr", "a": a}


def SQm(els, tup=False):
    return {"k": "seq", "els": [dict(e) for e in els], "tuple": tup}


_MEMBER_SETS = [([FCm(5)], []), ([], [FCm(5)]), ([FRm(6)], []), ([], [FRm(6)]), ([SQm([M(4)])], []), ([], [SQm([M(4)])]),
                ([FCm(5)], [FRm(6), SQm([M(4)])]), ([SQm([C(1)])], []), ([SQm([M(4), C(1)], True)], [FCm(5)]),
                ([FRm(6)], [SQm([C(1), M(4)])])]


def _mem(op, pre, post):
    return dict(op, pre=[dict(m) for m in pre], post=[dict(m) for m in post])


def _family_m(ns, quick):
    """a Split with SEVERAL members of several types (Sequence, tuple, FillCompute, FillRequest) one or two of which
    hold a Cache: every buffer size x every crash point, then a plain run of the main member's elements and a replay
    through the same Split; a Cache only in a member beside the main one; no Cache in any member; a bare Cache"""
    fins = ("close", "leak")
    for pre, post in _MEMBER_SETS:
        for outer, branch in (([], [C(0)]), ([M(3)], [M(1), C(0), M(2)])):
            for n in ns:
                for bufsize in (None, 1, 2):
                    for r1 in _split_variants(outer, branch, n, bufsize, fins=fins):
                        yield {"nc": 2, "fam": "M", "hist": [_mem(r1, pre, post), R(_vals(1, 2), outer + branch, mode="sequence"),
                                                             _mem(SR(_vals(2, 3), outer, branch, bufsize), pre, post)]}
    # the Cache in a member beside the main one, which has none
    for pre, post in (([SQm([M(4), C(0)])], [FCm(5)]), ([FRm(6)], [SQm([C(0)], True)]), ([SQm([C(0)]), SQm([C(1), M(4)])], [])):
        for n in ns:
            for bufsize in (None, 2):
                for r1 in _split_variants([M(3)], [M(1)], n, bufsize, fins=fins):
                    yield {"nc": 2, "fam": "M", "hist": [_mem(r1, pre, post), _mem(SR(_vals(1, 3), [M(3)], [M(1)], bufsize), pre, post),
                                                         R(_vals(2, 2), [M(3), M(4), C(0)])]}
    # no Cache in any member: the Split keeps its buffers (oracle only); a Cache before the Split
    for n in ns:
        for bufsize in (1, 2):
            for r1 in (SR(_vals(0, n), [C(0)], [M(1)], bufsize), SR(_vals(0, n), [C(0)], [M(1)], bufsize, take=1),
                       SR(_vals(0, n), [C(0)], [M(1)], bufsize, sraise=n)):
                yield {"nc": 1, "fam": "M", "hist": [_mem(r1, [FCm(5)], [FRm(6)]),
                                                     _mem(SR(_vals(1, 3), [C(0)], [M(1)], bufsize), [FCm(5)], [FRm(6)])]}
    # a bare Cache beside members of other types: a Source member when it is filled (oracle only)
    for filled in (False, True):
        for pre, post in (([FCm(5)], []), ([], [FRm(6), SQm([M(4)])])):
            for bufsize in (None, 2):
                for take in (None, 1, 3):
                    first = [R(_vals(3, 2), [C(0)])] if filled else []
                    yield {"nc": 1, "fam": "M", "hist": first + [
                        _mem(SR(_vals(0, 3), [M(3)], [C(0)], bufsize, take=take, bare=True), pre, post),
                        _mem(SR(_vals(1, 2), [M(3)], [C(0)], bufsize, bare=True), pre, post), R(_vals(2, 1), [C(0)])]}
    # the Cache in a nested Split that has a member of another type and a buffer size of its own (wrap "msplit")
    for wrap in (["msplit"], ["seq", "msplit"], ["msplit", "msplit"], ["split", "msplit"], ["msplit", "tsplit"]):
        for outer, branch in (([], [C(0)]), ([M(1)], [M(2), C(0), M(3)])):
            for bufsize in (None, 2):
                for r1 in (SR(_vals(0, 5), outer, branch, bufsize), SR(_vals(0, 5), outer, branch, bufsize, take=3, fin="leak"),
                           SR(_vals(0, 0), outer, branch, bufsize), SR(_vals(0, 4), outer, branch, bufsize, sraise=3)):
                    yield {"nc": 1, "fam": "M", "hist": [dict(r1, wrap=wrap), dict(SR(_vals(1, 3), outer, branch, bufsize), wrap=wrap),
                                                         R(_vals(2, 2), outer + branch)]}


def _family_o():
    """object re-use beyond one pipeline shape: (1) a Split whose member is a bare Cache that was filled when the Split
    was made (a Source member), run again and again; made before the cache was filled (a Sequence member, oracle
    only); a Split with several members run again; (2) ONE Sequence object with a Cache in the pipelines of different
    runs; (3) one Sequence object with a Cache named by a template of the static context in pipelines with different
    contexts"""
    for outer in ([], [M(1)], [C(1)]):
        for bufsize in (None, 2):
            for take in (None, 1):
                b = lambda run, n, **kw: dict(SR(_vals(run, n), outer, [C(0)], bufsize, bare=True, **kw), reuse=True)
                yield {"nc": 2, "fam": "O", "bare_consistent": True, "hist": [R(_vals(3, 3), [C(0)]), b(0, 3, take=take), b(1, 2), b(2, 4, take=2, fin="leak"),
                                                     b(4, 1), FINALIZE, R(_vals(5, 1), [C(0)])]}
                yield {"nc": 2, "fam": "O", "nomodel": True, "hist": [b(0, 3, take=take), b(1, 2), b(2, 4), DROP(0), b(4, 2), b(5, 1)]}
    for pre, post in _MEMBER_SETS:
        for bufsize in (None, 2):
            m = lambda run, n, **kw: dict(_mem(SR(_vals(run, n), [M(3)], [M(1), C(0)], bufsize, **kw), pre, post), reuse=True)
            yield {"nc": 2, "fam": "O", "hist": [m(0, 3), m(1, 2), DROP(0), m(2, 2, take=1), m(3, 3), m(4, 1)]}
    # (1b) the object alter_sequence returned (a Source when the cache was filled) is kept and called again
    for shape in _SHAPES1 + _SHAPES2[:2]:
        nc = 1 + max(e["c"] for e in shape if e["k"] == "cache")
        last = [e["c"] for e in shape if e["k"] == "cache"][-1]
        for mode in ("hoist", "hoist_src", "meta"):
            for filled in (False, True):
                first = [R(_vals(5, 3), [C(last)])] if filled else []
                k = lambda run, n, **kw: dict(R(_vals(run, n), shape, mode=mode, **kw), reuse=True, keep=True)
                yield {"nc": nc, "fam": "O", "hist": first + [k(0, 3), k(1, 2), k(2, 3, take=1, fin="leak"), k(3, 1), FINALIZE,
                                                               R(_vals(4, 2), shape)]}
    for mode in ("bare_hoist", "bare_meta"):
        k = lambda run, n, **kw: dict(R(_vals(run, n), [C(0)], mode=mode, **kw), reuse=True, keep=True)
        yield {"nc": 1, "fam": "O", "hist": [R(_vals(5, 3), [C(0)]), k(0, 3), k(1, 2, take=1), k(2, 1)]}
        yield {"nc": 1, "fam": "O", "hist": [k(0, 3), k(1, 2, take=1), k(2, 1), DROP(0), k(3, 2), k(4, 1)]}
    # (2) els[i:j] of every run are one object
    for shape, (i, j) in (([M(1), C(0), M(2)], (1, 2)), ([M(1), C(0), M(2)], (0, 2)), ([C(0), M(2), C(1)], (0, 3)),
                          ([M(1), C(0), M(2), C(1), M(3)], (1, 4))):
        nc = 1 + max(e["c"] for e in shape if e["k"] == "cache")
        for mode in ("source", "sequence", "hoist", "hoist_src", "meta"):
            for r1 in _crash_variants(shape, 2, fins=("close",)):
                # the second pipeline has other elements around the shared Sequence
                shape2 = [M(5)] + shape + [M(6)]
                hist = [dict(r1, mode=mode, share=[i, j, 0]), dict(R(_vals(1, 3), shape2, mode=mode), share=[i + 1, j + 1, 0]),
                        dict(R(_vals(2, 2), shape, mode=mode), share=[i, j, 0]), DROP(0),
                        dict(R(_vals(3, 2), shape2), share=[i + 1, j + 1, 0]), dict(R(_vals(4, 1), shape, mode=mode), share=[i, j, 0])]
                yield {"nc": nc, "fam": "O", "hist": hist}
    # (3) a templated name: the same Sequence(Cache("t0_{{k0}}.pkl")) under SetContext(k0, v1) and SetContext(k0, v2)
    base = {"nc": 7, "nb": 1, "V": 2, "tkeys": [0, 1], "fam": "O"}
    for v1, v2 in ((0, 1), (1, 0), (0, 0)):
        for i, j in ((2, 3), (1, 3), (2, 4)):
            p = lambda v: [SET(0, v), M(1), TC(0, 0), M(2)]
            for first in (R(_vals(0, 3), p(v1)), R(_vals(0, 3), p(v1), take=2, fin="leak"), R(_vals(0, 3), p(v1), sraise=1)):
                for mode in ("source", "sequence", "hoist", "hoist_src"):
                    sh = lambda op: dict(op, share=[i, j, 0])
                    hist = [sh(first), sh(R(_vals(1, 2), p(v2), mode=mode)), FINALIZE, sh(R(_vals(2, 2), p(v1), mode=mode)),
                            sh(R(_vals(3, 1), p(v2), mode=mode)), REPR(1), REPR(2), REPR(3)]
                    yield dict(base, hist=hist)
    # ... and in a member of Split: the static context of the outer elements reaches the shared branch
    # (a Split is made anew for every run; its member objects are not shared: covered by X)


def _chains(kinds, depth):
    for d in range(depth + 1):
        for ch in itertools.product(kinds, repeat=d):
            yield list(ch)


def _family_n():
    """the Cache at depth 0..3 of a Split member, through every alternation of containers"""
    # (a) the buffer-size rule alone: chains of Sequence / tuple / RunIf / Split, the payload a Cache or not,
    #     with and without sibling elements
    for chain in _chains(("seq", "tuple", "runif", "split"), 3):
        # a tuple is a Sequence only as a member of a Split
        if any(k == "tuple" and i > 0 and chain[i - 1] != "split" for i, k in enumerate(chain)):
            continue
        for payload in ("C", "L"):
            for sib in (False, True):
                t = payload
                for kind in reversed(chain):
                    kids = [t] if kind == "split" else (["L", t] if sib else [t])
                    if kind == "split" and sib:
                        kids = [{"seq": ["L"]}, t]
                    t = {kind: kids}
                for bufsize in (2, None):
                    yield {"nc": 1, "fam": "N", "hist": [{"op": "bufrule", "members": [t], "bufsize": bufsize},
                                                         {"op": "bufrule", "members": [{"seq": ["L"]}, t], "bufsize": bufsize},
                                                         # beside members of other types (FillCompute, FillRequest)
                                                         {"op": "bufrule", "members": ["FC", t], "bufsize": bufsize},
                                                         {"op": "bufrule", "members": [t, "FR", {"seq": ["L"]}], "bufsize": bufsize},
                                                         {"op": "bufrule", "members": ["FR", {"split": ["FC", t]}], "bufsize": bufsize}]}
    # (b) runs: the branch wrapped into 1..3 nested Sequences / Splits / Splits with a tuple member, outer buffer
    #     smaller than the flow
    for wrap in _chains(("seq", "split", "tsplit"), 3):
        if not wrap:
            continue
        for outer, branch in (([], [C(0)]), ([M(1)], [M(2), C(0), M(3)])):
            for bufsize in (1, 2):
                for r1 in (SR(_vals(0, 5), outer, branch, bufsize), SR(_vals(0, 5), outer, branch, bufsize, take=3, fin="leak"),
                           SR(_vals(0, 4), outer, branch, bufsize, sraise=3)):
                    yield {"nc": 1, "fam": "N", "hist": [dict(r1, wrap=wrap), dict(SR(_vals(1, 3), outer, branch, bufsize), wrap=wrap),
                                                         R(_vals(2, 2), outer + branch)]}


PLANT = lambda c, what: {"op": "plant", "c": c, "what": what}


def _family_k():
    """exceptions that are not Exceptions: KeyboardInterrupt, SystemExit, a BaseException subclass, GeneratorExit
    raised by the source or by an element at value k, closed or kept alive; then a complete run and a replay"""
    for shape in _SHAPES1 + _SHAPES2[:2]:
        nc = 1 + max(e["c"] for e in shape if e["k"] == "cache")
        n = 3
        for rk in _RAISE_KINDS[1:]:
            firsts = []
            for fin in ("close", "leak"):
                for k in (0, 2, 3):
                    firsts.append(R(_vals(0, n), shape, sraise=k, fin=fin, rk=rk))
                for j, e in enumerate(shape):
                    if e["k"] == "map":
                        for k in (0, 2):
                            els = [dict(x) for x in shape]
                            els[j]["raise"], els[j]["rk"] = k, rk
                            firsts.append(R(_vals(0, n), els, fin=fin))
            for r1 in firsts:
                for mode in ("source", "hoist"):
                    yield {"nc": nc, "fam": "K", "hist": [dict(r1, mode=mode), R(_vals(1, 2), shape, mode=mode), FINALIZE,
                                                          R(_vals(2, 3), shape, mode="sequence")]}
    # the same in a member of Split
    for rk in _RAISE_KINDS[1:]:
        for bufsize in (None, 2):
            for k in (0, 2, 3):
                yield {"nc": 1, "fam": "K", "hist": [dict(SR(_vals(0, 3), [M(1)], [C(0), M(2)], bufsize, sraise=k), src={
                    "vals": _vals(0, 3), "raise": k, "rk": rk}), SR(_vals(1, 2), [M(1)], [C(0), M(2)], bufsize)]}


def _long(run, n):
    return [run * 5000 + i for i in range(n)]


def _family_l(quick):
    """flows longer than the constants of the code and of the libraries below it: 63..70 values, 1000/1001/1100
    (Split's default bufsize), and 3000 values (thorough)"""
    lens = [63, 64, 65, 70, 1001] if quick else [63, 64, 65, 70, 129, 1000, 1001, 1100, 3000]
    for n in lens:
        for shape in ([C(0)], [M(1), C(0), M(2)]):
            if n > 1001 and len(shape) > 1:
                continue
            yield {"nc": 1, "fam": "L", "hist": [R(_long(0, n), shape), R(_long(1, 3), shape, mode="hoist")]}
            yield {"nc": 1, "fam": "L", "hist": [R(_long(0, n), shape, take=n, fin="leak"), R(_long(1, n), shape),
                                                 FINALIZE, R(_long(2, 2), shape, mode="sequence")]}
    # a member of Split with the *default* buffer size and a flow that does not fit into it
    for n in ([1001] if quick else [1000, 1001, 1100, 2500]):
        for wrap in (None, ["split"]):
            op = dict(SR(_long(0, n), [], [C(0)], 1000), default_bufsize=True)
            if wrap:
                op["wrap"] = wrap
            yield {"nc": 1, "fam": "L", "hist": [op, R(_long(1, 2), [C(0)])]}


def _family_p():
    """files no run of the history made: an empty file at the name of a cache, the temporary file of a killed process"""
    shape = [M(1), C(0), M(2)]
    for plant in (PLANT(0, "empty"), PLANT(0, "tmp")):
        for r1 in _crash_variants(shape, 2):
            for mode in ("source", "hoist"):
                yield {"nc": 1, "fam": "P", "hist": [plant, dict(r1, mode=mode), REPR(0), R(_vals(1, 3), shape, mode=mode),
                                                     DROP(0), plant, R(_vals(2, 2), shape)]}
                yield {"nc": 1, "fam": "P", "hist": [dict(r1, mode=mode), plant, FINALIZE, R(_vals(1, 3), shape, mode=mode),
                                                     R(_vals(2, 2), shape)]}


def _family_v():
    """downstream stops consuming: a real element (Slice(k)) ends the flow instead of the consumer"""
    for shape in _SHAPES1 + _SHAPES2[:2]:
        nc = 1 + max(e["c"] for e in shape if e["k"] == "cache")
        for n in (0, 2, 3):
            for k in range(n + 2):
                for mode in ("source", "sequence", "hoist_src"):
                    yield {"nc": nc, "fam": "V", "hist": [R(_vals(0, n), shape, take=k, mode=mode, via="slice"),
                                                          R(_vals(1, 2), shape, take=1, mode=mode, via="slice"),
                                                          R(_vals(2, 3), shape, mode=mode), R(_vals(3, 1), shape, take=2, via="slice")]}


def _family_g():
    """elements whose `run` is not lazy (oracle only, see ASSUMPTIONS): the no-pull clause is demanded of them only
    when the Cache is hoisted"""
    def E(a, r=None):
        return dict(M(a, r), eager=True)
    shapes = [[E(1), C(0)], [C(0), E(2), C(1)], [M(1), C(0), E(2)], [E(1), C(0), M(2)], [E(1), M(3), C(0), E(2), C(1)]]
    for shape in shapes:
        nc = 1 + max(e["c"] for e in shape if e["k"] == "cache")
        for r1 in _crash_variants(shape, 2):
            for mode in ("source", "sequence", "hoist", "hoist_src"):
                yield {"nc": nc, "fam": "G", "hist": [dict(r1, mode=mode), R(_vals(1, 3), shape, mode=mode),
                                                      R(_vals(2, 2), shape, mode=mode), DROP(0), R(_vals(3, 2), shape, mode=mode)]}
        # the Cache (alone, or with its neighbours) one to three Sequences deep: hoisting must find it
        ic = [j for j, e in enumerate(shape) if e["k"] == "cache"]
        for i, j in sorted(set([(ic[0], ic[0] + 1), (ic[-1], ic[-1] + 1), (max(ic[0] - 1, 0), ic[0] + 1), (ic[0], len(shape))])):
            if (i, j) == (0, len(shape)):
                continue
            for depth in (1, 2, 3):
                for mode in ("sequence", "hoist", "hoist_src"):
                    for r1 in (R(_vals(0, 2), shape), R(_vals(0, 2), shape, take=1)):
                        nest = [i, j, depth]
                        yield {"nc": nc, "fam": "G", "hist": [dict(r1, mode=mode, nest=nest), R(_vals(1, 3), shape, mode=mode, nest=nest),
                                                              R(_vals(2, 2), shape, mode=mode, nest=nest)]}


def _random_case(rng):
    nc = rng.choice([1, 2, 2, 3])
    hist = []
    for i in range(rng.randint(1, 6)):
        r = rng.random()
        if r < 0.04:
            hist.append(PLANT(rng.randrange(nc), rng.choice(["empty", "tmp"])))
        elif r < 0.12:
            hist.append(DROP(rng.randrange(nc), rng.random() < 0.2))
        elif r < 0.22:
            hist.append(dict(FINALIZE))
        else:
            ids = [c for c in range(nc) if rng.random() < 0.75]
            rng.shuffle(ids)
            els = [dict(C(c, rng.random() < 0.2), proto=rng.randint(0, 5), method=rng.choice(["pickle", "cPickle"]))
                   for c in ids]
            for _ in range(rng.randint(0, 3)):
                els.insert(rng.randint(0, len(els)), M(rng.randint(1, 9)))
            n = rng.randint(0, 6)
            sraise, take = None, None
            crash = rng.random()
            if crash < 0.25:
                take = rng.randint(0, n + 1)
            elif crash < 0.4:
                sraise = rng.randint(0, n)
            elif crash < 0.55:
                ms = [e for e in els if e["k"] == "map"]
                if ms:
                    rng.choice(ms)["raise"] = rng.randint(0, max(n - 1, 0))
            rk = rng.choice(_RAISE_KINDS) if rng.random() < 0.4 else "exc"
            for e in els:
                if e["k"] == "map" and e["raise"] is not None and rk != "exc":
                    e["rk"] = rk
            mode = rng.choice(MODES[:5])
            nest = None
            if len(els) == 1 and els[0]["k"] == "cache" and rng.random() < 0.3:
                mode = rng.choice(MODES[5:])
            elif els and rng.random() < 0.3:
                a = rng.randint(0, len(els) - 1)
                nest = [a, rng.randint(a + 1, len(els))]
            vals = [rng.randint(0, 12) + 20 * i for _ in range(n)]
            if rng.random() < 0.2:
                cut = rng.randint(0, len(els))
                bufsize = rng.choice([None, None, 1, 2, 3, 5])
                branch = els[cut:]
                if bufsize is not None:
                    for e in branch:
                        if e["k"] == "map":
                            e["raise"] = None
                hist.append(SR(vals, els[:cut], branch, bufsize, take=take, fin=rng.choice(["close", "leak"]),
                               sraise=sraise))
                if rk != "exc":
                    hist[-1]["src"]["rk"] = rk
                if len(branch) == 1 and branch[0]["k"] == "cache" and rng.random() < 0.3:
                    hist[-1]["bare"] = True
                if branch and rng.random() < 0.3:
                    # further members of the Split: of other types, Sequences and tuples with or without a Cache
                    free = [c for c in range(nc) if c not in ids]
                    def member():
                        r = rng.random()
                        if r < 0.35:
                            return FCm(rng.randint(0, 9))
                        if r < 0.6:
                            return FRm(rng.randint(0, 9))
                        mels = [M(rng.randint(1, 9)) for _ in range(rng.randint(0, 2))]
                        if free and rng.random() < 0.5:
                            mels.insert(rng.randint(0, len(mels)), dict(C(free.pop()), proto=rng.randint(0, 5), method="pickle"))
                        return SQm(mels or [M(1)], rng.random() < 0.3)
                    hist[-1]["pre"] = [member() for _ in range(rng.randint(0, 2))]
                    hist[-1]["post"] = [member() for _ in range(rng.randint(0, 2))]
                if not branch:
                    hist[-1]["branch"] = [M(1)]
                continue
            via = "slice" if (take is not None and mode not in MODES[5:] and rng.random() < 0.3) else None
            hist.append(R(vals, els, take=take, fin="close" if via else rng.choice(["close", "leak"]), mode=mode,
                          sraise=sraise, nest=nest, rk=rk, via=via))
    # the same pipeline object run again: a later run copies the pipeline of an earlier one and is marked "reuse"
    for i in range(1, len(hist)):
        prev = [h for h in hist[:i] if h["op"] == hist[i]["op"] and h["op"] in ("run", "splitrun")]
        if prev and rng.random() < 0.35:
            p = rng.choice(prev)
            if hist[i].get("via") or p.get("via"):
                continue
            for f in ("els", "mode", "nest", "outer", "branch", "bufsize", "bare", "pre", "post"):
                if f in p:
                    hist[i][f] = copy.deepcopy(p[f])
                else:
                    hist[i].pop(f, None)
            for part in ("els", "outer", "branch"):
                for e in hist[i].get(part, []):
                    if e["k"] == "map":
                        e["raise"] = None
            hist[i]["reuse"] = True
    case = {"nc": nc, "fam": "R", "hist": hist}
    if rng.random() < 0.2:
        # one Sequence object (a Cache, or a Cache and a neighbour) in the pipelines of several runs of the history
        c0 = rng.randrange(nc)
        seg = [dict(C(c0), proto=rng.randint(0, 5), method="pickle")]
        if rng.random() < 0.5:
            seg.insert(rng.randint(0, 1), M(rng.randint(1, 9)))
        for op in hist:
            if (op["op"] == "run" and op.get("mode") in MODES[:5] and not op.get("nest") and not op.get("reuse")
                    and rng.random() < 0.7):
                els = [e for e in op["els"] if not (e["k"] == "cache" and e["c"] == c0)]
                at = rng.randint(0, len(els))
                op["els"] = els[:at] + [dict(e) for e in seg] + els[at:]
                op["share"] = [at, at + len(seg), 0]
        # (a later run marked "reuse" copies the pipeline of an earlier run that has no share mark, or was made before)
        for op in hist:
            if op.get("reuse") and op["op"] == "run":
                op.pop("share", None)
    if rng.random() < 0.15:
        case["dirs"] = True
    return case


def _enumerated(quick):
    return itertools.chain(
        _family_a(range(0, 5) if quick else range(0, 7)),
        _family_b(2), _family_b(3), ([] if quick else _family_b(4)),
        _family_c(3 if quick else 4),
        _family_d(),
        _family_s(range(0, 4) if quick else range(0, 6)),
        _family_x(),
        _family_e(range(0, 3) if quick else range(0, 5)),
        _family_n(),
        _family_k(), _family_l(quick), _family_p(), _family_v(), _family_g(),
        _family_m(range(0, 4) if quick else range(0, 5), quick), _family_o())


def gen_cases(ctx):
    """a generator (cases are produced lazily); the random histories are interleaved with the enumerated families so
    that every prefix of the stream is a mixture"""
    rng = ctx.rng
    quick = ctx.tier == "quick"
    ctx.exhaustive = False     # the enumerated families are complete; the random histories are sampled
    n_random = 12000 if quick else 120000
    per = 1 if quick else 4
    made = 0
    for i, c in enumerate(_enumerated(quick)):
        c["vk"] = _VKS[i % 5]
        if i % 6 == 5 and not any(op["op"] == "bufrule" for op in c["hist"]):
            c["dirs"] = True            # the cache files in directories that do not exist yet
        for op in c["hist"]:            # pickle options rotate over the enumerated cases
            for e in (op.get("els", []) + op.get("outer", []) + op.get("branch", [])
                      + [e for m in (op.get("pre") or []) + (op.get("post") or []) for e in m.get("els", [])]):
                if e["k"] in ("cache", "tcache"):
                    e["proto"], e["method"] = (i // 4) % 6, ("pickle", "cPickle")[(i // 24) % 2]
        yield c
        for _ in range(per):
            if made < n_random:
                made += 1
                r = _random_case(rng)
                r["vk"] = rng.choice(_VKS)
                yield r
    while made < n_random:
        made += 1
        r = _random_case(rng)
        r["vk"] = rng.choice(_VKS)
        yield r


def SET(k, v):
    return {"k": "setctx", "key": k, "v": v}


def TC(t, k, rc=False):
    return {"k": "tcache", "t": t, "key": k, "rc": rc}


REPR = lambda c, rc=False: {"op": "repr", "c": c, "rc": rc}


def _family_x():
    """file names from the static context (Cache._set_context), repr, and a cache name that is a directory:
    one plain cache (id 0) and two templates over the keys k0, k1 with values 0, 1 (ids 1..6)"""
    base = {"nc": 7, "nb": 1, "V": 2, "tkeys": [0, 1], "fam": "X"}
    def pipes(v, w):
        sv = [SET(0, v)] if v is not None else []
        sw = [SET(1, w)] if w is not None else []
        yield sv + [M(1), TC(0, 0), M(2)]
        if v is not None:                                              # (without the SetContext: the same file twice)
            yield [TC(0, 0)] + sv + [M(1), TC(0, 0, True)]             # the same template before and after the SetContext
        else:
            yield [TC(1, 0)] + sv + [M(1), TC(0, 0, True)]
        yield sv + sw + [TC(0, 0), M(1), TC(1, 1)]
        yield sw + [M(1), TC(1, 1)] + sv + [C(0), TC(0, 0)]
        yield [SET(0, 1 - v if v is not None else 0)] + sv + [TC(0, 0), M(3)]   # a later SetContext overrides
    vws = [(None, None), (0, None), (1, 0), (0, 1)]
    for (v1, w1), (v2, w2) in itertools.product(vws, repeat=2):
        for p1, p2 in zip(pipes(v1, w1), pipes(v2, w2)):
            for first in (R(_vals(0, 3), p1), R(_vals(0, 3), p1, take=2, fin="leak"), R(_vals(0, 3), p1, sraise=1)):
                for mode in ("source", "sequence", "hoist"):
                    hist = [first, R(_vals(1, 2), p2, mode=mode), FINALIZE, R(_vals(2, 2), p1, mode=mode),
                            REPR(1), REPR(2), REPR(2, True), REPR(0)]
                    yield dict(base, hist=hist)
    # the static context of the outer elements reaches a templated Cache in a member of Split
    for v in (None, 0, 1):
        for w in (None, 1):
            sv = [SET(0, v)] if v is not None else []
            sw = [SET(0, w)] if w is not None else []
            for bufsize in (None, 2):
                for take in (None, 1):
                    hist = [SR(_vals(0, 3), sv + [M(1)], sw + [TC(0, 0), M(2)], bufsize, take=take),
                            SR(_vals(1, 3), sv + [M(1)], sw + [TC(0, 0), M(2)], bufsize),
                            R(_vals(2, 2), sv + sw + [TC(0, 0)]), REPR(1), REPR(2), REPR(3)]
                    yield dict(base, hist=hist)
    # repr and drop on plain caches after every kind of first run
    for r1 in _crash_variants([M(1), C(0)], 2):
        yield {"nc": 1, "fam": "X", "hist": [REPR(0), r1, REPR(0), REPR(0, True), DROP(0), REPR(0), DROP(0, True),
                                             {"op": "dropdir", "c": 0, "rc": False}, {"op": "dropdir", "c": 0, "rc": True}]}


# ---- MANIFEST texts ------------------------------------------------------------------------
LEVEL_TEXT = ("Lean 4 theorems about a transcribed generator machine (Cache.run / _dump_flow_and_yield / _load_flow / "
              "alter_sequence inside Sequence.run and Source.__call__, with explicit crash points and an abstract file "
              "system), for all pipelines with distinct caches, all sources, all demands of the consumer, all ways of "
              "calling and all histories of run / drop_cache / finalize operations (no bound): a run yields the flow "
              "unaltered, a complete first run stores exactly the complete flow that entered the cache, a replay yields "
              "exactly the stored values with no event upstream of the cache, Cache.alter_sequence builds the same "
              "generators as Sequence.run (for lena.core.alter_sequence this is the transcribed observation that it returns "
              "its argument), a stored cache persists through every history without drop/recompute of it, "
              "recompute and drop_cache restore first-run behaviour, an interrupted run changes no cache file, and over "
              "every history a cache file only ever holds the complete flow of a run that reached its normal end; a Cache "
              "in a Sequence member of Split is filled with the whole flow (Split = outer run + one ordinary run of the "
              "member; with several members of type sequence / fill_compute / fill_request: every Cache of every Sequence "
              "member stores the whole flow, and the rule for the buffer size does not depend on the other members), a "
              "filled bare Cache member is replayed exactly; templated cache names depend only on preceding "
              "SetContext elements and other names are never touched. The "
              "model is tied to /repo by a correspondence check on event traces and file-system snapshots over exhaustive "
              "small scopes plus seeded random histories, and a direct oracle evaluates the statement on the real code.")
LEVEL_NOTE = ("Trusted: Lean kernel (+ propext, Classical.choice, Quot.sound), the hand transcription validated by the "
              "correspondence run, CPython generator finalisation and pickle/os semantics as transcribed, the JSON "
              "protocol. 22 theorems carry the property, 33 more (instances, proof lemmas, encoding lemmas, decision "
              "lemmas, one counterexample) are audited as support. Assumed, not proved: upstream elements are lazy "
              "(generator functions); pickle snapshots the value at dump time; runs on one cache file do not overlap; "
              "Split runs are not part of the history theorems; several members of a Split are modelled when the Split reads "
              "the whole flow (a Cache in a Sequence member, or bufsize=None), Source members other than a hoisted Cache, "
              "FillComputeSeq/FillRequestSeq members with a Cache and errors of the Cache itself (pickling, disk) are "
              "outside the model.")
TECHNIQUE = "Lean 4 proof (one-step simulation + history invariant) over hand-written generator/file-system model + correspondence check"
DESIGN_REF = "DESIGN.md section 3, C18"
